#!/usr/bin/env python3
"""Print the markdown table of seeded changes and the checks that catch them (from /verif/seeded/*/meta.json)."""
import json, glob, os
rows = []
for f in sorted(glob.glob("/verif/seeded/*/meta.json")):
    m = json.load(open(f))
    note = (m.get("needs_to_manifest") or "").strip().splitlines()
    title = note[0] if note else ""
    title = title.replace("|", "/")[:150]
    det = m.get("detection", {})
    how = []
    for p, d in det.items():
        if d.get("exit") == 1:
            parts = []
            ob = d.get("obligations_broken")
            if ob:
                parts.append("obligations: " + ", ".join(o.split(".")[-1] for o in ob[:4]))
            ks = d.get("oracle_keys")
            if ks:
                parts.append("oracle: " + ", ".join(sorted(set(ks))[:3]))
            how.append("%s (%s)" % (p, "; ".join(parts) if parts else "oracle"))
    rows.append("| %s | %s | %s | %s |" % (m["id"], title, ", ".join(m.get("detected_by", [])) or "**none**", "; ".join(how)))
print("| id | change (first line of the author's note) | caught by | how |")
print("|---|---|---|---|")
print("\n".join(rows))
