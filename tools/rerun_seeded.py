#!/usr/bin/env python3
"""Re-run the registered checks against every stored seeded change (/verif/seeded/<id>/patch.diff): apply to /repo,
run check.py for the target property (and the properties that caught it before), undo, refresh meta.json
(detection, detected_by, which obligations / oracle keys fired). Evidence files are restored afterwards.

usage: rerun_seeded.py [id ...]"""
import json, os, subprocess, sys, time, glob, re

ENV = dict(os.environ, GOFLAGS="-mod=mod", GOPROXY="off", GOSUMDB="off", GOTOOLCHAIN="local")

def sh(cmd, cwd=None, timeout=3000):
    p = subprocess.run(cmd, cwd=cwd, env=ENV, stdout=subprocess.PIPE, stderr=subprocess.STDOUT, timeout=timeout)
    return p.returncode, p.stdout.decode("utf-8", "replace")

def main():
    ids = sys.argv[1:] or sorted(os.path.basename(os.path.dirname(p)) for p in glob.glob("/verif/seeded/*/meta.json"))
    st = subprocess.run(["git", "-C", "/repo", "status", "--porcelain"], stdout=subprocess.PIPE).stdout.decode().strip()
    if st:
        print("REPO NOT CLEAN, refusing:", st)
        return 2
    for mid in ids:
        d = "/verif/seeded/%s" % mid
        meta = json.load(open(os.path.join(d, "meta.json")))
        prop = meta["breaks_property"]
        checks = [prop] + [p for p in meta.get("detected_by", []) if p != prop]
        rc, out = sh(["git", "-C", "/repo", "apply", "--check", os.path.join(d, "patch.diff")])
        if rc != 0:
            print(mid, "PATCH DOES NOT APPLY", out[-300:])
            meta["applies_to_head"] = False
            json.dump(meta, open(os.path.join(d, "meta.json"), "w"), indent=1)
            continue
        meta["applies_to_head"] = True
        det = {}
        try:
            rc, out = sh(["git", "-C", "/repo", "apply", os.path.join(d, "patch.diff")])
            for p in checks:
                t0 = time.time()
                rc, out = sh(["python3", "/verif/check.py", p, "--tier", "quick"], cwd="/verif")
                lines = [l for l in out.splitlines() if l.startswith("VIOLATION") or l.startswith("KNOWN-FINDING")]
                first = [l for l in out.splitlines() if l.startswith("  ")][:3]
                fired = []
                try:
                    ev = json.load(open("/verif/evidence/%s.json" % p))
                    fired = [o["name"] for o in ev["coverage"]["obligation_list"] if not o["discharged"]]
                except Exception:
                    pass
                keys = []
                for l in lines:
                    m = re.search(r"replay=(\S+)", l)
                    if m and os.path.exists(m.group(1)):
                        try:
                            keys.append(json.load(open(m.group(1))).get("key", ""))
                        except Exception:
                            pass
                det[p] = {"exit": rc, "lines": [l[:300] for l in lines[:6]], "first_messages": [f[:300] for f in first],
                          "obligations_broken": fired, "oracle_keys": keys, "wall_s": round(time.time() - t0, 1)}
        finally:
            sh(["git", "-C", "/repo", "checkout", "--", "."])
        meta["detection"] = det
        meta["detected_by"] = [p for p, x in det.items() if x["exit"] == 1 and any(l.startswith("VIOLATION") for l in x["lines"])]
        meta["rerun_at_repo_head"] = subprocess.run(["git", "-C", "/repo", "rev-parse", "--short", "HEAD"], stdout=subprocess.PIPE).stdout.decode().strip()
        json.dump(meta, open(os.path.join(d, "meta.json"), "w"), indent=1)
        print(mid, "detected_by", meta["detected_by"], {p: (x["obligations_broken"], x["oracle_keys"][:2]) for p, x in det.items()}, flush=True)
    sh(["git", "-C", "/verif", "checkout", "--", "evidence"])
    return 0

if __name__ == "__main__":
    sys.exit(main())
