#!/usr/bin/env python3
"""Confirm a seeded change (compiles, passes the pinned tests, its demonstration fails with it and passes
without it) in its scratch worktree, store it under /verif/seeded/<id>/, and run the registered checks of
the given properties against it (applied to /repo, undone straight afterwards).

usage: mutants.py <Cxx> <A|B|...> [check-props...]     (sources: /tmp/mut/out/<Cxx>/patch<X>.diff, demo<X>/, note<X>.txt)
"""
import json, os, shutil, subprocess, sys, time, glob

ENV = dict(os.environ, GOFLAGS="-mod=mod", GOPROXY="off", GOSUMDB="off", GOTOOLCHAIN="local")

def sh(cmd, cwd=None, timeout=1800):
    p = subprocess.run(cmd, cwd=cwd, env=ENV, stdout=subprocess.PIPE, stderr=subprocess.STDOUT, timeout=timeout, shell=isinstance(cmd, str))
    return p.returncode, p.stdout.decode("utf-8", "replace")

def run_demo(ddir):
    if glob.glob(os.path.join(ddir, "*_test.go")):
        return sh(["go", "test", "-count=1", "./..."], cwd=ddir)
    return sh(["go", "run", "."], cwd=ddir)

def main():
    prop, x = sys.argv[1], sys.argv[2]
    checks = sys.argv[3:] or [prop]
    root = os.environ.get("MUT_ROOT", "/tmp/mut")
    src = "%s/out/%s" % (root, prop)
    wt = "%s/%s" % (root, prop)
    patch = os.path.join(src, "patch%s.diff" % x) if x != "extra" else glob.glob(os.path.join(src, "extra*", "patch.diff"))[0]
    demo = os.path.join(src, "demo%s" % x) if x != "extra" else os.path.join(os.path.dirname(patch), "demo")
    note = os.path.join(src, "note%s.txt" % x) if x != "extra" else os.path.join(os.path.dirname(patch), "note.txt")
    # a second batch delivers patchA/patchB again: MUT_RENAME=A:C,B:D stores them as <prop>C / <prop>D
    ren = dict(kv.split(":") for kv in os.environ.get("MUT_RENAME", "").split(",") if ":" in kv)
    mid = "%s%s" % (prop, ren.get(x, x))
    meta = {"id": mid, "breaks_property": prop, "source": "independent sub-agent given only the property text and a scratch worktree", "ran": []}
    # ---- confirm in the scratch worktree
    sh(["git", "checkout", "--", "."], cwd=wt)
    rc, out = sh(["git", "apply", patch], cwd=wt)
    meta["applies"] = rc == 0
    rc, out = sh("go build ./... && go build -tags verif ./...", cwd=wt)
    meta["compiles"] = rc == 0
    rc, out = sh(["go", "test", "-vet=off", "-count=1", "./..."], cwd=wt)
    meta["passes_existing_tests"] = rc == 0
    meta["ran"].append("cd %s && git apply patch.diff && go build ./... && go test -vet=off -count=1 ./...  -> rc %d" % (wt, rc))
    rc1, out1 = run_demo(demo)
    meta["demo_fails_with_change"] = rc1 != 0
    sh(["git", "checkout", "--", "."], cwd=wt)
    rc2, out2 = run_demo(demo)
    meta["demo_passes_without_change"] = rc2 == 0
    meta["ran"].append("demonstration with the change: rc %d; without: rc %d" % (rc1, rc2))
    meta["demo_output_with_change"] = out1[-1500:]
    meta["needs_to_manifest"] = open(note).read() if os.path.exists(note) else ""
    confirmed = all(meta[k] for k in ("applies", "compiles", "passes_existing_tests", "demo_fails_with_change", "demo_passes_without_change"))
    meta["confirmed"] = confirmed
    dest = "/verif/seeded/%s" % mid
    if confirmed:
        os.makedirs(dest, exist_ok=True)
        shutil.copy(patch, os.path.join(dest, "patch.diff"))
        if os.path.exists(os.path.join(dest, "demo")):
            shutil.rmtree(os.path.join(dest, "demo"))
        shutil.copytree(demo, os.path.join(dest, "demo"))
    # ---- run the registered checks against it
    det = {}
    if confirmed:
        st = subprocess.run(["git", "-C", "/repo", "status", "--porcelain"], stdout=subprocess.PIPE).stdout.decode().strip()
        if st:
            print("REPO NOT CLEAN, refusing:", st)
            return 2
        try:
            rc, out = sh(["git", "-C", "/repo", "apply", patch])
            assert rc == 0, out
            for p in checks:
                t0 = time.time()
                rc, out = sh(["python3", "/verif/check.py", p, "--tier", "quick"], cwd="/verif", timeout=3000)
                lines = [l for l in out.splitlines() if l.startswith("VIOLATION") or l.startswith("KNOWN-FINDING")]
                first = [l for l in out.splitlines() if l.startswith("  ")][:3]
                det[p] = {"exit": rc, "lines": lines[:6], "first_messages": first, "wall_s": round(time.time() - t0, 1)}
                meta["ran"].append("git -C /repo apply patch.diff; python3 check.py %s --tier quick -> exit %d" % (p, rc))
        finally:
            sh(["git", "-C", "/repo", "checkout", "--", "."])
    meta["detection"] = det
    meta["detected_by"] = [p for p, d in det.items() if d["exit"] == 1 and any(l.startswith("VIOLATION") for l in d["lines"])]
    if confirmed:
        json.dump(meta, open(os.path.join(dest, "meta.json"), "w"), indent=1)
    print(json.dumps({k: meta[k] for k in ("id", "confirmed", "applies", "compiles", "passes_existing_tests", "demo_fails_with_change", "demo_passes_without_change", "detected_by")}))
    for p, d in det.items():
        print(" ", p, d["exit"], d["lines"][:2], d["first_messages"][:1])

if __name__ == "__main__":
    sys.exit(main())
