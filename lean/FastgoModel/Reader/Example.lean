import FastgoModel.Reader.Control
/-
  A toy decoder for non-vacuity examples: the "compressed stream" is its own payload terminated by a 0 byte;
  each run copies bytes up to the marker or up to the room left in a 4-byte output window.
-/
namespace Fastgo.Reader

def toyScan : List UInt8 → Nat → Nat × List UInt8 × Bool   -- (taken, out, sawEnd), at most `room` output bytes
  | [], _ => (0, [], false)
  | b :: r, room =>
    if b = 0 then (1, [], true)
    else if room = 0 then (0, [], false)
    else
      let (k, o, e) := toyScan r (room - 1)
      (k + 1, b :: o, e)

def toyDecoder : Decoder Unit where
  init := ()
  run := fun _ input bl ended =>
    if ended then { st := (), k := 0, bitsLen := bl, out := [], status := .done, ended := true }
    else
      let (k, o, e) := toyScan input 4
      { st := (), k := k, bitsLen := bl, out := o,
        status := if e then .done else if k < input.length then .outFull else .needInput, ended := e }

theorem toyScan_le (input : List UInt8) (room : Nat) : (toyScan input room).1 ≤ input.length := by
  induction input generalizing room with
  | nil => simp [toyScan]
  | cons b r ih =>
    unfold toyScan
    split
    · simp
    · split
      · simp
      · have := ih (room - 1)
        simp only [List.length_cons]
        omega

theorem toy_sane : toyDecoder.Sane := by
  intro st input bl e
  unfold toyDecoder
  dsimp only
  cases e with
  | true => simp
  | false =>
    simp only [Bool.false_eq_true, if_false]
    refine ⟨toyScan_le input 4, by omega, fun h => by cases h⟩

end Fastgo.Reader
