/-
  The source of a Reader and the bufio.Reader in front of it (Go 1.23 bufio semantics, Appendix C of
  DESIGN.md). A source is a list of future Read results; when the list is exhausted the source blocks
  forever (this is what makes "the Reader does not wait for input it does not need" expressible).
-/
namespace Fastgo.Reader

inductive SErr | eof | fail (id : Nat)
  deriving DecidableEq, Repr

/-- one Read of the underlying source: some bytes and/or an error (never neither) -/
structure Chunk where
  bytes : List UInt8
  err   : Option SErr := none
  deriving Repr

structure Bufio where
  size  : Nat                  -- buffer size (at least 16)
  buf   : List UInt8 := []     -- buffered, unread bytes
  err   : Option SErr := none  -- error recorded by fill, not yet reported
  src   : List Chunk := []     -- what the source will answer next; [] = it blocks
  taken : Nat := 0             -- bytes consumed from the bufio.Reader so far (Discard / Read)
  deriving Repr

/-- all bytes that have come or will come out of the source, in order -/
def Bufio.stream (b : Bufio) : List UInt8 := b.buf ++ (b.src.map (·.bytes)).flatten

/-- one fill: one Read of the source into the free space. `none` = the source blocks. -/
def Bufio.fill (b : Bufio) : Option Bufio :=
  match b.src with
  | [] => none
  | c :: rest =>
    let free := b.size - b.buf.length
    if c.bytes.length ≤ free then
      some { b with buf := b.buf ++ c.bytes, src := rest, err := c.err }
    else
      some { b with buf := b.buf ++ c.bytes.take free, src := { c with bytes := c.bytes.drop free } :: rest }

inductive PeekRes
  | blocked
  | got (b : Bufio) (err : Option SErr) (bufferFull : Bool)   -- view = b.buf.take n when no error

/-- Peek(n): fill while fewer than n bytes are buffered, the buffer is not full and no error is pending;
    a pending error is returned (and cleared) only when fewer than n bytes are available -/
def Bufio.peek (n : Nat) : Nat → Bufio → PeekRes
  | 0, b => .got b none false          -- fuel exhausted: not reachable with fuel ≥ source length
  | fuel + 1, b =>
    if b.buf.length < n ∧ b.buf.length < b.size ∧ b.err = none then
      match b.fill with
      | none => .blocked
      | some b1 => Bufio.peek n fuel b1
    else if b.buf.length < n then
      match b.err with
      | some e => .got { b with err := none } (some e) false
      | none => .got b none true
    else .got b none false

/-- enough fuel for any Peek on this reader: every fill removes a chunk or moves bytes -/
def Bufio.fuel (b : Bufio) : Nat := (b.src.map (fun c => c.bytes.length + 1)).sum + 2

def Bufio.discard (b : Bufio) (k : Nat) : Bufio :=
  { b with buf := b.buf.drop k, taken := b.taken + min k b.buf.length }

end Fastgo.Reader
