import FastgoModel.Reader.Control
/-
  A decoder that replays the answers recorded from the real decoder (hook VerifRecordSteps), checking
  that the control model hands it the same amount of input at the same bit-buffer level as the code did.
-/
namespace Fastgo.Reader

structure DEv where
  inBefore   : Nat
  bitsBefore : Nat
  inAfter    : Nat
  bitsAfter  : Nat
  produced   : Nat
  status     : DStatus
  ended      : Bool
  deriving Repr

structure RDec where
  log : List DEv
  bad : Option String := none

def replayDecoder (log : List DEv) : Decoder RDec where
  init := { log := log }
  run := fun st input bl _ =>
    match st.log with
    | [] => { st := { st with bad := some s!"decoder run with {input.length} input bytes but the code ran it no more" },
              k := 0, bitsLen := bl, out := [], status := .invalid, ended := false }
    | e :: rest =>
      let bad := if e.inBefore = input.length ∧ e.bitsBefore = bl then st.bad
        else st.bad.orElse fun _ => some s!"decoder run with (input={input.length}, bits={bl}); the code ran it with (input={e.inBefore}, bits={e.bitsBefore})"
      { st := { log := rest, bad := bad }, k := e.inBefore - e.inAfter, bitsLen := e.bitsAfter,
        out := List.replicate e.produced 0, status := e.status, ended := e.ended }

end Fastgo.Reader
