import FastgoModel.Reader.Source
/-
  Control model of compress/flate/reader.go (decompressor.Read / step / Reset) over the bufio model.
  The decoder proper (inflate.go, header.go, huffcode.go, decode.go, the AVX2 loop) is a parameter: an
  arbitrary resumable function that is handed the unconsumed part of the peeked window and the bit-buffer
  level, and answers how many bytes it took, the new bit-buffer level, the bytes it produced and how it
  stopped. Field correspondence:

    decompressor.rBuf                      ↔ RState.bio
    state.input (nil / len)                ↔ RState.input (none / some len)
    peekSize, state.bitsLen, eof, err      ↔ peekSize, bitsLen, eof, err
    historyBuffer[readPos:writePos]        ↔ pending
    state.phase == phaseStreamEnd / Finish ↔ ended / finished
    everything else in `inflate`           ↔ dec (the decoder's own state)
  `fed` and `gone` are ghost fields (bytes the decoder has taken / bytes discarded from the bufio.Reader).
-/
namespace Fastgo.Reader

inductive RE | eof | unexpectedEOF | corrupt | src (e : SErr)
  deriving DecidableEq, Repr

inductive DStatus | needInput | outFull | done | invalid
  deriving DecidableEq, Repr

structure DecOut (δ : Type) where
  st      : δ
  k       : Nat           -- bytes taken from the input slice
  bitsLen : Nat           -- bit-buffer level afterwards
  out     : List UInt8    -- bytes produced by this run
  status  : DStatus       -- errEndInput | errOutputOverflow | nil | errInvalid*
  ended   : Bool          -- phase == phaseStreamEnd afterwards

structure Decoder (δ : Type) where
  init : δ
  /-- one run of `decomperss`: state, unconsumed input, bit-buffer level, "stream already ended" -/
  run  : δ → List UInt8 → Nat → Bool → DecOut δ

/-- the decoder takes no more than it is given, bits only come from bytes it took, and once the final block
    has been decoded a further run touches neither the input nor the bit buffer (decomperss's loop is skipped) -/
def Decoder.Sane {δ} (D : Decoder δ) : Prop :=
  ∀ st input bl e,
    (D.run st input bl e).k ≤ input.length ∧
    (D.run st input bl e).bitsLen ≤ bl + 8 * (D.run st input bl e).k ∧
    (e = true → (D.run st input bl e).k = 0 ∧ (D.run st input bl e).bitsLen = bl)

structure RState (δ : Type) where
  bio      : Bufio
  input    : Option Nat := none
  peekSize : Nat := 0
  bitsLen  : Nat := 0
  pending  : List UInt8 := []
  err      : Option RE := none
  eof      : Bool := false
  ended    : Bool := false
  finished : Bool := false
  dec      : δ
  fed      : List UInt8 := []    -- ghost
  gone     : List UInt8 := []    -- ghost

/-- NewReader: the Reader starts counting what it consumes from the bufio.Reader it is given -/
def RState.init {δ} (D : Decoder δ) (bio : Bufio) : RState δ := { bio := { bio with taken := 0 }, dec := D.init }

/-- decompressor.Reset: new source, cleared error/eof/peek state, pending output and history dropped,
    inflate state reset (after the repair of D6) -/
def RState.reset {δ} (D : Decoder δ) (_r : RState δ) (bio : Bufio) : RState δ :=
  { bio := { bio with taken := 0 }, input := none, peekSize := 0, bitsLen := 0, pending := [], err := none, eof := false,
    ended := false, finished := false, dec := D.init, fed := [], gone := [] }

def RState.inputLen {δ} (r : RState δ) : Nat := r.input.getD 0

/-- Discard(peekSize - len(input) - bitsLen/8) when positive -/
def RState.discardConsumed {δ} (r : RState δ) : RState δ :=
  let d := r.peekSize - r.inputLen - r.bitsLen / 8
  { r with bio := r.bio.discard d, gone := r.gone ++ r.bio.buf.take d }

inductive StepRes
  | err (e : Option RE)
  | blocked
  deriving DecidableEq, Repr

inductive Acq (δ : Type)
  | blocked
  | failed (r : RState δ) (e : RE)
  | ready (r : RState δ)

/-- input acquisition at the top of step(): only when no input slice is held and the stream has not ended -/
def acquire {δ} (r : RState δ) : Acq δ :=
  if r.input = none ∧ ¬ r.ended then
    match r.bio.peek (r.bitsLen / 8 + 1) r.bio.fuel with
    | .blocked => .blocked
    | .got b e _ =>
      match e with
      | some (.fail id) => .failed { r with bio := b } (.src (.fail id))
      | _ =>
        .ready { r with bio := b, eof := decide (e = some .eof), peekSize := b.buf.length,
                        input := some (b.buf.length - r.bitsLen / 8) }
  else .ready r

/-- the unconsumed part of the peeked window -/
def RState.inBytes {δ} (r : RState δ) : List UInt8 :=
  match r.input with
  | none => []
  | some n => (r.bio.buf.drop (r.peekSize - n)).take n

/-- one decoder run and the bookkeeping that follows it in step() -/
def afterDecode {δ} (D : Decoder δ) (r1 : RState δ) : RState δ × Option RE :=
  let o := D.run r1.dec r1.inBytes r1.bitsLen r1.ended
  let r2 : RState δ := { r1 with
    dec := o.st, pending := o.out, bitsLen := o.bitsLen, ended := o.ended,
    input := r1.input.map (· - o.k), fed := r1.fed ++ r1.inBytes.take o.k }
  if o.status = .invalid ∨ (o.status = .needInput ∧ r2.eof) then
    ({ r2.discardConsumed with input := none, peekSize := 0 },
     some (if o.status = .needInput then .unexpectedEOF else .corrupt))
  else
    let finishNow := r2.ended ∧ r2.pending = []
    let r3 : RState δ := if finishNow then { r2 with finished := true } else r2
    let e : Option RE := if finishNow then some .eof else none
    if r3.inputLen = 0 ∨ r3.finished then
      let r4 := r3.discardConsumed
      if o.status = .outFull ∧ ¬ r4.finished then
        ({ r4 with input := some 0, peekSize := r4.bitsLen / 8 }, e)
      else ({ r4 with input := none, peekSize := 0 }, e)
    else (r3, e)

def step {δ} (D : Decoder δ) (r : RState δ) : RState δ × StepRes :=
  if r.finished then (r, .err (some .eof))
  else
    match acquire r with
    | .blocked => (r, .blocked)
    | .failed r0 e => (r0, .err (some e))
    | .ready r1 =>
      let (r2, e) := afterDecode D r1
      (r2, .err e)

inductive ReadRes
  | data (bs : List UInt8) (err : Option RE)
  | blocked
  | outOfFuel
  deriving DecidableEq, Repr

/-- decompressor.Read with a destination buffer of `want` bytes -/
def read {δ} (D : Decoder δ) : Nat → RState δ → Nat → RState δ × ReadRes
  | 0, r, _ => (r, .outOfFuel)
  | fuel + 1, r, want =>
    if r.pending ≠ [] then
      let n := min want r.pending.length
      let r1 := { r with pending := r.pending.drop n }
      if r1.pending = [] then (r1, .data (r.pending.take n) r.err) else (r1, .data (r.pending.take n) none)
    else
      match r.err with
      | some e => (r, .data [] (some e))
      | none =>
        match step D r with
        | (r1, .blocked) => (r1, .blocked)
        | (r1, .err e) =>
          let r2 := { r1 with err := e }
          if e ≠ none ∧ r2.pending = [] then (r2, .data [] e)
          else read D fuel r2 want

end Fastgo.Reader
