import FastgoModel.Spec.Inflate
/-
  The executable check of the F correspondence: one complete session of the REAL Reader (any acceleration level, any
  source chunking, any Read sizes) is judged by the specification inflater directly — not through compress/flate.
  This is the leaf contract `Reader.Faithful` (Proofs/ReaderDelivery.lean) observed end to end: what was delivered is a
  prefix of what the specification decodes from the same bytes; io.EOF only for a complete stream, completely
  delivered, with the source left exactly behind the final block; a stream that is only cut is never called corrupt
  and a corrupt one is never called complete.
-/
namespace Fastgo.Reader
open Fastgo.Spec

inductive EndKind | eof | unexpectedEOF | corrupt
  deriving DecidableEq, Repr

def _root_.Fastgo.Spec.Result.out : Result → Array UInt8
  | .done o _ _ => o
  | .needMore o _ _ _ => o
  | .corrupt o _ _ => o

def _root_.Fastgo.Spec.Result.isDone : Result → Bool
  | .done .. => true
  | _ => false

def _root_.Fastgo.Spec.Result.isNeedMore : Result → Bool
  | .needMore .. => true
  | _ => false

/-- bytes of the source a Reader must have consumed after io.EOF: up to the end of the byte holding the last bit of
    the final block -/
def consumedAtEOF (src : List UInt8) (r : Result) : Nat :=
  match r with
  | .done _ rest _ => (8 * src.length - rest.length + 7) / 8
  | _ => 0

/-- `src`: everything the source holds (the stream and whatever follows it); `delivered`: the concatenation of what
    the Read calls returned; `k`: the final error; `consumed`: bytes taken from a `*bufio.Reader` source at that point;
    `cutOfValid`: the harness built `src` as a proper prefix of a valid stream (then CorruptInputError is wrong; for
    other inputs on which the sequential specification merely runs out of bits the Reader may already have seen that no
    continuation can be valid — e.g. a zero run that passes the declared count whatever its missing extra bits say —
    and both io.ErrUnexpectedEOF and CorruptInputError meet C03) -/
def checkFaithful (src delivered : List UInt8) (k : EndKind) (consumed : Nat) (cutOfValid : Bool := false) : Bool :=
  let p := inflate .permissive [] src
  let s := inflate .strict [] src
  delivered.isPrefixOf p.out.toList &&
  match k with
  | .eof => p.isDone && delivered.length == p.out.size && consumed == consumedAtEOF src p
  | .unexpectedEOF => !p.isDone
  | .corrupt => !s.isDone && !cutOfValid

theorem checkFaithful_prefix (src delivered : List UInt8) (k : EndKind) (consumed : Nat) (cut : Bool)
    (h : checkFaithful src delivered k consumed cut = true) :
    delivered <+: (inflate .permissive [] src).out.toList := by
  unfold checkFaithful at h
  simp only [Bool.and_eq_true] at h
  exact List.isPrefixOf_iff_prefix.mp h.1

/-- io.EOF passes the check only for a complete stream, completely delivered, source exactly behind the final block -/
theorem checkFaithful_eof (src delivered : List UInt8) (consumed : Nat) (cut : Bool)
    (h : checkFaithful src delivered .eof consumed cut = true) :
    ∃ out rest st, inflate .permissive [] src = .done out rest st ∧ delivered = out.toList ∧
      consumed = (8 * src.length - rest.length + 7) / 8 := by
  have hp := checkFaithful_prefix src delivered .eof consumed cut h
  unfold checkFaithful at h
  simp only [Bool.and_eq_true, beq_iff_eq] at h
  obtain ⟨_, ⟨hd, hl⟩, hc⟩ := h
  cases hr : inflate .permissive [] src with
  | needMore o r s a => rw [hr] at hd; cases hd
  | corrupt o r s => rw [hr] at hd; cases hd
  | done o r s =>
    rw [hr] at hl hc hp
    refine ⟨o, r, s, rfl, ?_, hc⟩
    simp only [Fastgo.Spec.Result.out] at hl hp
    obtain ⟨t, ht⟩ := hp
    have : t = [] := by
      have hlen := congrArg List.length ht
      simp only [List.length_append, Array.length_toList] at hlen
      exact List.eq_nil_of_length_eq_zero (by omega)
    rw [this, List.append_nil] at ht
    exact ht

/-- a stream the strict specification accepts is never called corrupt, nor is a cut valid stream -/
theorem checkFaithful_corrupt (src delivered : List UInt8) (consumed : Nat) (cut : Bool)
    (h : checkFaithful src delivered .corrupt consumed cut = true) :
    (inflate .strict [] src).isDone = false ∧ cut = false := by
  unfold checkFaithful at h
  simp only [Bool.and_eq_true, Bool.not_eq_true'] at h
  exact ⟨h.2.1, h.2.2⟩

end Fastgo.Reader
