import FastgoModel.Proofs.ReaderDelivery
import FastgoModel.Proofs.FaithfulInstance
import FastgoModel.Props.C10
import FastgoModel.Proofs.FrameUncond
import FastgoModel.Reader.FaithfulCheck
/-!
# C02 — the Reader decodes every valid stream exactly, whatever destination sizes Read is given

Model: the control flow of reader.go (`Reader.Control`: Read / step / input acquisition / discard accounting /
error bookkeeping) over the bufio model, for an ARBITRARY decoder proper (inflate.go, header.go, huffcode.go,
decode*.go/.s) that meets two leaf contracts:

* `Decoder.Sane`  — it takes no more than it is given (bookkeeping);
* `Faithful`      — relative to the specification inflater `Spec.inflate` (RFC 1951 transcription, validated
  against compress/flate by the `I` correspondence): what it has produced so far is a prefix of what the
  specification produces from the bytes it has taken, and it reports "stream ended" only when those bytes begin
  with a complete stream whose whole output it has produced.

Theorems (unbounded: any source chunking, any bufio size, any sequence of Read sizes including 0 and 1):

* `C02_delivery`      — everything Read has handed out, concatenated in call order, is a prefix of the
  specification output for the bytes the decoder has taken, and those bytes are a prefix of the source stream:
  no byte is lost, duplicated or reordered by the history-buffer hand-over between step() and Read;
* `C02_eof_complete`  — when a Read returns io.EOF, what has been handed out in total is EXACTLY the output
  of a complete stream (`inflate = done`), for any destination sizes.

`C02_partial`: not proved — (i) that the real decoder meets `Faithful` (its tables, loops and assembly; decided
per run by the oracle against compress/flate and the reference inflater, and by the `R` correspondence for the
control flow around it), (ii) progress: that a valid stream is decoded to the END (never a spurious error, never
a stall) — a property of the decoder proper; both are decided by the C02 oracle at every acceleration level.
-/
namespace Fastgo.Reader
open Fastgo.Spec
variable {δ : Type}

theorem fed_prefix (S : List UInt8) (r : RState δ) (hi : Inv S r) : r.fed <+: S := by
  have h1 := hi.fedPre
  have h2 := hi.total
  rw [h1, ← h2]
  unfold Bufio.stream
  rw [← List.append_assoc]
  exact (List.take_prefix _ _).trans (List.prefix_append _ _)

theorem C02_delivery (D : Decoder δ) (hs : D.Sane) {mode : Mode} (F : Faithful D mode) (bio : Bufio) (fuel : Nat)
    (ws : List Nat) :
    delivered (readMany D fuel (RState.init D bio) ws).2 <+:
      specOut (inflate mode [] (readMany D fuel (RState.init D bio) ws).1.fed) ∧
    (readMany D fuel (RState.init D bio) ws).1.fed <+: bio.stream := by
  have hd := readMany_deliv F fuel (RState.init D bio) ws [] (deliv_init F bio)
  have hi := reachable_inv D hs bio fuel ws
  obtain ⟨m, hm, hR⟩ := hd.made
  refine ⟨?_, fed_prefix _ _ hi⟩
  have hp := F.pre _ _ _ _ hR
  rw [← hm, List.nil_append] at hp
  exact (List.prefix_append _ _).trans hp

theorem C02_eof_complete (D : Decoder δ) {mode : Mode} (F : Faithful D mode) (fuel : Nat) (r : RState δ) (want : Nat)
    (given : List UInt8) (hd : Deliv F given r) (he : (read D fuel r want).2.err = some .eof) :
    ∃ rest s, inflate mode [] (read D fuel r want).1.fed =
      .done (given ++ (read D fuel r want).2.bytes).toArray rest s := by
  obtain ⟨hd', hfin⟩ := read_deliv F fuel r want given hd
  obtain ⟨hp, hf⟩ := hfin he
  obtain ⟨m, hm, hR⟩ := hd'.made
  rw [hp, List.append_nil] at hm
  subst hm
  have hend := hd'.finEnd hf
  rw [hend] at hR
  exact F.fin _ _ _ hR

/-- the same, from NewReader through any earlier Reads -/
theorem C02_eof_complete_from_start (D : Decoder δ) {mode : Mode} (F : Faithful D mode) (bio : Bufio) (fuel : Nat)
    (ws : List Nat) (want : Nat)
    (he : (read D fuel (readMany D fuel (RState.init D bio) ws).1 want).2.err = some .eof) :
    ∃ rest s, inflate mode [] (read D fuel (readMany D fuel (RState.init D bio) ws).1 want).1.fed =
      .done (delivered (readMany D fuel (RState.init D bio) ws).2 ++
        (read D fuel (readMany D fuel (RState.init D bio) ws).1 want).2.bytes).toArray rest s := by
  have hd := readMany_deliv F fuel (RState.init D bio) ws [] (deliv_init F bio)
  rw [List.nil_append] at hd
  exact C02_eof_complete D F fuel _ want _ hd he

/-! Non-vacuity: the Reader control model with the complete instance `batchDecoder` (Sane and Faithful), reading
    the DEFLATE stream that the Writer model with the sound leaves `fixLeaves` emitted for 17 bytes (Write 12,
    Flush, Write 5, Close) from a source that delivers it in chunks of 5, 1 and the rest, with destination sizes
    3, 1, 100, 100: the data comes out in pieces 3 + 1 + 13, then io.EOF. -/
def exStream : List UInt8 := (Writer.close Writer.fixLeaves Writer.toyCfg Writer.exShort.1).1.dst.bytes
def exBio : Bufio :=
  { size := 16, src := [{ bytes := exStream.take 5 }, { bytes := (exStream.drop 5).take 1 },
                         { bytes := exStream.drop 6, err := some .eof }] }

example :
    let r := readMany (batchDecoder .strict) 20 (RState.init (batchDecoder .strict) exBio) [3, 1, 100, 100]
    r.2 = [.data (Writer.exData.take 3) none, .data ((Writer.exData.drop 3).take 1) none,
           .data ((Writer.exData.drop 4).take 13) none, .data [] (some .eof)] := by
  decide +kernel

/-- **a checked session is complete**: when the source holds a valid stream (the specification decodes it to the end)
    followed by anything, a session of the REAL Reader that passes the F check `checkFaithful` with io.EOF has delivered
    exactly the stream's data, no more and no less — whatever the chunking, buffer size and Read sizes of that session were
    (they do not enter the check). -/
theorem C02_checked_session_complete (stream suffix delivered : List UInt8) (consumed : Nat) (cut : Bool)
    (out : Array UInt8) (rest : Spec.Bits) (st : Spec.Stats)
    (hs : Spec.inflate .permissive [] stream = .done out rest st) (hr : rest.length < 8)
    (hc : checkFaithful (stream ++ suffix) delivered .eof consumed cut = true) :
    delivered = out.toList := by
  obtain ⟨out', rest', st', h1, hd, _⟩ := checkFaithful_eof (stream ++ suffix) delivered consumed cut hc
  obtain ⟨st2, h2⟩ := Spec.inflate_prefix_stable .permissive stream suffix out rest st hs hr
  rw [h2] at h1
  simp only [Spec.Result.done.injEq] at h1
  rw [hd, ← h1.1]

end Fastgo.Reader

#print axioms Fastgo.Reader.C02_checked_session_complete
#print axioms Fastgo.Reader.C02_delivery
#print axioms Fastgo.Reader.C02_eof_complete
#print axioms Fastgo.Reader.C02_eof_complete_from_start
#print axioms Fastgo.Reader.batch_sane
#print axioms Fastgo.Reader.batchFaithful
