import FastgoModel.Gen.Facts
import FastgoModel.Writer.Control
/-!
# C17 — separate Writers and Readers do not interfere when used concurrently  (PARTIAL by nature)

What a Lean model can carry: instances are state machines over their OWN state; the only thing instances of
the library share is package-level state. So non-interference has two parts:

* `C17_product_noninterference` (theorem, any two machines): in the product of two independent state machines,
  whatever the interleaving of their operations, each component ends in the state — and produces the outputs — of
  its solo run. (The Writer and Reader models are such machines: `step` takes and returns the instance state only.)
* `C17_no_shared_mutable_state` (fact theorem, re-checked against /repo on every run): the REGENERATED list of
  package-level variables of the library contains only read-only tables, error values, scalars, function values
  and the acceleration level, all assigned at package initialisation; there is NO statement outside `init` that
  assigns, increments, takes the address of, slices or calls a method on a package-level variable, and no
  assembly instruction stores to a global symbol.

Not modelled (said plainly): the Go memory model and the assembly. Data-race freedom proper is corroborated by
the harness (the same workloads concurrently under GOMAXPROCS 1..16, also in a `-race` build), not proved.
-/
namespace Fastgo.Props

/-- a generic state machine -/
structure Machine (S O R : Type) where
  step : S → O → S × R

def Machine.run {S O R} (m : Machine S O R) (s : S) : List O → S × List R
  | [] => (s, [])
  | o :: os =>
    let (s1, r) := m.step s o
    let (s2, rs) := m.run s1 os
    (s2, r :: rs)

/-- run an interleaving of operations of two machines on the pair of their states -/
def runPair {S₁ O₁ R₁ S₂ O₂ R₂} (m₁ : Machine S₁ O₁ R₁) (m₂ : Machine S₂ O₂ R₂) (s₁ : S₁) (s₂ : S₂) :
    List (Sum O₁ O₂) → (S₁ × List R₁) × (S₂ × List R₂)
  | [] => ((s₁, []), (s₂, []))
  | .inl o :: rest =>
    let (s₁', r) := m₁.step s₁ o
    let ((t₁, rs₁), p₂) := runPair m₁ m₂ s₁' s₂ rest
    ((t₁, r :: rs₁), p₂)
  | .inr o :: rest =>
    let (s₂', r) := m₂.step s₂ o
    let (p₁, (t₂, rs₂)) := runPair m₁ m₂ s₁ s₂' rest
    (p₁, (t₂, r :: rs₂))

def lefts {α β} : List (Sum α β) → List α
  | [] => []
  | .inl a :: r => a :: lefts r
  | .inr _ :: r => lefts r

def rights {α β} : List (Sum α β) → List β
  | [] => []
  | .inl _ :: r => rights r
  | .inr b :: r => b :: rights r

theorem C17_product_noninterference {S₁ O₁ R₁ S₂ O₂ R₂} (m₁ : Machine S₁ O₁ R₁) (m₂ : Machine S₂ O₂ R₂)
    (s₁ : S₁) (s₂ : S₂) (ops : List (Sum O₁ O₂)) :
    runPair m₁ m₂ s₁ s₂ ops = (m₁.run s₁ (lefts ops), m₂.run s₂ (rights ops)) := by
  induction ops generalizing s₁ s₂ with
  | nil => rfl
  | cons o rest ih =>
    cases o with
    | inl a => simp [runPair, lefts, rights, Machine.run, ih]
    | inr b => simp [runPair, lefts, rights, Machine.run, ih]

/-- the Writer model is such a machine -/
def writerMachine {MF Tok} (L : Fastgo.Writer.DynLeaves MF Tok) (c : Fastgo.Writer.Cfg) :
    Machine (Fastgo.Writer.WState MF Tok) Fastgo.Writer.Op Fastgo.Writer.OpRes := ⟨Fastgo.Writer.step L c⟩

def allowedClass (c : String) : Bool :=
  c = "table" || c = "error" || c = "scalar" || c = "func" || c = "call:cpuArchLevel" ||
  c = "alias:flate.NewReaderDict" || c = "alias:binary.LittleEndian"

theorem C17_no_shared_mutable_state :
    Fastgo.Gen.globalWrites = [] ∧ Fastgo.Gen.asmGlobalStores = [] ∧
    (Fastgo.Gen.globals.all fun g => allowedClass g.2.2.1) = true := by
  decide

/-- non-vacuity: the fact list is not empty and contains the tables the property names -/
example : Fastgo.Gen.globals.length ≥ 10 ∧
    (Fastgo.Gen.globals.any fun g => g.2.1 = "staticLitHuffCode") = true ∧
    (Fastgo.Gen.globals.any fun g => g.2.1 = "ArchLevel") = true := by decide

end Fastgo.Props

#print axioms Fastgo.Props.C17_product_noninterference
#print axioms Fastgo.Props.C17_no_shared_mutable_state
