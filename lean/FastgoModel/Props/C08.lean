import FastgoModel.Container.Members
import FastgoModel.Proofs.FrameUncond
/-!
# C08 — concatenated gzip members read as one stream, or member by member

`readOneMember` is NewReader/Reset (parse a header) followed by reading to io.EOF with Multistream(false);
`readAllMembers` is the default mode's loop (after a verified trailer: next header, clean end of source =
io.EOF). The inflater is a parameter with the contract `Exact body payload` — it decodes the member's DEFLATE
stream and leaves the buffered source exactly after it (C02 + C05; validated per run). By induction on the
member list:

* `C08_multistream`      : k ≥ 1 members back to back read as the concatenation of their payloads, then io.EOF;
* `C08_member_by_member` : k rounds of Multistream(false)+Reset return each member's header and payload in
  order and leave whatever follows the last member unread.

Headers range over every representable header (`GzHeader.WF`), payloads and bodies over all byte strings.
-/
namespace Fastgo.Container
open Fastgo.Spec

structure Member where
  h       : GzHeader
  level   : Int
  body    : List UInt8
  payload : List UInt8

def Member.bytes (m : Member) : List UInt8 := gzMember m.h m.level m.body m.payload

def fileOf (ms : List Member) : List UInt8 := (ms.map Member.bytes).flatten

def Member.OK (I : Inflater) (m : Member) : Prop := m.h.WF ∧ I.Exact m.body m.payload

theorem member_bytes_ne (m : Member) : m.bytes ≠ [] := by
  simp [Member.bytes, gzMember, emitHeader, fixedPart]

theorem fileOf_eq_nil (ms : List Member) : fileOf ms = [] ↔ ms = [] := by
  cases ms with
  | nil => simp [fileOf]
  | cons m r => simp [fileOf, member_bytes_ne m]

theorem C08_multistream (I : Inflater) (ms : List Member) (hne : ms ≠ []) (hall : ∀ m ∈ ms, m.OK I) :
    readAllMembers I ms.length (fileOf ms) = some ((ms.map (·.payload)).flatten) := by
  induction ms with
  | nil => exact absurd rfl hne
  | cons m rest ih =>
    have hm := hall m List.mem_cons_self
    have hf : fileOf (m :: rest) = gzMember m.h m.level m.body m.payload ++ fileOf rest := by
      simp [fileOf, Member.bytes]
    rw [hf, List.length_cons, readAllMembers, readOneMember_member I m.h hm.1 m.level m.body m.payload (fileOf rest) hm.2]
    simp only
    by_cases hr : rest = []
    · subst hr; simp [fileOf]
    · have hfr : fileOf rest ≠ [] := fun h => hr ((fileOf_eq_nil rest).mp h)
      simp only [hfr, if_false]
      rw [ih hr (fun x hx => hall x (List.mem_cons_of_mem _ hx))]
      simp

/-- k rounds of (Reset; Multistream(false); read to io.EOF) -/
def readRounds (I : Inflater) : Nat → List UInt8 → Option (List (GzHeader × List UInt8) × List UInt8)
  | 0, src => some ([], src)
  | k + 1, src =>
    match readOneMember I src with
    | none => none
    | some (h, payload, r) =>
      match readRounds I k r with
      | none => none
      | some (l, r2) => some ((h, payload) :: l, r2)

theorem C08_member_by_member (I : Inflater) (ms : List Member) (hall : ∀ m ∈ ms, m.OK I) (trailing : List UInt8) :
    readRounds I ms.length (fileOf ms ++ trailing) = some (ms.map (fun m => (m.h, m.payload)), trailing) := by
  induction ms with
  | nil => simp [readRounds, fileOf]
  | cons m rest ih =>
    have hm := hall m List.mem_cons_self
    have hf : fileOf (m :: rest) ++ trailing = gzMember m.h m.level m.body m.payload ++ (fileOf rest ++ trailing) := by
      simp [fileOf, Member.bytes]
    rw [hf, List.length_cons, readRounds, readOneMember_member I m.h hm.1 m.level m.body m.payload _ hm.2]
    simp only
    rw [ih (fun x hx => hall x (List.mem_cons_of_mem _ hx))]
    simp

/-! Non-vacuity: an inflater that reads stored-style "bodies" (1 length byte + bytes), two members (one with an
    empty payload, one with name and extra field), trailing data. -/
def toyInflater : Inflater := fun src =>
  match src with
  | [] => none
  | n :: r => if r.length < n.toNat then none else some (r.take n.toNat, r.drop n.toNat)

theorem toy_exact (p : List UInt8) (hp : p.length < 256) : toyInflater.Exact (UInt8.ofNat p.length :: p) p := by
  intro rest
  have hn : (UInt8.ofNat p.length).toNat = p.length := by simp [UInt8.toNat_ofNat']; omega
  simp [toyInflater, hn]

example : (⟨{ name := [97, 98], extra := some [1, 2, 3], mtime := 77 }, 1, [3, 10, 20, 30], [10, 20, 30]⟩ : Member).OK toyInflater :=
  ⟨by simp [GzHeader.WF], toy_exact [10, 20, 30] (by decide)⟩

example : (⟨{}, 6, [0], []⟩ : Member).OK toyInflater := ⟨by simp [GzHeader.WF], toy_exact [] (by decide)⟩

/-! ### no inflater hypothesis: the specification inflater
  `Member.SpecOK`: well-formed header, and the body is a byte string the specification inflater decodes to the end to the
  payload. `specInflater_exact_of_done` (from `inflate_prefix_stable`, the unconditional frame theorem) shows such a member
  is `OK` for the specification inflater, so both member-sequence theorems hold with NO assumption about the inflater. -/
def Member.SpecOK (mode : Mode) (m : Member) : Prop :=
  m.h.WF ∧ ∃ rest st, inflate mode [] m.body = .done m.payload.toArray rest st ∧ rest.length < 8

theorem Member.SpecOK.ok {mode : Mode} {m : Member} (h : m.SpecOK mode) : m.OK (specInflater mode) := by
  obtain ⟨hw, rest, st, hd, hr⟩ := h
  have := specInflater_exact_of_done mode m.body m.payload.toArray rest st hd hr
  exact ⟨hw, by simpa using this⟩

theorem C08_multistream_spec (mode : Mode) (ms : List Member) (hne : ms ≠ []) (hall : ∀ m ∈ ms, m.SpecOK mode) :
    readAllMembers (specInflater mode) ms.length (fileOf ms) = some ((ms.map (·.payload)).flatten) :=
  C08_multistream (specInflater mode) ms hne (fun m hm => (hall m hm).ok)

end Fastgo.Container

#print axioms Fastgo.Container.C08_multistream
#print axioms Fastgo.Container.C08_multistream_spec
#print axioms Fastgo.Container.C08_member_by_member
