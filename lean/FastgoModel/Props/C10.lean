import FastgoModel.Proofs.WriterStream
import FastgoModel.Proofs.SoundInstance
import FastgoModel.Writer.Example
import FastgoModel.Proofs.HuffInstance
import FastgoModel.Proofs.WriterWrap
/-!
# C10 — after Flush, all data written so far decodes from the bytes emitted so far

Model: the control flow of writer.go / dynamic.go / bitbuf.go (`Writer.Control`), for ARBITRARY leaf algorithms
(match finder, block encoder) that satisfy the leaf contracts `Sound`:

* `Sound.gen` — the tokens a match-finder call appends stand for exactly the bytes it consumed
  (`resolve history new = buffer[idx, nIdx)`), it never moves backwards and a flush call consumes everything;
* `Sound.enc` — one encoded block, whatever follows it, makes the SPECIFICATION inflater (`Spec.inflateBlock`,
  the Lean transcription of RFC 1951 validated against compress/flate by the `I` correspondence) append exactly
  the bytes the tokens stand for; the encoder hands out `carry ++ block` split into whole bytes + a new carry.

`C10_flush_point` (unbounded: any data, any sequence of Write / Flush / Reset-onto-a-fresh-destination calls, any
buffer roll-over or window slide on the way): when Flush is called on a Writer all of whose calls so far
returned nil, it returns nil, no bit is held back (the output ends on a byte boundary), and the specification
inflater, fed only the bytes the destination holds, reproduces exactly all the data accepted since the
stream began and then asks for more input at a block boundary — never "corrupt".
`C10_stream_stays_valid`: the state after that Flush again satisfies the invariant every later Write, Flush and
Close theorem starts from (so later flush points and the final Close — C01 — decode the whole data).

`C10_flush_point_huff`: the same for the Huffman-only compressor (level -2; control model `Writer/HuffControl.lean`
of huffmanonly.go under writer.go's Write loop, tied by the `H` correspondence), under the block encoder's
contract `HSound` (one block that the specification inflater decodes to the buffered bytes).

`C10_flush_point_zlib`, `C10_flush_point_gzip`: the same for the container Writers. The control models of
compress/zlib/writer.go and compress/gzip/gzip.go (`Container/WriterWrap.lean`: header written lazily by whichever
call comes first, sticky error, closed flag, running checksum, trailer; tied by the `ZW` / `GW` correspondences,
which also compare the header and trailer bytes) sit on top of ANY inner Writer that meets the stream contract
`InnerStream` — `dynStream` and `huffStream` prove that the dynamic and the Huffman-only Writer models meet it
(under `Sound` / `HSound`). After a successful Flush the destination holds exactly the container header followed by
DEFLATE bytes that the specification inflater decodes to all the data written so far, asking for more at a block
boundary.

Not covered by these theorems (decided by the oracle of the Go harness at every acceleration level, see
evidence): that lz77*.go/.s, encode*.go/.s and huffmanonly*.go/.s meet `Sound` / `HSound` (the theorems assume
it; `fixSound` / `fixHSound` show the contracts satisfiable by complete executable instances; `G` checks every
recorded match-finder call), the levels delegated to compress/flate, preset dictionaries (delegated; F-C01-1) and the Latin-1 / time
conversions of the gzip header.
-/
namespace Fastgo.Writer
open Fastgo.Spec
variable {MF Tok : Type}

theorem C10_flush_point (L : DynLeaves MF Tok) {mode : Mode} (S : Sound L mode) (c : Cfg) (hw : 0 < c.window)
    (dst : Dst) (hh : dst.Healthy) (hd : dst.got = []) (ops : List Op) (hops : ∀ op ∈ ops, op.keepsOpen)
    (hok : ∀ r ∈ (run L c (WState.init L dst) ops).2, r.err = none) :
    (flush L c (run L c (WState.init L dst) ops).1).2.err = none ∧
    (flush L c (run L c (WState.init L dst) ops).1).1.dyn.carry = [] ∧
    ∃ st, inflate mode [] (flush L c (run L c (WState.init L dst) ops).1).1.dst.bytes =
      .needMore (dataAfterAll [] ops (run L c (WState.init L dst) ops).2).toArray [] st true := by
  have ht := run_tracks L S c hw ops [] (WState.init L dst) (tracks_init L S dst hh hd) hops hok
  obtain ⟨f1, _, _, f4, n, hch⟩ := flush_tracks L S c _ _ ht.1 ht.2
  obtain ⟨st, hinf⟩ := inflate_of_chain _ hch
  exact ⟨f1, f4, st, hinf⟩

theorem C10_stream_stays_valid (L : DynLeaves MF Tok) {mode : Mode} (S : Sound L mode) (c : Cfg) {base : Nat}
    {H : List UInt8} (D : List UInt8) (w : WState MF Tok) (ht : Tracks L S base H D w) :
    Tracks L S base H D (flush L c w).1 := by
  obtain ⟨_, f2, f3, _⟩ := flush_tracks L S c D w ht.1 ht.2
  exact ⟨f2, f3⟩

theorem C10_flush_point_huff {σ : Type} (L : HuffLeaf σ) {mode : Mode} (S : HSound L mode) (max : Nat)
    (dst : Dst) (hh : dst.Healthy) (hd : dst.got = []) (ops : List Op) (hops : ∀ op ∈ ops, op.keepsOpen)
    (hok : ∀ r ∈ (hRun L max (HState.init L dst) ops).2, r.err = none) :
    (hFlush L (hRun L max (HState.init L dst) ops).1).2.err = none ∧
    (hFlush L (hRun L max (HState.init L dst) ops).1).1.huff.carry = [] ∧
    ∃ st, inflate mode [] (hFlush L (hRun L max (HState.init L dst) ops).1).1.dst.bytes =
      .needMore (dataAfterAll [] ops (hRun L max (HState.init L dst) ops).2).toArray [] st true := by
  have ht := hRun_tracks L S max ops [] (HState.init L dst) ⟨rfl, hinv_init mode L.init dst hh hd⟩ hops hok
  obtain ⟨f1, _, f3, n, hch⟩ := hFlush_tracks L S _ _ ht
  obtain ⟨st, hinf⟩ := inflate_of_chain _ hch
  exact ⟨f1, f3, st, hinf⟩

open Fastgo.Container Fastgo.CWriter in
theorem C10_flush_point_zlib {ι : Type} (O : InnerOps ι) {mode : Mode} (C : InnerStream O mode) (i : ι) (level : Int)
    (hf : C.Fresh i) (hh : (O.dst i).Healthy) (hg : (O.dst i).got = []) (ops : List Op)
    (ha : allAccepted ops (zRun O (ZW.init i level) ops).2) :
    (zFlush O (zRun O (ZW.init i level) ops).1).2.err = none ∧
    ∃ bodyBytes st, (O.dst (zFlush O (zRun O (ZW.init i level) ops).1).1.inner).bytes = emitZHeader level none ++ bodyBytes ∧
      inflate mode [] bodyBytes = .needMore (dataOf [] ops).toArray [] st true :=
  zlib_flush_point O C i level hf hh hg ops ha

open Fastgo.Container Fastgo.CWriter in
theorem C10_flush_point_gzip {ι : Type} (O : InnerOps ι) {mode : Mode} (C : InnerStream O mode) (i : ι) (level : Int)
    (h : GzHeader) (hf : C.Fresh i) (hh : (O.dst i).Healthy) (hg : (O.dst i).got = []) (ops : List Op)
    (ha : allAccepted ops (gRun O (GW.init i level h) ops).2) :
    (gFlush O (gRun O (GW.init i level h) ops).1).2.err = none ∧
    ∃ bodyBytes st, (O.dst (gFlush O (gRun O (GW.init i level h) ops).1).1.inner).bytes =
        emitHeader (hdrOf h ops) level ++ bodyBytes ∧
      inflate mode [] bodyBytes = .needMore (dataOf [] ops).toArray [] st true :=
  gzip_flush_point O C i level h hf hh hg ops ha

/-- every flush point of a longer history: the prefix of operations up to any Flush satisfies `C10_flush_point`,
    because `run` of a prefix is a prefix of the run (operations are executed left to right) -/
theorem run_append (L : DynLeaves MF Tok) (c : Cfg) (w : WState MF Tok) (a b : List Op) :
    run L c w (a ++ b) = ((run L c (run L c w a).1 b).1, (run L c w a).2 ++ (run L c (run L c w a).1 b).2) := by
  induction a generalizing w with
  | nil => simp [run]
  | cons op a ih => simp [run, ih]

/-! Non-vacuity: the complete sound instance `fixLeaves` (literal tokens, fixed-Huffman blocks, window 8, buffer
    274 bytes, at most 12 tokens per block), 300 bytes written as 290 + Flush + 10: the hypotheses hold (every call
    returns nil, the buffer filled up and slid on the way), and — computed independently of the theorem — the
    specification inflater run on the bytes emitted after the final Flush returns `needMore` at a block
    boundary with exactly the 300 bytes. -/
def exData : List UInt8 := (List.range 300).map fun i => UInt8.ofNat (i * 7 % 251)
def exOps : List Op := [.write (exData.take 290), .flush, .write (exData.drop 290)]

example : (∀ op ∈ exOps, op.keepsOpen) := by
  intro op h
  simp only [exOps, List.mem_cons, List.mem_nil_iff, or_false] at h
  rcases h with h | h | h <;> subst h <;> trivial

def isNeedMoreWith (r : Result) (D : List UInt8) : Bool :=
  match r with
  | .needMore out [] _ true => out.toList == D
  | _ => false

def exRun := run fixLeaves toyCfg (WState.init fixLeaves healthy) exOps

example :
    exRun.2 = [{ n := 290 }, {}, { n := 10 }] ∧ exRun.1.dst.calls = 3 ∧ dataAfterAll [] exOps exRun.2 = exData := by
  decide +kernel

/-- the conclusion, computed independently of the theorem on a shorter run (Write 12, Flush, Write 5, Flush) -/
def exShort := run fixLeaves toyCfg (WState.init fixLeaves healthy) [.write (exData.take 12), .flush, .write ((exData.drop 12).take 5)]

example :
    isNeedMoreWith (inflate .strict [] (flush fixLeaves toyCfg exShort.1).1.dst.bytes) (exData.take 17) = true := by
  decide +kernel

/-- Huffman-only model (buffer of 16 bytes for the example), sound instance `fixHuff`: Write 12, Flush, Write 25 (fills the
    buffer once), then Flush: every call returns nil and the specification inflater reproduces the 37 bytes -/
def exHuff := hRun fixHuff 16 (HState.init fixHuff healthy) [.write (exData.take 12), .flush, .write ((exData.drop 12).take 25)]

example :
    exHuff.2 = [{ n := 12 }, {}, { n := 25 }] ∧ exHuff.1.dst.calls = 3 ∧ exHuff.1.huff.buf.length = 9 ∧
    isNeedMoreWith (inflate .strict [] (hFlush fixHuff exHuff.1).1.dst.bytes) (exData.take 37) = true := by
  decide +kernel

/-- zlib Writer model over the dynamic Writer model with the sound leaves `fixLeaves` (level 1, window 8): Flush first
    (writes the header), Write 12, Flush: all calls accepted; the destination holds 78 01 + a DEFLATE prefix that
    the specification inflater decodes to the 12 bytes -/
def exZ := Fastgo.CWriter.zRun (Fastgo.CWriter.dynOps fixLeaves toyCfg)
  (Fastgo.CWriter.ZW.init (WState.init fixLeaves healthy) 1) [.flush, .write (exData.take 12)]

example :
    exZ.2 = [{}, { n := 12 }] ∧
    ((Fastgo.CWriter.zFlush (Fastgo.CWriter.dynOps fixLeaves toyCfg) exZ.1).1.inner.dst.bytes.take 2 = [0x78, 0x01]) ∧
    isNeedMoreWith (inflate .strict [] ((Fastgo.CWriter.zFlush (Fastgo.CWriter.dynOps fixLeaves toyCfg) exZ.1).1.inner.dst.bytes.drop 2))
      (exData.take 12) = true := by
  decide +kernel

end Fastgo.Writer

#print axioms Fastgo.Writer.C10_flush_point
#print axioms Fastgo.Writer.C10_stream_stays_valid
#print axioms Fastgo.Writer.fixSound
#print axioms Fastgo.Writer.C10_flush_point_huff
#print axioms Fastgo.Writer.fixHSound
#print axioms Fastgo.Writer.C10_flush_point_zlib
#print axioms Fastgo.Writer.C10_flush_point_gzip
#print axioms Fastgo.CWriter.dynStream
#print axioms Fastgo.CWriter.huffStream
