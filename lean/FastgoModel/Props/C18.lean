import FastgoModel.Gen.Facts
import FastgoModel.Reader.Control
/-!
# C18 — results do not depend on which CPU acceleration level is selected

The models take NO level parameter: the Reader control model (`Reader/Control.lean`) and the container models
are level-free, and every Writer theorem quantifies over ALL leaf algorithms (match finder, block encoder).
Level-independence of the code is therefore the conjunction of

* `C18_dispatch_shape` (fact theorem): the regenerated list of `cpu.ArchLevel` dispatch sites is exactly the
  modelled one — the decode loop is entered at level ≥ 3 only (`< 3` falls back to the Go loop), the token
  encoder is chosen once in `init` (3 → AVX2, 4 → AVX-512, otherwise Go), the Huffman-only byte encoder only
  at level 4, the assembly match finders at level ≥ 1; a new or altered site breaks this theorem;
* `C18_layout_ok` (fact theorem): every displacement the assembly applies to the decoder-state register
  (R9 in decode_amd64.s) is the gc/amd64 offset of a field of `inflate` (slice header words, bit buffer, the four
  overflow fields, the three lookup tables), the token/byte encoders address `BitBuf` at idx/bits/bitLen and the
  histogram's literal codes at 124;
* the per-level leaf contracts (assembly decode loop ⊑ Go loop, assembly encoders = Go encoder, assembly match
  finders sound) — ASSUMPTIONS validated on every run: every Reader case is executed in separate processes at each
  level the host can run and the per-case outcomes (length, hash, error kind) are compared pairwise and with the
  reference inflater; every Writer property is checked at each level.
-/
namespace Fastgo.Props
open Fastgo.Gen

def expectedArchSites : List (String × String × String) := [
  ("./check.go", "Optimized", ">0"),
  ("compress/flate/decode_amd64.go", "decodeHuffman", "<3"),
  ("compress/flate/internal/deflate/encode_amd64.go", "init", "switch:3,4,default"),
  ("compress/flate/internal/deflate/encode_amd64.go", "optimizedEncodeTokens", ">0"),
  ("compress/flate/internal/deflate/huffmanonly_amd64.go", "init", "switch:4"),
  ("compress/flate/internal/deflate/level_amd64.go", "*level1context.generate", "<1"),
  ("compress/flate/internal/deflate/level_amd64.go", "*level2context.generate", "<1")
]

theorem C18_dispatch_shape : archSites = expectedArchSites := by decide

def offsetOf (st field : String) : Option String :=
  (layouts.find? fun l => l.1 = st ∧ l.2.1 = field).map (·.2.2.1)

/-- offsets of `inflate` the decode loop may address: slice header (0/8/16), scalar fields, table bases -/
def inflateAddressable : List String :=
  ["0", "8", "16"] ++
  (["bits", "bitsLen", "writeOverflowLits", "writeOverflowLen", "copyOverflowLength", "copyOverflowDistance",
    "litLenTable", "distTable"].filterMap fun f => offsetOf "compress/flate.inflate" f) ++
  ["16436"]   -- litLenTable (52) + largeHuffCodeTable.longCodeLookup (16384), checked below

theorem C18_layout_ok :
    -- the long-code table of the literal/length code sits where the assembly expects it
    offsetOf "compress/flate.inflate" "litLenTable" = some "52" ∧
    offsetOf "compress/flate.largeHuffCodeTable" "longCodeLookup" = some "16384" ∧
    offsetOf "compress/flate.inflate" "distTable" = some "18964" ∧
    -- every R9 displacement of the decode loop is an addressable offset of `inflate`
    ((asmDisps.filter fun d => d.1 = "decode_amd64.s" ∧ d.2.1 = "R9").all fun d => inflateAddressable.contains d.2.2) = true ∧
    -- the encoders: BitBuf.idx/bits/bitLen through CX, histogram.literalCodes through AX
    offsetOf "compress/flate/internal/deflate.BitBuf" "idx" = some "24" ∧
    offsetOf "compress/flate/internal/deflate.BitBuf" "bits" = some "32" ∧
    offsetOf "compress/flate/internal/deflate.BitBuf" "bitLen" = some "40" ∧
    offsetOf "compress/flate/internal/deflate.histogram" "literalCodes" = some "124" ∧
    ((asmDisps.filter fun d => d.2.1 = "CX" ∧ d.1 ≠ "decode_amd64.s").all fun d => ["8", "24", "32", "40"].contains d.2.2) = true := by
  decide

/-- non-vacuity: the decode loop does address the state through R9, at all the offsets the property lists -/
example : (["24", "32", "36", "52", "16436", "18964"].all fun o =>
    asmDisps.any fun d => d.1 = "decode_amd64.s" ∧ d.2.1 = "R9" ∧ d.2.2 = o) = true := by decide

end Fastgo.Props

#print axioms Fastgo.Props.C18_dispatch_shape
#print axioms Fastgo.Props.C18_layout_ok
