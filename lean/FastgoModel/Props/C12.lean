import FastgoModel.Proofs.WriterControl
import FastgoModel.Writer.Example
import FastgoModel.Gen.Facts
/-!
# C12 — Writer.Reset makes a used Writer indistinguishable from a new one

`reset` is modelled field by field as writer.go / dynamic.go assign them (err, destination, processed,
idx, end, tokens, bit buffer, match-finder state through `lz77.reset()`). Under the leaf contract
`mfReset m = mfInit` (the hash table and the histogram are zeroed — tied to the code by the regenerated
fact `Gen.reset_*` and by the fresh-versus-reset byte comparison of the harness):

* `C12_reset_state` : for EVERY state `w` (hence every reachable one, whatever history led to it — unflushed
  data, Flush, Close, a failed destination) `reset w dst` IS the initial state on `dst`;
* `C12_reset_fresh` : therefore every later history gives identical results and identical emitted bytes.

Buffer contents beyond `end`, the 8 KiB output scratch, the header scratch and the code-length generators
are not part of the model state: they are dead scratch (never read before written, Appendix B of DESIGN.md).
-/
namespace Fastgo.Writer
variable {MF Tok : Type}

theorem C12_reset_state (L : DynLeaves MF Tok) (hreset : ∀ m, L.mfReset m = L.mfInit)
    (w : WState MF Tok) (dst : Dst) : reset L w dst = WState.init L dst :=
  reset_eq_init L hreset w dst

theorem C12_reset_fresh (L : DynLeaves MF Tok) (c : Cfg) (hreset : ∀ m, L.mfReset m = L.mfInit)
    (w : WState MF Tok) (dst : Dst) (h2 : List Op) :
    run L c (reset L w dst) h2 = run L c (WState.init L dst) h2 := by
  rw [C12_reset_state L hreset w dst]

/-- the same, phrased over whole histories: h1, Reset, h2 versus h2 on a new Writer -/
theorem C12_history (L : DynLeaves MF Tok) (c : Cfg) (hreset : ∀ m, L.mfReset m = L.mfInit)
    (dst0 dst : Dst) (h1 h2 : List Op) :
    run L c (reset L (run L c (WState.init L dst0) h1).1 dst) h2 = run L c (WState.init L dst) h2 :=
  C12_reset_fresh L c hreset _ dst h2

/-! ### the tie of the Reset model to the code: regenerated facts

`Gen.resetAssigns` lists, for every Reset/reset method of the working tree, the receiver fields it assigns and
the nested resets it calls. The model's `reset` clears err, destination, processed, idx, end (= buf), tokens,
the bit buffer and the match-finder state: the code must assign (at least) the same. -/

def assignedBy (pkg fn : String) : List String :=
  ((Fastgo.Gen.resetAssigns.find? fun r => r.1 = pkg ∧ r.2.1 = fn).map (·.2.2)).getD []

theorem C12_reset_fields_complete :
    (["err"].all (assignedBy "compress/flate/internal/deflate" "*Writer.Reset").contains) = true ∧
    (["w", "processed", "idx", "end", "tokens", "buf.reset()", "lz77.reset()"].all
      (assignedBy "compress/flate/internal/deflate" "*dynCompressor.Reset").contains) = true ∧
    (["idx", "bits", "bitLen"].all (assignedBy "compress/flate/internal/deflate" "*BitBuf.reset").contains) = true ∧
    (["table[]", "hist.reset()"].all (assignedBy "compress/flate/internal/deflate" "*level1context.reset").contains) = true ∧
    (["table[]", "hist.reset()"].all (assignedBy "compress/flate/internal/deflate" "*level2context.reset").contains) = true ∧
    (["w", "offset", "buf.reset()"].all (assignedBy "compress/flate/internal/deflate" "*huffmanOnly.Reset").contains) = true ∧
    (["w", "err", "wroteHeader", "closed", "scratch", "digest.Reset()", "compressor.Reset()"].all
      (assignedBy "compress/zlib" "*Writer.Reset").contains) = true := by
  decide

/-! Non-vacuity: the toy leaves satisfy the contract; a history that leaves data pending and a failed
    destination behind, then Reset, then a new stream. -/
example : ∀ m, toyLeaves.mfReset m = toyLeaves.mfInit := fun _ => rfl

example :
    let h1 := [Op.write (List.replicate 40 3), Op.flush, Op.write [5, 5, 5]]
    let h2 := [Op.write [1, 2, 3], Op.close]
    let w1 := (run toyLeaves toyCfg (WState.init toyLeaves (failAt 2)) h1).1
    (w1.dyn.buf ≠ [] ∧ w1.err = some .injected) ∧
    (run toyLeaves toyCfg (reset toyLeaves w1 healthy) h2).1.dst.bytes =
      (run toyLeaves toyCfg (WState.init toyLeaves healthy) h2).1.dst.bytes := by
  decide

end Fastgo.Writer

#print axioms Fastgo.Writer.C12_reset_state
#print axioms Fastgo.Writer.C12_reset_fresh
#print axioms Fastgo.Writer.C12_history
#print axioms Fastgo.Writer.C12_reset_fields_complete
