import FastgoModel.Proofs.ReaderProps
import FastgoModel.Reader.Example
/-!
# C11 — the Reader delivers what it already has: no waiting on input it does not need

In the source model a source that has run out of scheduled answers BLOCKS FOREVER, so "Read does not return"
is a value (`ReadRes.blocked`) and the property is a theorem about it. For an arbitrary `Sane` decoder, every
bufio size, every chunking and every read history:

* `C11_blocks_only_when_starved` : if a Read blocks, then — no output is pending, the input slice is fully
  consumed (nil), the final block has NOT been decoded, the decoder did not stop for lack of output space, and
  `fed = S`: EVERY byte the source has ever delivered has already been handed to the decoder. So the Reader
  never waits for input while it still holds undelivered output, undecoded input, or bits that only lacked
  output space; and after the final block it does not go back to the source at all.
* `C11_error_after_data` : a source error is reported only when all bytes delivered before it have been handed
  to the decoder (`|fed| = |gone| + |buffered|`) — it never pre-empts data that arrived earlier.

What the decoder makes of the bytes it has been handed (all symbols before a sync-flush point are decodable
without look-ahead beyond the empty stored block) is the decoder contract, validated per run by the gated-source
oracle (source blocks / fails / delivers garbage after a flush point or the stream end). gzip/zlib add header and
trailer reads from the same bufio.Reader; in multistream mode gzip legitimately looks for a next member.
-/
namespace Fastgo.Reader
variable {δ : Type}

theorem C11_blocks_only_when_starved (D : Decoder δ) (hs : D.Sane) (S : List UInt8) (fuel : Nat)
    (r r' : RState δ) (want : Nat) (hi : Inv S r) (h : read D fuel r want = (r', .blocked)) :
    r'.pending = [] ∧ r'.input = none ∧ r'.ended = false ∧ r'.finished = false ∧ r'.fed = S :=
  read_blocked D hs S fuel r r' want hi h

theorem C11_no_source_access_after_end (D : Decoder δ) (S : List UInt8) (r r' : RState δ) (hi : Inv S r)
    (hended : r.ended = true) : step D r ≠ (r', .blocked) := by
  intro h
  have := (step_blocked D S r r' hi h).2.2.1
  rw [hended] at this; cases this

theorem C11_error_after_data (D : Decoder δ) (S : List UInt8) (r r' : RState δ) (hi : Inv S r) (e : SErr)
    (h : step D r = (r', .err (some (.src e)))) :
    r'.input = none ∧ r'.fed.length = r'.gone.length + r'.bio.buf.length :=
  ⟨(step_source_error D S r r' hi e h).2.1, (step_source_error D S r r' hi e h).2.2.1⟩

/-! Non-vacuity: the source delivers the complete toy stream [5,6,7,0] in two chunks and then stays silent
    (no EOF, no further answer). The Reader returns the three bytes and io.EOF without blocking; a source that
    stops after [5,6] makes the third Read block — after 5 and 6 have been delivered. -/
example :
    let full : Bufio := { size := 16, src := [{ bytes := [5, 6] }, { bytes := [7, 0] }] }
    let part : Bufio := { size := 16, src := [{ bytes := [5, 6] }] }
    (readMany toyDecoder 20 (RState.init toyDecoder full) [8, 8, 8]).2 =
        [.data [5, 6] none, .data [7] none, .data [] (some .eof)] ∧
    (readMany toyDecoder 20 (RState.init toyDecoder part) [8, 8]).2 = [.data [5, 6] none, .blocked] := by
  decide

end Fastgo.Reader

#print axioms Fastgo.Reader.C11_blocks_only_when_starved
#print axioms Fastgo.Reader.C11_no_source_access_after_end
#print axioms Fastgo.Reader.C11_error_after_data
