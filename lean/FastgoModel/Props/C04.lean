import FastgoModel.Proofs.ReaderProps
import FastgoModel.Reader.Example
/-!
# C04 — decoded output does not depend on how the compressed bytes arrive or are read  (PARTIAL)

What the control model proves, for an arbitrary `Sane` decoder, every bufio size, every chunking of the source
(one byte per read, short reads, data together with EOF) and every sequence of destination sizes:

* `C04_decoder_sees_the_stream` : in every reachable state the bytes handed to the decoder so far are a PREFIX of
  the source's byte stream `S` — in order, nothing lost, nothing duplicated, whatever the schedule;
* `C04_nothing_left_behind` : when a Read finally blocks on a silent source the decoder has been handed all of `S`.

Two schedules therefore drive the decoder with the same byte stream. That the DECODER's total output is a
function of that stream (its resumability: rollback of an incomplete symbol group, header staging, overflow
carry) is the decoder contract — validated per run (schedule families × destination sizes, boundary streams,
one byte per read) and, for complete streams, equal to the specification's output (C02).
For TRUNCATED streams the last 1–2 bytes before io.ErrUnexpectedEOF do depend on the schedule in the code
(known finding F-C04-1): the full statement of C04 is false there and is not claimed.
-/
namespace Fastgo.Reader
variable {δ : Type}

theorem C04_decoder_sees_the_stream (D : Decoder δ) (hs : D.Sane) (bio : Bufio) (fuel : Nat) (reads : List Nat) :
    (readMany D fuel (RState.init D bio) reads).1.fed <+: bio.stream := by
  have hi := reachable_inv D hs bio fuel reads
  have h1 := hi.fedPre
  have h2 := hi.total
  generalize (readMany D fuel (RState.init D bio) reads).1 = r at h1 h2
  rw [← h2, h1]
  have : (r.gone ++ r.bio.buf).take r.fed.length <+: r.gone ++ r.bio.buf := List.take_prefix _ _
  refine this.trans ?_
  simp only [Bufio.stream, ← List.append_assoc]
  exact List.prefix_append _ _

theorem C04_same_stream_same_feed (D : Decoder δ) (hs : D.Sane) (bio₁ bio₂ : Bufio) (hsame : bio₁.stream = bio₂.stream)
    (fuel₁ fuel₂ : Nat) (reads₁ reads₂ : List Nat) :
    (readMany D fuel₁ (RState.init D bio₁) reads₁).1.fed <+: bio₁.stream ∧
    (readMany D fuel₂ (RState.init D bio₂) reads₂).1.fed <+: bio₁.stream :=
  ⟨C04_decoder_sees_the_stream D hs bio₁ fuel₁ reads₁, hsame ▸ C04_decoder_sees_the_stream D hs bio₂ fuel₂ reads₂⟩

theorem C04_nothing_left_behind (D : Decoder δ) (hs : D.Sane) (S : List UInt8) (fuel : Nat)
    (r r' : RState δ) (want : Nat) (hi : Inv S r) (h : read D fuel r want = (r', .blocked)) : r'.fed = S :=
  (read_blocked D hs S fuel r r' want hi h).2.2.2.2

/-! Non-vacuity: the same toy stream delivered all at once through a 64-byte bufio.Reader and one byte at a
    time through a 16-byte one, read with different destination sizes: same bytes, same end. -/
example :
    let s1 : Bufio := { size := 64, src := [{ bytes := [1, 2, 3, 4, 5, 6, 0], err := some .eof }] }
    let s2 : Bufio := { size := 16, src := [{ bytes := [1] }, { bytes := [2] }, { bytes := [3] }, { bytes := [4] },
                                           { bytes := [5] }, { bytes := [6] }, { bytes := [0] }, { bytes := [], err := some .eof }] }
    let out := fun (rs : List ReadRes) => rs.flatMap fun r => match r with | .data bs _ => bs | _ => []
    out (readMany toyDecoder 40 (RState.init toyDecoder s1) [100, 100, 100]).2 = [1, 2, 3, 4, 5, 6] ∧
    out (readMany toyDecoder 40 (RState.init toyDecoder s2) [1, 2, 1, 2, 1, 2, 1, 2]).2 = [1, 2, 3, 4, 5, 6] := by
  decide

end Fastgo.Reader

#print axioms Fastgo.Reader.C04_decoder_sees_the_stream
#print axioms Fastgo.Reader.C04_same_stream_same_feed
#print axioms Fastgo.Reader.C04_nothing_left_behind
