import FastgoModel.Proofs.WriterAppend
import FastgoModel.Writer.Example
/-!
# C09 — compressed bytes depend only on the data and the Flush positions, not on Write sizes

Model: the chunked `Write` loop of writer.go over `Accumulate`/`Compress` of dynamic.go, exactly as coded
(copy what fits, compress when the buffer is exactly full, slide when `idx ≥ 2·window`), for ARBITRARY leaf
algorithms (match finder, block encoder — only their being functions of their arguments matters).

* `C09_write_append` : `Write (a ++ b)` reaches the same state (buffer, cursors, pending tokens, bit carry,
  match-finder state AND destination contents) and returns the same error as `Write a; Write b`;
* `C09_partition`    : any two ways of cutting the same bytes into Write calls (zero-length writes included)
  reach the same state — hence emit the same bytes, also for everything emitted later (Flush/Close act on the
  state only).

Hypothesis `0 < window` (4096 / 32768 in the code: regenerated fact). "Write goes through" (`WriteOK`) means
it returned (len, nil); a failing destination is C14's subject.
-/
namespace Fastgo.Writer
variable {MF Tok : Type}

theorem C09_write_append (L : DynLeaves MF Tok) (c : Cfg) (hW : 0 < c.window) (w : WState MF Tok) (a b : List UInt8)
    (hopen : w.err = none) (hok : WriteOK L c w a) :
    (write L c w (a ++ b)).1 = (write L c (write L c w a).1 b).1 ∧
    (write L c w (a ++ b)).2.err = (write L c (write L c w a).1 b).2.err :=
  ⟨(write_append L c hW w a b hopen hok).1, (write_append L c hW w a b hopen hok).2.1⟩

/-- writing the chunks `xs` one Write call each, every call going through, leads from `w` to `w'` -/
inductive Chunked (L : DynLeaves MF Tok) (c : Cfg) : WState MF Tok → List (List UInt8) → WState MF Tok → Prop
  | nil (w) : Chunked L c w [] w
  | cons (w x xs w') : WriteOK L c w x → Chunked L c (write L c w x).1 xs w' → Chunked L c w (x :: xs) w'

theorem write_nil_open (L : DynLeaves MF Tok) (c : Cfg) (w : WState MF Tok) (hopen : w.err = none) :
    write L c w [] = (w, { n := 0 }) := by
  unfold write; rw [hopen]; simp [writeLoop_nil]

theorem writeOK_open (L : DynLeaves MF Tok) (c : Cfg) (w : WState MF Tok) (a : List UInt8)
    (hopen : w.err = none) (hok : WriteOK L c w a) : (write L c w a).1.err = none := by
  rcases write_open L c w a hopen with ⟨_, h2⟩ | ⟨h1, _⟩
  · revert h2; unfold absState; split <;> simp_all
  · unfold WriteOK at hok; rw [hok] at h1; cases h1

theorem chunked_eq_single (L : DynLeaves MF Tok) (c : Cfg) (hW : 0 < c.window) (w w' : WState MF Tok)
    (xs : List (List UInt8)) (hopen : w.err = none) (h : Chunked L c w xs w') :
    w' = (write L c w xs.flatten).1 := by
  induction h with
  | nil w => simp [write_nil_open L c w hopen]
  | cons w x xs w' hok _ ih =>
    have h1 := ih (writeOK_open L c w x hopen hok)
    rw [h1, List.flatten_cons]
    exact ((write_append L c hW w x xs.flatten hopen hok).1).symm

theorem C09_partition (L : DynLeaves MF Tok) (c : Cfg) (hW : 0 < c.window) (w w1 w2 : WState MF Tok)
    (xs ys : List (List UInt8)) (hopen : w.err = none) (hsame : xs.flatten = ys.flatten)
    (h1 : Chunked L c w xs w1) (h2 : Chunked L c w ys w2) : w1 = w2 := by
  rw [chunked_eq_single L c hW w w1 xs hopen h1, chunked_eq_single L c hW w w2 ys hopen h2, hsame]

/-- equal states emit equal bytes from then on, whatever follows -/
theorem C09_later_ops (L : DynLeaves MF Tok) (c : Cfg) (w1 w2 : WState MF Tok) (h : w1 = w2) (ops : List Op) :
    (run L c w1 ops).1.dst.bytes = (run L c w2 ops).1.dst.bytes := by rw [h]

/-! Non-vacuity on the toy leaves (window 8, buffer 274 bytes): 300 bytes written as 300 / as 1+0+273+26 /
    both go through and end in the same state; the buffer was filled and compressed on the way. -/
example :
    let d : List UInt8 := List.replicate 300 5
    let w0 := WState.init toyLeaves healthy
    let a := write toyLeaves toyCfg w0 d
    let b1 := write toyLeaves toyCfg w0 (d.take 1)
    let b2 := write toyLeaves toyCfg b1.1 []
    let b3 := write toyLeaves toyCfg b2.1 ((d.drop 1).take 273)
    let b4 := write toyLeaves toyCfg b3.1 (d.drop 274)
    a.2 = { n := 300 } ∧ b4.2 = { n := 26 } ∧ a.1.dst.calls > 0 ∧ a.1.dyn.buf.length = b4.1.dyn.buf.length ∧
      a.1.dst.bytes = b4.1.dst.bytes := by
  decide +kernel

end Fastgo.Writer

#print axioms Fastgo.Writer.C09_write_append
#print axioms Fastgo.Writer.C09_partition
#print axioms Fastgo.Writer.C09_later_ops
