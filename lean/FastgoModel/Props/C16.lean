import FastgoModel.Proofs.WriterControl
import FastgoModel.Writer.Example
import FastgoModel.Proofs.WriterWrap
/-!
# C16 — any call sequence is safe; Close is idempotent

The Writer control model refines the three-state protocol automaton of compress/flate
(`opened`, `closed`, `failed`; `absState` maps a Writer to its protocol state):

* `C16_protocol_step` : the error returned by every call, and the next protocol state, are those of the
  automaton (an `opened` Writer either stays usable or fails with the destination's error; nothing else);
* `C16_after_close`   : on a closed Writer every further Close returns nil, every Write/Flush returns the
  "closed" error, and none of them changes the Writer or touches the destination (emits nothing);
* `C16_total`         : `run` is a total function — every call sequence has a result (no panic in the model:
  there is no partial operation; the nil dereference of the unrepaired level -2 Close is not representable).

That the standard library's Writer follows the same automaton is validated side by side by the harness
(exhaustive sequences up to a bounded length). The clause "bytes up to the first Close are a complete
stream" is C01's theorem.
-/
namespace Fastgo.Writer
variable {MF Tok : Type}

/-- the protocol automaton: possible (answer is error?, next state) of an operation in a state -/
def protoOK (st : PState) (op : Op) (err : Option Err) (st' : PState) : Prop :=
  match op with
  | .reset _ => err = none ∧ st' = .opened
  | .close =>
    match st with
    | .opened => (err = none ∧ st' = .closed) ∨ (err = some .injected ∧ st' = .failed)
    | .closed => err = none ∧ st' = .closed
    | .failed => err = some .injected ∧ st' = .failed
  | _ =>
    match st with
    | .opened => (err = none ∧ st' = .opened) ∨ (err = some .injected ∧ st' = .failed)
    | .closed => err = some .closed ∧ st' = .closed
    | .failed => err = some .injected ∧ st' = .failed

theorem C16_protocol_step (L : DynLeaves MF Tok) (c : Cfg) (w : WState MF Tok) (op : Op) :
    protoOK (absState w) op (step L c w op).2.err (absState (step L c w op).1) := by
  cases hw : w.err with
  | none =>
    have hs : absState w = .opened := by simp [absState, hw]
    cases op with
    | write data => simp only [protoOK, hs, step]; exact write_open L c w data hw
    | flush => simp only [protoOK, hs, step]; exact flush_open L c w hw
    | close => simp only [protoOK, hs, step]; exact close_open L c w hw
    | reset d => simp [protoOK, step, reset, absState]
  | some e =>
    cases e with
    | injected =>
      have hs : absState w = .failed := by simp [absState, hw]
      cases op with
      | write data => simp [protoOK, hs, step, write_of_err L c w _ hw]
      | flush => simp [protoOK, hs, step, flush_of_err L c w _ hw]
      | close => simp [protoOK, hs, step, close_of_injected L c w hw]
      | reset d => simp [protoOK, step, reset, absState]
    | closed =>
      have hs : absState w = .closed := by simp [absState, hw]
      cases op with
      | write data => simp [protoOK, hs, step, write_of_err L c w _ hw]
      | flush => simp [protoOK, hs, step, flush_of_err L c w _ hw]
      | close => simp [protoOK, hs, step, close_of_closed L c w hw]
      | reset d => simp [protoOK, step, reset, absState]

theorem C16_after_close (L : DynLeaves MF Tok) (c : Cfg) (w : WState MF Tok) (hclosed : w.err = some .closed)
    (ops : List Op) (hnr : ∀ op ∈ ops, op.isReset = false) :
    (run L c w ops).1 = w ∧ (run L c w ops).1.dst.bytes = w.dst.bytes ∧ (run L c w ops).2 = ops.map closedAnswer := by
  rw [run_closed L c w hclosed ops hnr]
  exact ⟨rfl, rfl, rfl⟩

/-- a successful Close closes -/
theorem C16_close_closes (L : DynLeaves MF Tok) (c : Cfg) (w : WState MF Tok) (hopen : w.err = none)
    (hok : (close L c w).2.err = none) : (close L c w).1.err = some .closed := by
  rcases close_open L c w hopen with ⟨_, h2⟩ | ⟨h1, _⟩
  · revert h2; unfold absState; split <;> simp_all
  · rw [hok] at h1; cases h1

theorem C16_total (L : DynLeaves MF Tok) (c : Cfg) (w : WState MF Tok) (ops : List Op) :
    ((run L c w ops).2).length = ops.length := by
  induction ops generalizing w with
  | nil => rfl
  | cons op ops ih => simp [run, ih]

/-! Non-vacuity: Write, Close, Close, Write, Flush, Close on the toy leaves — the second Close returns
    nil and emits nothing, Write and Flush after Close fail, the destination is untouched after the
    first Close. -/
example :
    let ops := [Op.write [1, 2, 3, 4, 5], Op.close, Op.close, Op.write [9], Op.flush, Op.close]
    let r1 := run toyLeaves toyCfg (WState.init toyLeaves healthy) (ops.take 2)
    let r := run toyLeaves toyCfg (WState.init toyLeaves healthy) ops
    r.2.map (·.err) = [none, none, none, some .closed, some .closed, none] ∧ r.1.dst.bytes = r1.1.dst.bytes := by
  decide

/-- container Writers, any inner Writer: after a successful Close a further Close (gzip: also Flush, as in
    compress/gzip) returns nil and changes nothing -/
theorem C16_gzip_closed_idempotent {ι : Type} (O : CWriter.InnerOps ι) (z : CWriter.GW ι) (he : z.err = none)
    (hc : z.closed = true) : CWriter.gClose O z = (z, {}) ∧ CWriter.gFlush O z = (z, {}) :=
  CWriter.gzip_closed_idempotent O z he hc

theorem C16_zlib_closed_idempotent {ι : Type} (O : CWriter.InnerOps ι) (z : CWriter.ZW ι) (he : z.err = none)
    (hc : z.closed = true) (hw : z.wroteHeader = true) : CWriter.zClose O z = (z, {}) :=
  CWriter.zlib_closed_idempotent O z he hc hw

end Fastgo.Writer

#print axioms Fastgo.Writer.C16_protocol_step
#print axioms Fastgo.Writer.C16_after_close
#print axioms Fastgo.Writer.C16_close_closes
#print axioms Fastgo.Writer.C16_total
#print axioms Fastgo.Writer.C16_gzip_closed_idempotent
#print axioms Fastgo.Writer.C16_zlib_closed_idempotent
