import FastgoModel.Props.C02
import FastgoModel.Reader.FaithfulCheck
/-!
# C03 — malformed input: no invented data, io.EOF only after a complete stream, sticky stdlib errors

Model and leaf contracts as for C02 (`Reader.Control`, `Decoder.Sane`, `Faithful`).

* `C03_no_fabrication`      — at any point of any history (also after Reset: `C03_reset_forgets`), every byte
  handed out is the byte the specification inflater produces at that position from the bytes the decoder has
  taken from THIS source (a prefix of its stream): nothing invented, nothing left over from earlier use;
* `C03_eof_only_if_complete`— io.EOF is returned only if the bytes taken begin with a complete, well-formed
  stream whose output is exactly what was handed out (= `C02_eof_complete`);
* `C03_error_kinds`         — the error of a step() that ran the decoder is CorruptInputError only if the decoder
  reported an invalid block/symbol/distance, and io.ErrUnexpectedEOF only if it ran out of input AND the source
  had reported io.EOF; a source error is never produced there (`stepErr_not_src`, C15);
* `C03_sticky`              — after a Read returned an error, every further Read returns that same error and no
  data, and changes nothing.

`C03_partial`: not proved — termination without panic of the decoder proper on every byte string (the model is
total, the Go/assembly code is observed: recovered panics + watchdog in the oracle), that the real decoder meets
`Faithful` on malformed input (stale tables, unassigned codes: decided per run by the oracle with the permissive
reference inflater as upper bound and compress/flate as lower bound), and "a cut-short stream ends in
io.ErrUnexpectedEOF" in the direction that needs decoder progress.
-/
namespace Fastgo.Reader
open Fastgo.Spec
variable {δ : Type}

theorem C03_no_fabrication (D : Decoder δ) (hs : D.Sane) {mode : Mode} (F : Faithful D mode) (bio : Bufio) (fuel : Nat)
    (ws : List Nat) :
    delivered (readMany D fuel (RState.init D bio) ws).2 <+:
      specOut (inflate mode [] (readMany D fuel (RState.init D bio) ws).1.fed) ∧
    (readMany D fuel (RState.init D bio) ws).1.fed <+: bio.stream :=
  C02_delivery D hs F bio fuel ws

/-- after Reset the same holds for the new source alone, whatever state the Reader was in -/
theorem C03_reset_forgets (D : Decoder δ) (hs : D.Sane) {mode : Mode} (F : Faithful D mode) (old : RState δ)
    (bio : Bufio) (fuel : Nat) (ws : List Nat) :
    delivered (readMany D fuel (RState.reset D old bio) ws).2 <+:
      specOut (inflate mode [] (readMany D fuel (RState.reset D old bio) ws).1.fed) ∧
    (readMany D fuel (RState.reset D old bio) ws).1.fed <+: bio.stream := by
  rw [reset_eq_init]
  exact C02_delivery D hs F bio fuel ws

theorem C03_eof_only_if_complete (D : Decoder δ) {mode : Mode} (F : Faithful D mode) (bio : Bufio) (fuel : Nat)
    (ws : List Nat) (want : Nat)
    (he : (read D fuel (readMany D fuel (RState.init D bio) ws).1 want).2.err = some .eof) :
    ∃ rest s, inflate mode [] (read D fuel (readMany D fuel (RState.init D bio) ws).1 want).1.fed =
      .done (delivered (readMany D fuel (RState.init D bio) ws).2 ++
        (read D fuel (readMany D fuel (RState.init D bio) ws).1 want).2.bytes).toArray rest s :=
  C02_eof_complete_from_start D F bio fuel ws want he

theorem C03_error_kinds (o : DecOut δ) (eof : Bool) :
    (stepErr o eof = some .corrupt → o.status = .invalid) ∧
    (stepErr o eof = some .unexpectedEOF → o.status = .needInput ∧ eof = true) ∧
    (∀ e, stepErr o eof ≠ some (.src e)) := by
  refine ⟨?_, ?_, fun e => stepErr_not_src o eof e⟩
  · unfold stepErr
    intro h
    by_cases h1 : o.status = .invalid ∨ (o.status = .needInput ∧ eof = true)
    · rw [if_pos h1] at h
      by_cases h2 : o.status = .needInput
      · rw [if_pos h2] at h; cases h
      · rcases h1 with h1 | h1
        · exact h1
        · exact absurd h1.1 h2
    · rw [if_neg h1] at h
      split at h <;> cases h
  · unfold stepErr
    intro h
    by_cases h1 : o.status = .invalid ∨ (o.status = .needInput ∧ eof = true)
    · rw [if_pos h1] at h
      by_cases h2 : o.status = .needInput
      · rcases h1 with h1 | h1
        · rw [h1] at h2; cases h2
        · exact h1
      · rw [if_neg h2] at h; cases h
    · rw [if_neg h1] at h
      split at h <;> cases h

theorem C03_sticky (D : Decoder δ) (fuel : Nat) (r : RState δ) (want : Nat) (e : RE)
    (h : (read D fuel r want).2.err = some e) (fuel' want' : Nat) :
    read D (fuel' + 1) (read D fuel r want).1 want' = ((read D fuel r want).1, .data [] (some e)) := by
  obtain ⟨h1, h2⟩ := read_err_state D fuel r want e h
  exact read_sticky D fuel' _ want' e h1 h2

/-! ### the session check of the F correspondence
  `checkFaithful` judges one complete session of the REAL Reader (any level, chunking, Read sizes) by the specification
  inflater itself. A session that passes it has (i) delivered a prefix of the specification's output
  (`C03_checked_session_no_fabrication`), (ii) ended in io.EOF only on a complete stream, completely delivered, with the
  source exactly behind the final block (`C03_checked_session_eof`; this is also C02's completeness and C05's position
  for that session), (iii) reported CorruptInputError only when the strict specification does not accept the input and the
  input is not a cut valid stream (`C03_checked_session_corrupt`). -/
theorem C03_checked_session_no_fabrication (src delivered : List UInt8) (k : EndKind) (consumed : Nat) (cut : Bool)
    (h : checkFaithful src delivered k consumed cut = true) :
    delivered <+: (Spec.inflate .permissive [] src).out.toList :=
  checkFaithful_prefix src delivered k consumed cut h

theorem C03_checked_session_eof (src delivered : List UInt8) (consumed : Nat) (cut : Bool)
    (h : checkFaithful src delivered .eof consumed cut = true) :
    ∃ out rest st, Spec.inflate .permissive [] src = .done out rest st ∧ delivered = out.toList ∧
      consumed = (8 * src.length - rest.length + 7) / 8 :=
  checkFaithful_eof src delivered consumed cut h

theorem C03_checked_session_corrupt (src delivered : List UInt8) (consumed : Nat) (cut : Bool)
    (h : checkFaithful src delivered .corrupt consumed cut = true) :
    (Spec.inflate .strict [] src).isDone = false ∧ cut = false :=
  checkFaithful_corrupt src delivered consumed cut h

/-! Non-vacuity: the stream of C02's example cut after 9 bytes (source then reports io.EOF) read through the
    model with `batchDecoder`: no data, io.ErrUnexpectedEOF, and the same again; the same stream with its first
    byte replaced by 0x07 (reserved block type 3): CorruptInputError, twice. -/
example :
    let bio : Bufio := { size := 16, src := [{ bytes := exStream.take 9, err := some .eof }] }
    (readMany (batchDecoder .strict) 20 (RState.init (batchDecoder .strict) bio) [10, 10]).2 =
      [.data [] (some .unexpectedEOF), .data [] (some .unexpectedEOF)] := by
  decide +kernel

example :
    let bio : Bufio := { size := 16, src := [{ bytes := 7 :: exStream.drop 1, err := some .eof }] }
    (readMany (batchDecoder .strict) 20 (RState.init (batchDecoder .strict) bio) [10, 10]).2 =
      [.data [] (some .corrupt), .data [] (some .corrupt)] := by
  decide +kernel

end Fastgo.Reader

#print axioms Fastgo.Reader.C03_no_fabrication
#print axioms Fastgo.Reader.C03_reset_forgets
#print axioms Fastgo.Reader.C03_eof_only_if_complete
#print axioms Fastgo.Reader.C03_error_kinds
#print axioms Fastgo.Reader.C03_sticky
#print axioms Fastgo.Reader.C03_checked_session_no_fabrication
#print axioms Fastgo.Reader.C03_checked_session_eof
#print axioms Fastgo.Reader.C03_checked_session_corrupt
