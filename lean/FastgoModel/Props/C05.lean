import FastgoModel.Proofs.ReaderProps
import FastgoModel.Reader.Example
import FastgoModel.Proofs.StreamFrame
import FastgoModel.Proofs.FrameUncond
import FastgoModel.Proofs.FrameDict
import FastgoModel.Reader.FaithfulCheck
/-!
# C05 — after io.EOF the source is positioned exactly at the end of the DEFLATE stream

Model: `Reader/Control.lean` over `Reader/Source.lean`, for an ARBITRARY decoder that is `Sane` (takes no more
than it is given; bits only come from bytes it took; idle once the final block is decoded), every bufio size,
every chunking of the source, every sequence of destination sizes.

* `C05_invariant` : every state reachable from NewReader by Read calls satisfies the bookkeeping invariant `Inv`
  (bytes discarded from the bufio.Reader + whole bytes held in the bit buffer = bytes the decoder took; the decoder
  is fed the source's bytes in order, each exactly once);
* `C05_exact_consumption` : once the Reader has finished (io.EOF), `taken + bitsLen/8 = |fed|` and the bytes still
  in (or still to come through) the bufio.Reader are exactly the stream minus the first `taken` bytes;
* `C05_position` : with the decoder's end-of-stream contract `8·|fed| = endBit + bitsLen` (the bits it has taken
  from the input and not yet consumed are `bitsLen`; validated per run against the reference inflater's end bit)
  the Reader has consumed exactly ⌈endBit/8⌉ bytes: whatever follows the final block is unread and intact.

The statement covers sources used THROUGH a `*bufio.Reader` (what NewReader and Reset do with one, of any size).
Sources that are io.ByteReaders of another type are wrapped by the library in its own bufio.Reader and over-read:
recorded as known finding F-C05-1 (DESIGN.md section 7), not covered by this theorem. gzip/zlib: C08 / C06.
-/
namespace Fastgo.Reader
variable {δ : Type}

theorem C05_invariant (D : Decoder δ) (hs : D.Sane) (bio : Bufio) (fuel : Nat) (reads : List Nat) :
    Inv bio.stream (readMany D fuel (RState.init D bio) reads).1 := reachable_inv D hs bio fuel reads

theorem C05_exact (S : List UInt8) (r : RState δ) (hi : Inv S r) (hf : r.finished = true) :
    r.bio.taken + r.bitsLen / 8 = r.fed.length ∧ r.bio.stream = S.drop r.bio.taken :=
  C05_exact_consumption S r hi hf

theorem C05_position_after_eof (S : List UInt8) (r : RState δ) (hi : Inv S r) (hf : r.finished = true)
    (endBit : Nat) (hdec : 8 * r.fed.length = endBit + r.bitsLen) :
    r.bio.taken = (endBit + 7) / 8 ∧ r.bio.stream = S.drop ((endBit + 7) / 8) :=
  C05_position S r hi hf endBit hdec

/-! Non-vacuity: the toy decoder (payload terminated by a 0 byte) over a 16-byte bufio.Reader whose source
    delivers [1,2] / [3,0,9] / [9] + EOF: three Reads deliver 1,2,3 and io.EOF; the Reader has finished having
    consumed exactly the 4 stream bytes; the two bytes after the stream are still there. -/
example : toyDecoder.Sane := toy_sane

example :
    let bio : Bufio := { size := 16, src := [{ bytes := [1, 2] }, { bytes := [3, 0, 9] }, { bytes := [9], err := some .eof }] }
    let run := readMany toyDecoder 20 (RState.init toyDecoder bio) [2, 2, 2]
    run.2 = [.data [1, 2] none, .data [3] none, .data [] (some .eof)] ∧
    run.1.finished = true ∧ run.1.bio.taken = 4 ∧ run.1.bio.stream = [9, 9] := by
  decide

/-! ### the specification side of C05
  `C05_spec_stream_frame` (= `inflate_frame`): a stream that passes the executable check `checkStream` (the specification
  decodes it to the end, every block declaring prefix-free codes; the `S` correspondence applies it to whole streams the
  real Writers emit) decodes to the same data WHATEVER bytes follow it, and the bits left over are its own padding (< 8
  bits) followed by exactly those bytes. `C05_spec_inflater_exact`: hence the specification inflater, used as the inflater
  of the container Reader models, yields the payload and leaves the source exactly behind the stream (`Inflater.Exact`,
  the contract the C06/C08 container theorems assume). Together with `C05_position_after_eof` (the Reader model has taken
  ceil(endBit/8) bytes at io.EOF) and the F correspondence (the real Reader's consumption at io.EOF equals the position
  the specification computes) this closes C05 for every stream the check accepts. -/
theorem C05_spec_stream_frame (mode : Spec.Mode) (bytes more : List UInt8) (hc : Spec.checkStream mode bytes = true) :
    ∃ out rest st st', Spec.inflate mode [] bytes = .done out rest st ∧ rest.length < 8 ∧
      Spec.inflate mode [] (bytes ++ more) = .done out (rest ++ Spec.bytesToBits more) st' :=
  Spec.inflate_frame mode bytes more hc

theorem C05_spec_inflater_exact (mode : Spec.Mode) (body : List UInt8) (hc : Spec.checkStream mode body = true) :
    ∃ payload, (Container.specInflater mode).Exact body payload ∧ Container.specInflater mode body = some (payload, []) :=
  Container.specInflater_exact mode body hc

/-- **the specification inflater is prefix-stable, without side condition**: whatever byte string it decodes to the end
    (less than a byte of padding left) it decodes to the same data when any bytes follow, and exactly those bytes are left.
    This is the specification-level statement of C05 for ALL valid streams. -/
theorem C05_spec_prefix_stable (mode : Spec.Mode) (bytes more : List UInt8) (out : Array UInt8) (rest : Spec.Bits) (st : Spec.Stats)
    (h : Spec.inflate mode [] bytes = .done out rest st) (hr : rest.length < 8) :
    ∃ st', Spec.inflate mode [] (bytes ++ more) = .done out (rest ++ Spec.bytesToBits more) st' :=
  Spec.inflate_prefix_stable mode bytes more out rest st h hr

/-- the same from ANY preset dictionary (zlib FDICT streams, flate.NewReaderDict), with no condition on the rest -/
theorem C05_spec_prefix_stable_dict (mode : Spec.Mode) (dict bytes more : List UInt8) (out : Array UInt8) (rest : Spec.Bits)
    (st : Spec.Stats) (h : Spec.inflate mode dict bytes = .done out rest st) :
    ∃ st', Spec.inflate mode dict (bytes ++ more) = .done out (rest ++ Spec.bytesToBits more) st' :=
  Spec.inflate_prefix_stable_dict mode dict bytes more out rest st h

theorem C05_spec_inflater_exact_of_done (mode : Spec.Mode) (body : List UInt8) (out : Array UInt8) (rest : Spec.Bits)
    (st : Spec.Stats) (h : Spec.inflate mode [] body = .done out rest st) (hr : rest.length < 8) :
    (Container.specInflater mode).Exact body out.toList :=
  Container.specInflater_exact_of_done mode body out rest st h hr

/-- **a checked session ends exactly behind the stream**: if the source holds a complete stream followed by ANY bytes and
    the real Reader's session on it passes `checkFaithful` with io.EOF, then the Reader delivered exactly the stream's
    data and had consumed exactly the stream's bytes — the statement of C05 for that session, with the position computed
    from the stream alone (by `inflate_prefix_stable`) -/
theorem C05_checked_session_position (stream suffix delivered : List UInt8) (consumed : Nat) (cut : Bool)
    (out : Array UInt8) (rest : Spec.Bits) (st : Spec.Stats)
    (hs : Spec.inflate .permissive [] stream = .done out rest st) (hr : rest.length < 8)
    (hc : checkFaithful (stream ++ suffix) delivered .eof consumed cut = true) :
    delivered = out.toList ∧ consumed = stream.length := by
  obtain ⟨out', rest', st', h1, hd, hcons⟩ := checkFaithful_eof (stream ++ suffix) delivered consumed cut hc
  obtain ⟨st2, h2⟩ := Spec.inflate_prefix_stable .permissive stream suffix out rest st hs hr
  rw [h2] at h1
  simp only [Spec.Result.done.injEq] at h1
  obtain ⟨ho, hrr, _⟩ := h1
  subst ho hrr
  have hne : 1 ≤ stream.length := by
    cases stream with
    | nil => simp [Spec.inflate, Spec.inflateBlocks, Spec.inflateBlock, Spec.takeField, Spec.bytesToBits] at hs
    | cons b bs => simp
  refine ⟨hd, ?_⟩
  rw [hcons]
  simp only [List.length_append, Spec.bytesToBits_length]
  omega

/-! Non-vacuity: the 18 bytes fastgo emits for `Write("abcabcabcabc"); Close()` at level 1 pass `checkStream`; followed by
    other bytes the specification inflater still yields the 12 bytes and leaves exactly those bytes. -/
def realStream : List UInt8 := [0x35,0xc2,0x31,0x0d,0x00,0x00,0x00,0x83,0x30,0xad,0x1b,0xfe,0x3d,0x70,0x91,0x74,0x27,0x08]

example : Spec.checkStream .strict realStream = true ∧
    Container.specInflater .strict (realStream ++ [1, 2, 3]) = some ("abcabcabcabc".toUTF8.toList, [1, 2, 3]) := by
  decide +kernel

end Fastgo.Reader

#print axioms Fastgo.Reader.C05_spec_stream_frame
#print axioms Fastgo.Reader.C05_spec_prefix_stable
#print axioms Fastgo.Reader.C05_spec_prefix_stable_dict
#print axioms Fastgo.Reader.C05_checked_session_position
#print axioms Fastgo.Reader.C05_spec_inflater_exact_of_done
#print axioms Fastgo.Reader.C05_spec_inflater_exact
#print axioms Fastgo.Reader.C05_invariant
#print axioms Fastgo.Reader.C05_exact
#print axioms Fastgo.Reader.C05_position_after_eof
