import FastgoModel.Proofs.ContainerReaders
/-!
# C07 — gzip/zlib Readers never report success for data that fails its checksum

Model: `Container/Readers.lean` — the Read loops of ungzip.go and zlib/reader.go. The inflater is the
ENVIRONMENT: any sequence of (bytes, error) answers, so the theorems hold for every payload, every corruption
of it, every Read buffer size. `after` is whatever the source holds after the DEFLATE stream (the trailer, a
corrupted trailer, a truncated one, nothing).

* `C07_gzip_eof_is_checked` : if a run of Read calls over one member ends in io.EOF, the bytes handed out have
  exactly the CRC-32 and the length (mod 2^32) stored in the 8 bytes after the DEFLATE stream;
* `C07_zlib_eof_is_checked` : the same with Adler-32 and the 4-byte trailer;
* `C07_gzip_counts` / `C07_zlib_counts` : the byte count of every Read is the inflater's payload count of that
  call — in particular when the trailer is cut short (the count is NOT the number of trailer bytes read);
* `C07_gzip_truncated_trailer` : a trailer shorter than 8 bytes ends the run in io.ErrUnexpectedEOF.

That the payload delivered before an error is a prefix of the true payload is the inflater's property (C03).
-/
namespace Fastgo.Container
open Fastgo.Spec

theorem C07_gzip_eof_is_checked (z : GzReader) (hm : z.multistream = false) (hfresh : z.sum = {}) (hopen : z.err = none)
    (after : List UInt8) (answers : List InflAns) (delivered : List UInt8) (z' : GzReader)
    (h : gzRun z after answers = (delivered, some .eof, z')) :
    ∃ t r, takeN 8 after = some (t, r) ∧
      unle (t.take 4) = (crc32 delivered).toNat ∧ unle (t.drop 4) = delivered.length % 2 ^ 32 := by
  obtain ⟨t, r, ht, h1, h2⟩ := gzRun_eof_checked z hm (by rw [hfresh]; decide) after answers delivered z' h hopen
  refine ⟨t, r, ht, ?_, ?_⟩
  · rw [h1, hfresh]; rfl
  · rw [h2, hfresh]; simp

theorem C07_zlib_eof_is_checked (z : ZReader) (hfresh : z.digest = (1, 0)) (hopen : z.err = none)
    (after : List UInt8) (answers : List InflAns) (delivered : List UInt8) (z' : ZReader)
    (h : zRun z after answers = (delivered, some .eof, z')) :
    ∃ t r, takeN 4 after = some (t, r) ∧ unbe t = adler32 delivered := by
  obtain ⟨t, r, ht, h1⟩ := zRun_eof_checked z after answers delivered z' h hopen
  exact ⟨t, r, ht, by rw [h1, hfresh]; rfl⟩

theorem C07_gzip_counts (z : GzReader) (a : InflAns) (after : List UInt8) :
    (gzReadBody z a after).2.1.bytes = a.bytes := gzReadBody_bytes z a after

theorem C07_zlib_counts (z : ZReader) (a : InflAns) (after : List UInt8) :
    (zReadBody z a after).2.bytes = a.bytes := zReadBody_bytes z a after

theorem C07_gzip_truncated_trailer (z : GzReader) (a : InflAns) (ha : a.err = some .eof) (after : List UInt8)
    (hshort : after.length < 8) :
    (gzReadBody z a after).2.1 = { bytes := a.bytes, err := some .unexpectedEOF } := by
  unfold gzReadBody
  simp [ha, takeN, hshort]

/-! Non-vacuity: payload [1,2,3] handed out by two Read calls (2 + 1 bytes, EOF with the last), followed by its
    true trailer: the run ends in io.EOF; with one trailer byte changed it ends in a checksum error. -/
example :
    let good := emitTrailer [1, 2, 3]
    let answers : List InflAns := [{ bytes := [1, 2] }, { bytes := [3], err := some .eof }]
    (gzRun { multistream := false } good answers).2.1 = some .eof ∧
    (gzRun { multistream := false } (good.set 0 0) answers).2.1 = some .checksum ∧
    (gzRun { multistream := false } (good.take 5) answers).2.1 = some .unexpectedEOF := by
  decide +kernel

end Fastgo.Container

#print axioms Fastgo.Container.C07_gzip_eof_is_checked
#print axioms Fastgo.Container.C07_zlib_eof_is_checked
#print axioms Fastgo.Container.C07_gzip_counts
#print axioms Fastgo.Container.C07_zlib_counts
#print axioms Fastgo.Container.C07_gzip_truncated_trailer
