import FastgoModel.Proofs.DistTable
import FastgoModel.Gen.Facts
import FastgoModel.Proofs.TokenCheck
/-!
# C19 — the 4 KiB-window writer never refers back more than 4096 bytes

The chain from constructor to emitted distance, each link tied to the code:

* `C19_constructor_windows` (regenerated fact): `NewWriterwWith4KWindow` builds every dynamic compressor with
  window `4 * 1024`, `NewWriter` with `32 * 1024`; `buildLZ77` stores `windowLevel = log2(window)`; `generate`
  passes `1 << c.windowLevel` to the Go match finder and picks the 4k assembly variant exactly when
  `c.windowLevel == 12`;
* `C19_code_shape` (regenerated fact): the Go match finder computes the candidate distance as
  `uint32(uint16(relative+offset)-lookup) & 0xffff` and accepts it under `uint32(dist-1) < uint32(historySize)`;
* `C19_accept_bounds` (theorem): in uint32 arithmetic that test accepts exactly `1 ≤ dist ≤ historySize`
  (for the 16-bit candidate, including the wrap of `dist-1` at 0): so a token is only ever built from a
  distance within the window — also after positions have wrapped at 64 KiB, since the candidate is 16-bit and the
  bytes are compared at `offset - dist`;
* `C19_emitted_distance` (theorem, finite table by `decide +kernel`): the (symbol, extra) pair `getDistSymbol`
  emits for a distance 1..32768 is decoded by RFC 1951 to that same distance.
  Hence every distance a conforming inflater reconstructs from a Go-matched token is ≤ the window.

* `C19_checked_call` (theorem): a match-finder call that passes the executable check `Writer.checkGen` (run by
  the `G` correspondence on recorded calls of the Go AND the assembly match finders, at every acceleration level
  the host can execute, with the constructor's window) emitted only matches with `1 ≤ dist ≤ window`,
  `3 ≤ len ≤ 258`, whose bytes are in the buffer it was given — so the window bound is checked at the source,
  call by call, not only through the decoded output.

The assembly match finders (acceleration level ≥ 1) have no Lean model: beyond `C19_checked_call` on the recorded
calls they sit behind the same contract as an ASSUMPTION validated on every run: the reference inflater reports the maximum distance of every output (window-edge families: repeats at
W-2..W+2, 64 KiB aliasing, Flush/Reset histories) at every level the host can execute.
-/
namespace Fastgo.Props
open Fastgo.Spec

/-- the window test of lz77.go in uint32 arithmetic: uint32(dist-1) < uint32(historySize) -/
def windowTest (dist W : Nat) : Bool := decide ((dist + 2 ^ 32 - 1) % 2 ^ 32 < W)

theorem C19_accept_bounds (dist W : Nat) (hd : dist < 65536) (hW : W ≤ 32768) (h : windowTest dist W = true) :
    1 ≤ dist ∧ dist ≤ W := by
  unfold windowTest at h
  simp only [decide_eq_true_eq] at h
  by_cases h0 : dist = 0
  · subst h0; simp at h; omega
  · have : (dist + 2 ^ 32 - 1) % 2 ^ 32 = dist - 1 := by
      have : dist + 2 ^ 32 - 1 = (dist - 1) + 2 ^ 32 := by omega
      rw [this, Nat.add_mod_right, Nat.mod_eq_of_lt (by omega)]
    omega

theorem C19_reject_outside (dist W : Nat) (hd : dist < 65536) (hW : 0 < W) (hW2 : W ≤ 32768) (h : dist = 0 ∨ W < dist) :
    windowTest dist W = false := by
  unfold windowTest
  simp only [decide_eq_false_iff_not, Nat.not_lt]
  rcases h with h | h
  · subst h; simp; omega
  · have : (dist + 2 ^ 32 - 1) % 2 ^ 32 = dist - 1 := by
      have : dist + 2 ^ 32 - 1 = (dist - 1) + 2 ^ 32 := by omega
      rw [this, Nat.add_mod_right, Nat.mod_eq_of_lt (by omega)]
    omega

theorem C19_checked_call (window : Nat) (buf : Array UInt8) (stop : Nat) (hs : stop ≤ buf.size)
    (toks : List Fastgo.Writer.RTok) (pos : Nat) (h : Fastgo.Writer.checkGen window buf stop pos toks = true) :
    ∀ t ∈ toks, t.inWindow window :=
  (Fastgo.Writer.checkGen_sound window buf stop hs toks pos (buf.extract 0 pos)
    (by simp [Array.toList_extract]) h).2.2

theorem C19_emitted_distance (d : Nat) (h1 : 1 ≤ d) (h2 : d ≤ 32768) :
    (getDistSymbol d).1 < 30 ∧ distBase.getD (getDistSymbol d).1 0 + (getDistSymbol d).2 = d ∧
    (getDistSymbol d).2 < 2 ^ distExtra.getD (getDistSymbol d).1 0 := by
  have := dist_symbol_roundtrip d h1 h2
  unfold distOK at this
  simp only [Bool.and_eq_true, decide_eq_true_eq, beq_iff_eq] at this
  exact ⟨this.1.1, this.1.2, this.2⟩

/-- the whole chain for the Go match finder: an accepted candidate is emitted as a distance ≤ W -/
theorem C19_window (dist W : Nat) (hd : dist < 65536) (hW : W ≤ 32768) (h : windowTest dist W = true) :
    distBase.getD (getDistSymbol dist).1 0 + (getDistSymbol dist).2 ≤ W := by
  obtain ⟨h1, h2⟩ := C19_accept_bounds dist W hd hW h
  rw [(C19_emitted_distance dist h1 (by omega)).2.1]
  exact h2

def fact (f k : String) : List String :=
  (Fastgo.Gen.codeFacts.filter fun x => x.1 = f ∧ x.2.1 = k).map (·.2.2.1)

theorem C19_code_shape :
    fact "lz77" "dist" = ["uint32(uint16(relative+offset)-lookup) & 0xffff"] ∧
    fact "lz77" "windowTest" = ["uint32(dist-1) < uint32(historySize)"] ∧
    fact "lz77" "prev" = ["offset - int(dist)"] := by decide

theorem C19_constructor_windows :
    fact "NewWriterwWith4KWindow" "window" = ["4 * 1024", "4 * 1024"] ∧
    fact "NewWriter" "window" = ["32 * 1024"] ∧
    fact "buildLZ77" "ctx" = ["level1context{windowLevel: bits.TrailingZeros(uint(windowSize))}",
      "level2context{windowLevel: bits.TrailingZeros(uint(windowSize))}",
      "level2context{windowLevel: bits.TrailingZeros(uint(windowSize))}"] ∧
    fact "*level1context.generate" "windowSwitch" = ["c.windowLevel == 12"] ∧
    fact "*level2context.generate" "windowSwitch" = ["c.windowLevel == 12"] ∧
    ((Fastgo.Gen.codeFacts.filter fun x => x.2.1 = "calls" ∧ x.2.2.1 = "lz77").all fun x => x.2.2.2 = "1 << c.windowLevel") = true ∧
    fact "*level1context.generate" "calls" = ["lz77", "lz77Asm4kL12V1", "lz77Asm32kL12V1", "lz77"] ∧
    fact "*level2context.generate" "calls" = ["lz77", "lz77Asm4kL15V1", "lz77Asm32kL15V1", "lz77"] := by decide

/-! Non-vacuity: distances at the window edge. -/
example : windowTest 4096 4096 = true ∧ windowTest 4097 4096 = false ∧ windowTest 0 4096 = false ∧
    windowTest 32768 32768 = true ∧ windowTest 32769 32768 = false ∧ windowTest 1 4096 = true := by decide

end Fastgo.Props

#print axioms Fastgo.Props.C19_accept_bounds
#print axioms Fastgo.Props.C19_reject_outside
#print axioms Fastgo.Props.C19_emitted_distance
#print axioms Fastgo.Props.C19_window
#print axioms Fastgo.Props.C19_code_shape
#print axioms Fastgo.Props.C19_constructor_windows
#print axioms Fastgo.Props.C19_checked_call
