import FastgoModel.Proofs.ReaderProps
import FastgoModel.Gen.Facts
/-!
# C13 — Reader.Reset makes a used Reader indistinguishable from a new one

`RState.reset` is modelled field by field after reader.go Reset + inflate.go reset (after the repair of D6:
readPos/writePos are cleared, i.e. `pending := []`, and the decoder state — bit buffer, phase, staged header
bytes, overflow carry, history — is the initial one):

* `C13_reset_state` : for EVERY state `r` (any earlier stream, any read history: nothing read, output pending,
  io.EOF, an error state) `reset r src` IS the state of `NewReader(src)`;
* `C13_reset_fresh` : hence every later Read sequence gives identical results;
* `C13_reset_fields_complete` (regenerated fact): the code's `decompressor.Reset` assigns err, eof, peekSize,
  readPos, writePos, the source, and calls `state.reset()`, which assigns every stream-state field of `inflate`
  (input, bits, bitsLen, phase, bfinal, litBlockLength, the four overflow fields, headerBuffered, roffset).
The lookup tables and `dynHdr` are rebuilt by every block header before use (repairs D8/D16/D19 made that
complete); zlib's Reset with a dictionary switches to the dictionary-capable inflater (repair D12). Validated
per run by the reset-versus-fresh oracle (hostile next streams, dictionaries, header-cut histories).
-/
namespace Fastgo.Reader
variable {δ : Type}

theorem C13_reset_state (D : Decoder δ) (r : RState δ) (bio : Bufio) : RState.reset D r bio = RState.init D bio := rfl

theorem C13_reset_fresh (D : Decoder δ) (r : RState δ) (bio : Bufio) (fuel : Nat) (reads : List Nat) :
    readMany D fuel (RState.reset D r bio) reads = readMany D fuel (RState.init D bio) reads := by
  rw [C13_reset_state]

def assignedBy (pkg fn : String) : List String :=
  ((Fastgo.Gen.resetAssigns.find? fun r => r.1 = pkg ∧ r.2.1 = fn).map (·.2.2)).getD []

theorem C13_reset_fields_complete :
    (["r", "rBuf", "peekSize", "eof", "err", "readPos", "writePos", "state.reset()"].all
      (assignedBy "compress/flate" "*decompressor.Reset").contains) = true ∧
    (["input", "bits", "bitsLen", "phase", "bfinal", "litBlockLength", "writeOverflowLits", "writeOverflowLen",
      "copyOverflowLength", "copyOverflowDistance", "headerBuffered", "roffset"].all
      (assignedBy "compress/flate" "*inflate.reset").contains) = true := by
  decide

end Fastgo.Reader

#print axioms Fastgo.Reader.C13_reset_state
#print axioms Fastgo.Reader.C13_reset_fresh
#print axioms Fastgo.Reader.C13_reset_fields_complete
