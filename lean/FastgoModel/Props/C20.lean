import FastgoModel.Props.C01
/-!
# C20 — compression is effective (bounded expansion, repeats found): what is proved and what is measured

The two numeric bounds of C20 (output ≤ n + n/32 + 256; periodic input ≤ n/32 + 1200) are statements about the
QUALITY of the leaf algorithms: how close the length-limited Huffman code is to the entropy of the block, how
compactly the header run-length coder writes the code lengths, and how often the 16-bit hash table still holds
the previous occurrence. They are measured on the implementation at every acceleration level by the oracle
(adversarial distributions for expansion; all periods 1..64 for effectiveness) and NOT proved here: a proof
would need executable models of moffat.go / len_limited.go / header.go / the hash function together with an
optimality argument — `C20_partial`, see DESIGN.md.

What the control model does settle, for every input and every split over Write calls (unbounded):

* `C20_no_hidden_overhead` — after Close the destination holds exactly the bits of the blocks, in order, plus
  fewer than 8 padding bits: `8 · len(output) = Σ |block_i| + pad`, `pad < 8`. No per-Write bytes, no marker that
  is not a block, nothing buffered and lost: the output size IS the sum of what the block encoder produced;
* the blocks partition the data (C01: they decode to exactly the input), so a per-block leaf bound
  `|block| ≤ f(bytes represented)` adds up over the stream.
-/
namespace Fastgo.Writer
open Fastgo.Spec
variable {MF Tok : Type}

theorem C20_no_hidden_overhead (L : DynLeaves MF Tok) {mode : Mode} (S : Sound L mode) (c : Cfg) (hw : 0 < c.window)
    (dst : Dst) (hh : dst.Healthy) (hd : dst.got = []) (ops : List Op) (hops : ∀ op ∈ ops, op.keepsOpen)
    (hok : ∀ r ∈ (run L c (WState.init L dst) ops).2, r.err = none) :
    ∃ (n q : Nat) (E B rest : Bits),
      Chain mode n 0 E #[] ((dataAfterAll [] ops (run L c (WState.init L dst) ops).2).take q) ∧
      IsBlock mode E.length B true ((dataAfterAll [] ops (run L c (WState.init L dst) ops).2).take q).toArray
        ((dataAfterAll [] ops (run L c (WState.init L dst) ops).2).drop q) ∧
      8 * (close L c (run L c (WState.init L dst) ops).1).1.dst.bytes.length = E.length + B.length + rest.length ∧
      rest.length < 8 := by
  have ht := run_tracks L S c hw ops [] (WState.init L dst) (tracks_init L S dst hh hd) hops hok
  obtain ⟨_, _, ⟨n, q, E, B, rest, hc, hb, hbytes, hl, _⟩, _⟩ := close_tracks L S c _ _ ht
  refine ⟨n, q, E, B, rest, hc, hb, ?_, hl⟩
  rw [body_zero] at hbytes
  have := congrArg List.length hbytes
  simp only [bytesToBits_length, List.length_append] at this
  omega

/-! Non-vacuity: the 300-byte history of C10's example: 3 blocks + final block; the accounting identity computed. -/
def exOut : List UInt8 := (close fixLeaves toyCfg exRun.1).1.dst.bytes

example : exOut.length = 325 ∧ 8 * exOut.length = (bytesToBits exOut).length := by
  decide +kernel

end Fastgo.Writer

#print axioms Fastgo.Writer.C20_no_hidden_overhead
