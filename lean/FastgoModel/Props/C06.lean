import FastgoModel.Proofs.GzipHeader
import FastgoModel.Proofs.ZlibHeader
import FastgoModel.Container.Digest
import FastgoModel.Container.Members
import FastgoModel.Proofs.WriterWrap
import FastgoModel.Proofs.StreamFrame
import FastgoModel.Proofs.RoundTrip
/-!
# C06 — gzip and zlib containers round-trip and interoperate

Models: `Container/Gzip.lean` (gzip.go writeHeader / ungzip.go readHeader), `Container/Zlib.lean`
(writer.go writeHeader / reader.go Reset), `Container/Digest.lean` (running CRC-32 / size / Adler-32).

* `C06_gzip_header_roundtrip` : for EVERY representable header (Latin-1 name/comment without NUL of at most 511
  bytes, extra field of at most 65535 bytes present-or-absent, MTIME < 2^32, any OS byte) and every level, the
  Reader parses exactly the header the Writer emitted, and is positioned exactly after it;
* `C06_gzip_trailer` : whatever the partition of the payload into Write calls, the 8 bytes written by Close are
  CRC-32 then length mod 2^32 of the concatenated payload, little-endian;
* `C06_zlib_header_roundtrip`, `C06_zlib_trailer` : CMF/FLG with FCHECK (multiple of 31), FDICT + DICTID
  (Adler-32 of the dictionary), accepted by the Reader for every level / dictionary; trailer = Adler-32, big-endian;
* `C06_gzip_member_reads_back` : a whole member (header, DEFLATE body, trailer) is read back as (header, payload)
  with the source left exactly after it — given an inflater exact on the body (C01/C02/C05).

Both ends are the SAME format definitions, so fastgo→stdlib and stdlib→fastgo interoperability reduces to both
implementations matching these definitions: validated on every run in both directions by the harness (fields,
payload, trailer bytes). hash/crc32 and hash/adler32 are validated against Spec/Checksum.lean (K cases).
-/
namespace Fastgo.Container
open Fastgo.Spec

theorem C06_gzip_header_roundtrip (h : GzHeader) (hwf : h.WF) (level : Int) (rest : List UInt8) :
    parseHeader (emitHeader h level ++ rest) = .ok h rest := gzip_header_roundtrip h hwf level rest

theorem C06_gzip_trailer (writes : List (List UInt8)) :
    (writes.foldl GzSum.update {}).trailer = emitTrailer writes.flatten := gz_writer_sum writes

theorem C06_zlib_header_roundtrip (level : Int) (dict : Option (List UInt8)) (rest : List UInt8) :
    parseZHeader dict (emitZHeader level dict ++ rest) = .ok dict.isSome rest := zlib_header_roundtrip level dict rest

theorem C06_zlib_header_fcheck (level : Int) (d : Bool) : (0x78 * 256 + flgByte level d) % 31 = 0 :=
  (flgByte_spec level d).2.1

theorem C06_zlib_trailer (writes : List (List UInt8)) :
    be (adlerValue (writes.foldl adlerUpdate (1, 0))) 4 = emitZTrailer writes.flatten := by
  rw [z_writer_sum]; rfl

theorem C06_gzip_member_reads_back (I : Inflater) (h : GzHeader) (hwf : h.WF) (level : Int)
    (body payload rest : List UInt8) (hI : I.Exact body payload) :
    readOneMember I (gzMember h level body payload ++ rest) = some (h, payload, rest) :=
  readOneMember_member I h hwf level body payload rest hI

/-- what a gzip Writer has put on the destination once Close has returned nil, for ANY accepted history of
    Write / Flush / Reset calls: the header of the current member, one complete DEFLATE stream that the
    specification inflater decodes to exactly the data written, and the CRC-32 / length trailer of that data.
    (Writer control model `Container/WriterWrap.lean`, tied by the `GW` correspondence; inner Writer under its
    stream contract, see C10.) Together with `C06_gzip_header_roundtrip` and `C06_gzip_member_reads_back` this is
    the whole member as a reader sees it. -/
theorem C06_gzip_writer_emits_member {ι : Type} (O : CWriter.InnerOps ι) {mode : Mode} (C : CWriter.InnerStream O mode)
    (i : ι) (level : Int) (h : GzHeader) (hf : C.Fresh i) (hh : (O.dst i).Healthy) (hg : (O.dst i).got = [])
    (ops : List Writer.Op) (ha : CWriter.allAccepted ops (CWriter.gRun O (CWriter.GW.init i level h) ops).2) :
    (CWriter.gClose O (CWriter.gRun O (CWriter.GW.init i level h) ops).1).2.err = none ∧
    ∃ bodyBytes st rest, (O.dst (CWriter.gClose O (CWriter.gRun O (CWriter.GW.init i level h) ops).1).1.inner).bytes =
        emitHeader (CWriter.hdrOf h ops) level ++ bodyBytes ++ emitTrailer (CWriter.dataOf [] ops) ∧
      inflate mode [] bodyBytes = .done (CWriter.dataOf [] ops).toArray rest st ∧ rest.length < 8 :=
  CWriter.gzip_close_stream O C i level h hf hh hg ops ha

theorem C06_zlib_writer_emits_stream {ι : Type} (O : CWriter.InnerOps ι) {mode : Mode} (C : CWriter.InnerStream O mode)
    (i : ι) (level : Int) (hf : C.Fresh i) (hh : (O.dst i).Healthy) (hg : (O.dst i).got = [])
    (ops : List Writer.Op) (ha : CWriter.allAccepted ops (CWriter.zRun O (CWriter.ZW.init i level) ops).2) :
    (CWriter.zClose O (CWriter.zRun O (CWriter.ZW.init i level) ops).1).2.err = none ∧
    ∃ bodyBytes st rest, (O.dst (CWriter.zClose O (CWriter.zRun O (CWriter.ZW.init i level) ops).1).1.inner).bytes =
        emitZHeader level none ++ bodyBytes ++ emitZTrailer (CWriter.dataOf [] ops) ∧
      inflate mode [] bodyBytes = .done (CWriter.dataOf [] ops).toArray rest st ∧ rest.length < 8 :=
  CWriter.zlib_close_stream O C i level hf hh hg ops ha

/-! Non-vacuity: a header using every optional field. -/
example : ({ extra := some [9, 9], name := [0x66, 0xe9], comment := [0x63], mtime := 1700000000, os := 3 } : GzHeader).WF := by
  simp [GzHeader.WF]

example : parseHeader (emitHeader { extra := some [], name := [0x66], mtime := 5 } 9 ++ [1, 2]) =
    .ok { extra := some [], name := [0x66], mtime := 5 } [1, 2] :=
  C06_gzip_header_roundtrip _ (by simp [GzHeader.WF]) 9 [1, 2]

/-- `C06_gzip_member_reads_back` with the abstract inflater replaced by the SPECIFICATION inflater: a gzip member whose
    DEFLATE body passes the executable check `checkStream` is read back — header fields, payload, source left exactly
    behind the trailer — whatever follows it. No inflater contract is assumed. -/
theorem C06_gzip_member_reads_back_spec (mode : Spec.Mode) (h : GzHeader) (hwf : h.WF) (level : Int) (body rest : List UInt8)
    (hc : Spec.checkStream mode body = true) :
    ∃ payload, specInflater mode body = some (payload, []) ∧
      readOneMember (specInflater mode) (gzMember h level body payload ++ rest) = some (h, payload, rest) :=
  gzip_member_reads_back_spec mode h hwf level body rest hc

/-- the zlib counterpart: header, checked body, Adler-32 trailer, then anything — the Reader model over the specification
    inflater yields the payload and leaves exactly what follows the trailer -/
theorem C06_zlib_stream_reads_back_spec (mode : Spec.Mode) (level : Int) (body rest : List UInt8)
    (hc : Spec.checkStream mode body = true) :
    ∃ payload, specInflater mode body = some (payload, []) ∧
      readZlib (specInflater mode) (emitZHeader level none ++ (body ++ (emitZTrailer payload ++ rest))) = some (payload, rest) :=
  zlib_stream_reads_back_spec mode level body rest hc

/-- **gzip round trip inside the model, no inflater hypothesis**: for ANY accepted history of Write / Flush / Reset calls on
    the gzip Writer model (inner Writer under its stream contract), Close succeeds and the bytes on the destination, followed
    by ANY bytes, are read back by the gzip Reader model over the SPECIFICATION inflater as exactly: the header fields in
    effect, the data written, and those following bytes untouched. -/
theorem C06_gzip_roundtrip_model {ι : Type} (O : CWriter.InnerOps ι) {mode : Mode} (C : CWriter.InnerStream O mode)
    (i : ι) (level : Int) (h : GzHeader) (hf : C.Fresh i) (hh : (O.dst i).Healthy) (hg : (O.dst i).got = [])
    (ops : List Writer.Op) (ha : CWriter.allAccepted ops (CWriter.gRun O (CWriter.GW.init i level h) ops).2)
    (hwf : (CWriter.hdrOf h ops).WF) (after : List UInt8) :
    (CWriter.gClose O (CWriter.gRun O (CWriter.GW.init i level h) ops).1).2.err = none ∧
    readOneMember (specInflater mode)
        ((O.dst (CWriter.gClose O (CWriter.gRun O (CWriter.GW.init i level h) ops).1).1.inner).bytes ++ after) =
      some (CWriter.hdrOf h ops, CWriter.dataOf [] ops, after) :=
  CWriter.gzip_roundtrip_model O C i level h hf hh hg ops ha hwf after

/-- the zlib counterpart -/
theorem C06_zlib_roundtrip_model {ι : Type} (O : CWriter.InnerOps ι) {mode : Mode} (C : CWriter.InnerStream O mode)
    (i : ι) (level : Int) (hf : C.Fresh i) (hh : (O.dst i).Healthy) (hg : (O.dst i).got = [])
    (ops : List Writer.Op) (ha : CWriter.allAccepted ops (CWriter.zRun O (CWriter.ZW.init i level) ops).2) (after : List UInt8) :
    (CWriter.zClose O (CWriter.zRun O (CWriter.ZW.init i level) ops).1).2.err = none ∧
    readZlib (specInflater mode)
        ((O.dst (CWriter.zClose O (CWriter.zRun O (CWriter.ZW.init i level) ops).1).1.inner).bytes ++ after) =
      some (CWriter.dataOf [] ops, after) :=
  CWriter.zlib_roundtrip_model O C i level hf hh hg ops ha after

end Fastgo.Container

#print axioms Fastgo.Container.C06_gzip_header_roundtrip
#print axioms Fastgo.Container.C06_gzip_trailer
#print axioms Fastgo.Container.C06_zlib_header_roundtrip
#print axioms Fastgo.Container.C06_zlib_header_fcheck
#print axioms Fastgo.Container.C06_zlib_trailer
#print axioms Fastgo.Container.C06_gzip_member_reads_back
#print axioms Fastgo.Container.C06_gzip_member_reads_back_spec
#print axioms Fastgo.Container.C06_zlib_stream_reads_back_spec
#print axioms Fastgo.Container.C06_gzip_roundtrip_model
#print axioms Fastgo.Container.C06_zlib_roundtrip_model
#print axioms Fastgo.Container.C06_gzip_writer_emits_member
#print axioms Fastgo.Container.C06_zlib_writer_emits_stream
