import FastgoModel.Proofs.WriterControl
import FastgoModel.Writer.Example
import FastgoModel.Proofs.WriterWrap
/-!
# C14 — a failing destination is reported, sticks, and never leads to a bad state

Model: `Fastgo.Writer` (writer.go, dynamic.go control flow; leaves abstract). The destination is an
arbitrary failure pattern `fail : Nat → Bool` over its call index — persistent, one-shot, anything.

* `C14_reported`  : an operation that returns nil made only successful destination calls
                    (contrapositive: if any destination call made during the operation fails, the operation
                    returns the error);
* `C14_sticky`    : once an operation has failed, every later Write/Flush/Close (until Reset) returns the
                    error, leaves the whole Writer state unchanged and performs NO destination call;
* `C14_failure_recorded` : a failing operation on an open Writer leaves it in the failed state.

The converse clause of the property ("if every call returned nil the destination holds a complete valid
stream") is C01/C16 (`first-close-stream`) and is not restated here. Memory safety of the unsafe stores is
outside the model (observed by the harness: recovered panics / crashes).
-/
namespace Fastgo.Writer
variable {MF Tok : Type}

theorem C14_reported (L : DynLeaves MF Tok) (c : Cfg) (w : WState MF Tok) (op : Op) (hop : op.isReset = false)
    (hok : (step L c w op).2.err = none) : NoFail w.dst (step L c w op).1.dst := by
  cases op with
  | write data => exact write_ok_noFail L c w data hok
  | flush => exact flush_ok_noFail L c w hok
  | close => exact close_ok_noFail L c w hok
  | reset d => simp [Op.isReset] at hop

theorem C14_failure_recorded (L : DynLeaves MF Tok) (c : Cfg) (w : WState MF Tok) (op : Op)
    (hopen : w.err = none) (hop : op.isReset = false) (hfail : (step L c w op).2.err ≠ none) :
    (step L c w op).2.err = some .injected ∧ absState (step L c w op).1 = .failed := by
  cases op with
  | write data =>
    rcases write_open L c w data hopen with ⟨h1, _⟩ | h
    · exact absurd h1 hfail
    · exact h
  | flush =>
    rcases flush_open L c w hopen with ⟨h1, _⟩ | h
    · exact absurd h1 hfail
    · exact h
  | close =>
    rcases close_open L c w hopen with ⟨h1, _⟩ | h
    · exact absurd h1 hfail
    · exact h
  | reset d => simp [Op.isReset] at hop

theorem C14_sticky (L : DynLeaves MF Tok) (c : Cfg) (w : WState MF Tok) (hfailed : w.err = some .injected)
    (ops : List Op) (hnr : ∀ op ∈ ops, op.isReset = false) :
    (run L c w ops).1 = w ∧ (run L c w ops).1.dst.calls = w.dst.calls ∧
    ∀ r ∈ (run L c w ops).2, r.err = some .injected := by
  rw [run_failed L c w hfailed ops hnr]
  refine ⟨rfl, rfl, ?_⟩
  intro r hr
  simp only [List.mem_map] at hr
  obtain ⟨_, _, rfl⟩ := hr
  rfl

/-- after Reset the Writer is open again -/
theorem C14_reset_clears (L : DynLeaves MF Tok) (w : WState MF Tok) (dst : Dst) : (reset L w dst).err = none := rfl

/-! Non-vacuity: on the toy leaves, 30 bytes then Flush with a destination that fails at its 2nd call:
    Flush reports the error, the later Write and Close report it too, and the destination saw 2 calls. -/
example :
    let ops := [Op.write (List.replicate 30 7), Op.flush, Op.write [1, 2, 3], Op.close]
    let r := run toyLeaves toyCfg (WState.init toyLeaves (failAt 1)) ops
    r.2.map (·.err) = [none, some .injected, some .injected, some .injected] ∧ r.1.dst.calls = 2 := by
  decide

/-- the container Writers (control models `Container/WriterWrap.lean`, tied by ZW / GW), for ANY inner Writer: once
    an error is stored every call returns it, leaves the state and therefore the destination untouched. For
    zlib the header step runs before the error check, so the statement needs the invariant "a stored error
    implies the header step has been taken", which every operation establishes (`C14_zlib_invariant`). -/
theorem C14_gzip_sticky {ι : Type} (O : CWriter.InnerOps ι) (z : CWriter.GW ι) (e : Err) (he : z.err = some e) :
    (∀ p, CWriter.gWrite O z p = (z, { n := 0, err := some e })) ∧ CWriter.gFlush O z = (z, { err := some e }) ∧
    CWriter.gClose O z = (z, { err := some e }) := CWriter.gzip_sticky O z e he

theorem C14_zlib_sticky {ι : Type} (O : CWriter.InnerOps ι) (z : CWriter.ZW ι) (e : Err) (he : z.err = some e)
    (hi : CWriter.ZErrInv z) :
    (∀ p, CWriter.zWrite O z p = (z, { n := 0, err := some e })) ∧ CWriter.zFlush O z = (z, { err := some e }) ∧
    CWriter.zClose O z = (z, { err := some e }) := CWriter.zlib_sticky O z e he hi

theorem C14_zlib_invariant {ι : Type} (O : CWriter.InnerOps ι) (z : CWriter.ZW ι) (op : Op) :
    CWriter.ZErrInv (CWriter.zStep O z op).1 := CWriter.zStep_errInv O z op

end Fastgo.Writer

#print axioms Fastgo.Writer.C14_gzip_sticky
#print axioms Fastgo.Writer.C14_zlib_sticky
#print axioms Fastgo.Writer.C14_zlib_invariant
#print axioms Fastgo.Writer.C14_reported
#print axioms Fastgo.Writer.C14_failure_recorded
#print axioms Fastgo.Writer.C14_sticky
#print axioms Fastgo.Writer.C14_reset_clears
