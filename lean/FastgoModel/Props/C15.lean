import FastgoModel.Proofs.ReaderProps
import FastgoModel.Reader.Example
/-!
# C15 — a failing source is reported as such and never as success or corruption

* `C15_error_is_the_sources` : the only way `step` returns a source error is Peek reporting it, and Peek only
  reports errors the source produced (`peek_err_origin`): the value reaches the caller unchanged — it is never
  turned into io.EOF, io.ErrUnexpectedEOF or a CorruptInputError (those come from the decoder run only:
  `stepErr_not_src`), and only when every byte delivered before it has been handed to the decoder;
* `C15_sticky` : once stored and the pending output drained, every further Read returns that same error, no data,
  and changes nothing;
* prefix-correctness of what was delivered before the error is the decoder's soundness (C03).
gzip/zlib wrap this Reader and convert only io.EOF inside their header/trailer reads (C07 model); validated per
run with faults at every byte position, alone or together with data, for three error values including one that
wraps io.EOF.
-/
namespace Fastgo.Reader
variable {δ : Type}

theorem C15_error_is_the_sources (D : Decoder δ) (S : List UInt8) (r r' : RState δ) (hi : Inv S r) (e : SErr)
    (h : step D r = (r', .err (some (.src e)))) :
    (∃ id, e = .fail id) ∧ r'.fed.length = r'.gone.length + r'.bio.buf.length ∧ r'.pending = r.pending :=
  ⟨(step_source_error D S r r' hi e h).1, (step_source_error D S r r' hi e h).2.2.1, (step_source_error D S r r' hi e h).2.2.2⟩

theorem C15_decoder_errors_are_not_source_errors (o : DecOut δ) (eof : Bool) (e : SErr) :
    stepErr o eof ≠ some (.src e) := stepErr_not_src o eof e

theorem C15_peek_reports_source_errors_only (n fuel : Nat) (b b1 : Bufio) (e : SErr) (f : Bool)
    (h : Bufio.peek n fuel b = .got b1 (some e) f) : b.err = some e ∨ ∃ c ∈ b.src, c.err = some e :=
  peek_err_origin n fuel b b1 e f h

theorem C15_sticky (D : Decoder δ) (fuel : Nat) (r : RState δ) (want : Nat) (e : RE)
    (he : r.err = some e) (hp : r.pending = []) : read D (fuel + 1) r want = (r, .data [] (some e)) :=
  read_sticky D fuel r want e he hp

/-! Non-vacuity: the source fails with error 7 after [1,2,3] (no end marker yet): the data comes first, then
    exactly that error, again and again. -/
example :
    let bio : Bufio := { size := 16, src := [{ bytes := [1, 2, 3] }, { bytes := [], err := some (.fail 7) }] }
    (readMany toyDecoder 20 (RState.init toyDecoder bio) [8, 8, 8]).2 =
      [.data [1, 2, 3] none, .data [] (some (.src (.fail 7))), .data [] (some (.src (.fail 7)))] := by
  decide

end Fastgo.Reader

#print axioms Fastgo.Reader.C15_error_is_the_sources
#print axioms Fastgo.Reader.C15_decoder_errors_are_not_source_errors
#print axioms Fastgo.Reader.C15_peek_reports_source_errors_only
#print axioms Fastgo.Reader.C15_sticky
