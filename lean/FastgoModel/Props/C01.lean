import FastgoModel.Props.C10
import FastgoModel.Proofs.TokenCheck
import FastgoModel.Proofs.BlockHistory
import FastgoModel.Proofs.FrameUncond
/-!
# C01 — compress then decompress returns the input, for every call pattern

Model and leaf contracts: as for C10 (`Writer.Control`, `Sound`).

`C01_roundtrip_dyn` (unbounded: any data, any split over Write and Flush calls, Reset onto a fresh destination
in between, any number of buffer roll-overs and window slides): when Close is called on a Writer all of whose
calls so far returned nil, Close returns nil, and the bytes the destination holds are ONE COMPLETE RFC 1951
stream for exactly the data accepted since the stream began: the specification inflater returns `done` with
that data, and what is left over after the final block is fewer than 8 zero bits (the padding to the byte
boundary) — nothing is missing and nothing follows.

`C01_empty`: Close straight after NewWriter/Reset yields a valid stream of no data (the final empty stored block).

`C01_roundtrip_huff`: the same for the Huffman-only compressor (level -2) under `HSound`.

`C01_checked_call_meets_contract` (= `checkGen_gives_gen`): a match-finder call that passes the executable check
`checkGen` — which the `G` correspondence applies to recorded calls of the Go and assembly match finders at every
acceleration level — satisfies the equation of `Sound.gen` for that call, with `resolve := resolveR` (real tokens
executed the way an inflater executes them; `resolveR_nil`, `resolveR_app` are the two laws `Sound` asks of it), for
ANY history in front of the buffer. So `Sound.gen` is not only assumed: it is checked call by call with a proved check.

`C01_block_frame` (= `inflateBlock_frame`): the specification inflater is prefix-stable — a block that decodes completely on
its own bits (its declared Huffman codes being prefix-free, a decidable condition) decodes to the same output
whatever bits follow it and whatever was decoded before it statistics-wise. `C01_checked_block_meets_contract`
(= `checkEnc_gives_enc`): a call of a block encoder that passes the executable check `checkEnc` — which the `E`
correspondence applies to EVERY block the real encoders emit (Huffman code generation, dynamic header, token / byte
packing in Go, AVX2 or AVX-512, bit buffer; dynamic and Huffman-only compressor; every acceleration level) — satisfies
the `enc` clause of `Sound` / `HSound` for that call, for ANY output `p` in front of the history suffix `h` the check was
given (`C01_block_history_local`: the harness hands the check the last 32 KiB of the data encoded so far). So both halves of the leaf contract are checked call by call
with proved checks; what remains assumed is only that the calls the harness did not generate behave like the ones it did.

Scope of the theorems: the dynamic compressor (levels 1, 2, default; both windows — `Cfg.window` is a parameter)
given leaves that meet `Sound`, and the Huffman-only compressor given a block encoder that meets `HSound`. Decided by the harness oracle only (see evidence): that the Go/assembly leaves
meet `Sound` / `HSound` at every acceleration level, the levels delegated to compress/flate,
preset dictionaries (delegated), and the agreement of compress/flate, the reference inflater and fastgo's own
Reader on the emitted bytes (the `I` and `R` correspondences tie those to the same specification inflater).
-/
namespace Fastgo.Writer
open Fastgo.Spec
variable {MF Tok : Type}

theorem C01_roundtrip_dyn (L : DynLeaves MF Tok) {mode : Mode} (S : Sound L mode) (c : Cfg) (hw : 0 < c.window)
    (dst : Dst) (hh : dst.Healthy) (hd : dst.got = []) (ops : List Op) (hops : ∀ op ∈ ops, op.keepsOpen)
    (hok : ∀ r ∈ (run L c (WState.init L dst) ops).2, r.err = none) :
    (close L c (run L c (WState.init L dst) ops).1).2.err = none ∧
    ∃ st rest, inflate mode [] (close L c (run L c (WState.init L dst) ops).1).1.dst.bytes =
      .done (dataAfterAll [] ops (run L c (WState.init L dst) ops).2).toArray rest st ∧
      rest.length < 8 ∧ ∀ b ∈ rest, b = false := by
  have ht := run_tracks L S c hw ops [] (WState.init L dst) (tracks_init L S dst hh hd) hops hok
  obtain ⟨c1, _, c3, _⟩ := close_tracks L S c _ _ ht
  exact ⟨c1, closedStream_inflate c3⟩

/-- the same stream followed by ANY bytes (a trailer, another member, a caller's data): the specification inflater still
    yields exactly the data and leaves exactly those bytes (`inflate_prefix_stable`) — compress-then-decompress does not
    depend on what comes after the stream -/
theorem C01_roundtrip_dyn_then_anything (L : DynLeaves MF Tok) {mode : Mode} (S : Sound L mode) (c : Cfg) (hw : 0 < c.window)
    (dst : Dst) (hh : dst.Healthy) (hd : dst.got = []) (ops : List Op) (hops : ∀ op ∈ ops, op.keepsOpen)
    (hok : ∀ r ∈ (run L c (WState.init L dst) ops).2, r.err = none) (after : List UInt8) :
    Container.specInflater mode ((close L c (run L c (WState.init L dst) ops).1).1.dst.bytes ++ after) =
      some (dataAfterAll [] ops (run L c (WState.init L dst) ops).2, after) := by
  obtain ⟨_, st, rest, hinf, hr, _⟩ := C01_roundtrip_dyn L S c hw dst hh hd ops hops hok
  have := Container.specInflater_exact_of_done mode _ _ rest st hinf hr after
  simpa using this

theorem C01_empty (L : DynLeaves MF Tok) {mode : Mode} (S : Sound L mode) (c : Cfg)
    (dst : Dst) (hh : dst.Healthy) (hd : dst.got = []) :
    ∃ st rest, inflate mode [] (close L c (WState.init L dst)).1.dst.bytes = .done #[] rest st := by
  obtain ⟨_, _, c3, _⟩ := close_tracks L S c _ _ (tracks_init L S dst hh hd)
  obtain ⟨st, rest, h, _⟩ := closedStream_inflate c3
  exact ⟨st, rest, h⟩

theorem C01_roundtrip_huff {σ : Type} (L : HuffLeaf σ) {mode : Mode} (S : HSound L mode) (max : Nat)
    (dst : Dst) (hh : dst.Healthy) (hd : dst.got = []) (ops : List Op) (hops : ∀ op ∈ ops, op.keepsOpen)
    (hok : ∀ r ∈ (hRun L max (HState.init L dst) ops).2, r.err = none) :
    (hClose L (hRun L max (HState.init L dst) ops).1).2.err = none ∧
    ∃ st rest, inflate mode [] (hClose L (hRun L max (HState.init L dst) ops).1).1.dst.bytes =
      .done (dataAfterAll [] ops (hRun L max (HState.init L dst) ops).2).toArray rest st ∧
      rest.length < 8 ∧ ∀ b ∈ rest, b = false := by
  have ht := hRun_tracks L S max ops [] (HState.init L dst) ⟨rfl, hinv_init mode L.init dst hh hd⟩ hops hok
  obtain ⟨c1, _, c3, _⟩ := hClose_tracks L S _ _ ht
  exact ⟨c1, closedStream_inflate c3⟩

theorem C01_checked_call_meets_contract (window : Nat) (pre buf : List UInt8) (idx nIdx : Nat) (toks : List RTok)
    (hn : nIdx ≤ buf.length) (hc : checkGen window buf.toArray nIdx idx toks = true) :
    resolveR (pre ++ buf.take idx) toks = (buf.drop idx).take (nIdx - idx) ∧ idx ≤ nIdx ∧
    ∀ t ∈ toks, t.inWindow window :=
  checkGen_gives_gen window pre buf idx nIdx toks hn hc

theorem C01_block_frame (mode : Mode) (pos : Nat) (B : Bits) (h : Array UInt8) (st : Stats)
    (final : Bool) (o : Array UInt8) (r : Bits) (s : Stats) (hpf : blockCodesPF mode B = true)
    (hb : inflateBlock mode pos B h st = .next final o r s) (t : Bits) (st' : Stats) :
    ∃ s', inflateBlock mode pos (B ++ t) h st' = .next final o (r ++ t) s' :=
  inflateBlock_frame mode pos B h st final o r s hpf hb t st'

/-- the same without side condition: every code a block accepted by the specification declares passed `lensOK`, and
    RFC 1951's canonical code for such lengths is prefix-free (`canonical_prefixFree_of_lensOK`, Proofs/CanonicalPF.lean) -/
theorem C01_block_prefix_stable (mode : Mode) (pos : Nat) (B : Bits) (h : Array UInt8) (st : Stats)
    (final : Bool) (o : Array UInt8) (r : Bits) (s : Stats)
    (hb : inflateBlock mode pos B h st = .next final o r s) (t : Bits) (st' : Stats) :
    ∃ s', inflateBlock mode pos (B ++ t) h st' = .next final o (r ++ t) s' :=
  inflateBlock_prefix_stable mode pos B h st final o r s hb t st'

theorem C01_canonical_code_prefix_free (mode : Mode) (lens : List Nat) (h : lensOK mode lens = true) :
    PrefixFree (canonical lens) :=
  canonical_prefixFree_of_lensOK mode lens h

theorem C01_checked_block_meets_contract (mode : Mode) (pos : Nat) (carry : Bits) (out : List UInt8) (carry' : Bits)
    (final : Bool) (p h : Array UInt8) (x : List UInt8) (hc : checkEnc mode pos carry out carry' final h x = true) :
    ∃ B, IsBlock mode pos B final (p ++ h) x ∧
      (final = false → bytesToBits out ++ carry' = carry ++ B) ∧
      (final = true → carry' = [] ∧
        bytesToBits out = carry ++ B ++ List.replicate (padLen (carry ++ B).length) false) :=
  checkEnc_gives_enc_suffix mode pos carry out carry' final p h x hc

/-- blocks are local in the history: what precedes the part of the output a block can refer to does not matter -/
theorem C01_block_history_local {mode : Mode} {pos : Nat} {B : Bits} {final : Bool} {h : Array UInt8} {x : List UInt8}
    (hb : IsBlock mode pos B final h x) (p : Array UInt8) : IsBlock mode pos B final (p ++ h) x :=
  hb.extend_history p

/-- every accepted Write reports the full length on a healthy destination unless it stopped for lack of
    progress — the data the theorem speaks about is what the caller was told was accepted -/
theorem C01_data_is_what_was_accepted (D : List UInt8) (data : List UInt8) (r : OpRes) (h : r.n = data.length) :
    dataAfter D (.write data) r = D ++ data := by
  simp [dataAfter, h]

/-! Non-vacuity (sound instance `fixLeaves`, window 8): the 300-byte history of C10's example satisfies the
    hypotheses; the conclusion is computed independently on the short history. -/
def isDoneWith (r : Result) (D : List UInt8) : Bool :=
  match r with
  | .done out rest _ => out.toList == D && rest.length < 8 && rest.all (· == false)
  | _ => false

example : (close fixLeaves toyCfg exRun.1).2.err = none ∧ (close fixLeaves toyCfg exRun.1).1.dst.calls = 4 := by
  decide +kernel

example :
    isDoneWith (inflate .strict [] (close fixLeaves toyCfg exShort.1).1.dst.bytes) (exData.take 17) = true ∧
    isDoneWith (inflate .strict [] (close fixLeaves toyCfg (WState.init fixLeaves healthy)).1.dst.bytes) [] = true := by
  decide +kernel

example :
    isDoneWith (inflate .strict [] (hClose fixHuff exHuff.1).1.dst.bytes) (exData.take 37) = true := by
  decide +kernel

/-! Non-vacuity of the block check: the bytes fastgo itself emits (level 1, `Write("abcabcabcabc"); Close()`, one final
    dynamic block with a back-reference; level -2, `Write("hello"); Close()`) pass `checkEnc` — evaluated by the kernel. -/
def realDyn : List UInt8 := [0x35,0xc2,0x31,0x0d,0x00,0x00,0x00,0x83,0x30,0xad,0x1b,0xfe,0x3d,0x70,0x91,0x74,0x27,0x08]
def realHuff : List UInt8 := [0x05,0xc0,0xb1,0x09,0x00,0x00,0x00,0x83,0xb0,0x6b,0x0b,0x1d,0x04,0xff,0xdf,0xcc,0x07,0x06]

example : checkEnc .strict 0 [] realDyn [] true #[] "abcabcabcabc".toUTF8.toList = true ∧
    checkEnc .strict 0 [] realHuff [] true #[] "hello".toUTF8.toList = true ∧
    checkEnc .strict 0 [] realHuff [] true #[] "hellp".toUTF8.toList = false := by
  decide +kernel

end Fastgo.Writer

#print axioms Fastgo.Writer.C01_block_frame
#print axioms Fastgo.Writer.C01_block_prefix_stable
#print axioms Fastgo.Writer.C01_canonical_code_prefix_free
#print axioms Fastgo.Writer.C01_checked_block_meets_contract
#print axioms Fastgo.Writer.C01_block_history_local
#print axioms Fastgo.Writer.C01_roundtrip_dyn
#print axioms Fastgo.Writer.C01_roundtrip_dyn_then_anything
#print axioms Fastgo.Writer.C01_empty
#print axioms Fastgo.Writer.C01_roundtrip_huff
#print axioms Fastgo.Writer.C01_checked_call_meets_contract
#print axioms Fastgo.Writer.resolveR_app
