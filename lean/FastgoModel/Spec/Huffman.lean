import FastgoModel.Spec.Bits
/-
  Canonical Huffman codes as RFC 1951 section 3.2.2 defines them, and decoding by first match.
-/
namespace Fastgo.Spec

/-- number of codes of length `l` (length 0 means "symbol not used") -/
def blCount (lens : List Nat) (l : Nat) : Nat := if l = 0 then 0 else lens.count l

/-- RFC `next_code[l]` before any code of length `l` has been handed out -/
def firstCode (lens : List Nat) : Nat → Nat
  | 0 => 0
  | l + 1 => (firstCode lens l + blCount lens l) * 2

/-- how many earlier symbols have the same length as symbol `i` -/
def rank (lens : List Nat) (i : Nat) : Nat := (lens.take i).count (lens.getD i 0)

/-- numeric code of symbol `i` -/
def codeOf (lens : List Nat) (i : Nat) : Nat := firstCode lens (lens.getD i 0) + rank lens i

/-- a code of `len` bits, most significant bit first (the order in which it is transmitted) -/
def codeBits (code len : Nat) : Bits := (natToBits code len).reverse

/-- the canonical code: (symbol, codeword) for every used symbol, in symbol order -/
def canonical (lens : List Nat) : List (Nat × Bits) :=
  (List.range lens.length).filterMap fun i =>
    if lens.getD i 0 = 0 then none else some (i, codeBits (codeOf lens i) (lens.getD i 0))

/-- Kraft sum scaled by 2^L -/
def kraft (lens : List Nat) (L : Nat) : Nat :=
  (lens.filter (· ≠ 0)).foldl (fun a l => a + 2 ^ (L - l)) 0

def usedCount (lens : List Nat) : Nat := (lens.filter (· ≠ 0)).length

/-- first-match decoding against an explicit code list -/
def decodeWith {α} : List (α × Bits) → Bits → Option (α × Bits)
  | [], _ => none
  | (s, cw) :: rest, bs =>
    if cw ≠ [] ∧ cw <+: bs then some (s, bs.drop cw.length) else decodeWith rest bs

def PrefixFree {α} (code : List (α × Bits)) : Prop :=
  ∀ a ∈ code, ∀ b ∈ code, a.2 ≠ [] → b.2 ≠ [] → a.2 <+: b.2 → a = b

/-- decoding what was encoded gives the symbol back and leaves exactly the rest -/
theorem decodeWith_encode {α} (code : List (α × Bits)) (hpf : PrefixFree code)
    (s : α) (cw : Bits) (hmem : (s, cw) ∈ code) (hne : cw ≠ []) (r : Bits) :
    decodeWith code (cw ++ r) = some (s, r) := by
  induction code with
  | nil => cases hmem
  | cons hd tl ih =>
    obtain ⟨s', cw'⟩ := hd
    unfold decodeWith
    by_cases hc : cw' ≠ [] ∧ cw' <+: cw ++ r
    · rw [if_pos hc]
      have hpre : cw' <+: cw ∨ cw <+: cw' :=
        List.prefix_or_prefix_of_prefix hc.2 (List.prefix_append cw r)
      have heq : (s', cw') = (s, cw) := by
        cases hpre with
        | inl h => exact hpf (s', cw') (List.mem_cons_self) (s, cw) hmem hc.1 hne h
        | inr h => exact (hpf (s, cw) hmem (s', cw') (List.mem_cons_self) hne hc.1 h).symm
      cases heq
      simp
    · rw [if_neg hc]
      have hmem' : (s, cw) ∈ tl := by
        cases hmem with
        | head => exact absurd ⟨hne, List.prefix_append cw r⟩ hc
        | tail _ h => exact h
      exact ih (fun a ha b hb => hpf a (List.mem_cons_of_mem _ ha) b (List.mem_cons_of_mem _ hb)) hmem'

/-- a successful decode consumed a non-empty codeword of the list -/
theorem decodeWith_some {α} (code : List (α × Bits)) (bs : Bits) (s : α) (r : Bits)
    (h : decodeWith code bs = some (s, r)) :
    ∃ cw, (s, cw) ∈ code ∧ cw ≠ [] ∧ bs = cw ++ r := by
  induction code with
  | nil => simp [decodeWith] at h
  | cons hd tl ih =>
    obtain ⟨s', cw'⟩ := hd
    unfold decodeWith at h
    by_cases hc : cw' ≠ [] ∧ cw' <+: bs
    · rw [if_pos hc] at h
      simp only [Option.some.injEq, Prod.mk.injEq] at h
      obtain ⟨t, ht⟩ := hc.2
      refine ⟨cw', ?_, hc.1, ?_⟩
      · rw [← h.1]; exact List.mem_cons_self
      · rw [← h.2, ← ht]; simp
    · rw [if_neg hc] at h
      obtain ⟨cw, hm, hne, he⟩ := ih h
      exact ⟨cw, List.mem_cons_of_mem _ hm, hne, he⟩

end Fastgo.Spec
