import FastgoModel.Spec.Huffman
/-
  Executable specification of RFC 1951 decoding. `strict` accepts exactly the code shapes that
  compress/flate accepts (complete codes, or one single code of length 1); `permissive` also accepts
  incomplete codes (an unassigned code is an error only when it is met).
-/
namespace Fastgo.Spec

inductive Mode | strict | permissive
  deriving DecidableEq, Repr

/-- statistics gathered while decoding (for the C19/C20 observations; no theorem depends on them) -/
structure Stats where
  blocks  : Nat := 0
  lits    : Nat := 0
  refs    : Nat := 0
  maxDist : Nat := 0
  stored  : Nat := 0
  fixed   : Nat := 0
  dynamic : Nat := 0
  deriving Repr

inductive Result
  | done (out : Array UInt8) (rest : Bits) (st : Stats)
  | needMore (out : Array UInt8) (rest : Bits) (st : Stats) (atBlockStart : Bool)
  | corrupt (out : Array UInt8) (rest : Bits) (st : Stats)

def lenBase : Array Nat := #[3,4,5,6,7,8,9,10,11,13,15,17,19,23,27,31,35,43,51,59,67,83,99,115,131,163,195,227,258]
def lenExtra : Array Nat := #[0,0,0,0,0,0,0,0,1,1,1,1,2,2,2,2,3,3,3,3,4,4,4,4,5,5,5,5,0]
def distBase : Array Nat := #[1,2,3,4,5,7,9,13,17,25,33,49,65,97,129,193,257,385,513,769,1025,1537,2049,3073,4097,6145,8193,12289,16385,24577]
def distExtra : Array Nat := #[0,0,0,0,1,1,2,2,3,3,4,4,5,5,6,6,7,7,8,8,9,9,10,10,11,11,12,12,13,13]
def clOrder : List Nat := [16,17,18,0,8,7,9,6,10,5,11,4,12,3,13,2,14,1,15]

def fixedLitLens : List Nat :=
  List.replicate 144 8 ++ List.replicate 112 9 ++ List.replicate 24 7 ++ List.replicate 8 8
def fixedDistLens : List Nat := List.replicate 30 5

/-- are these code lengths acceptable? -/
def lensOK (mode : Mode) (lens : List Nat) : Bool :=
  if lens.any (· > 15) then false
  else if kraft lens 15 > 2 ^ 15 then false
  else if usedCount lens = 0 then true
  else match mode with
    | .permissive => true
    | .strict => kraft lens 15 = 2 ^ 15 || (usedCount lens = 1 && lens.contains 1)

inductive SymRes
  | sym (s : Nat) (rest : Bits)
  | needMore
  | invalid

/-- one symbol: first match; if nothing matches, fewer than 15 bits left means "need more input" -/
def decodeSym (code : List (Nat × Bits)) (bs : Bits) : SymRes :=
  match decodeWith code bs with
  | some (s, r) => .sym s r
  | none => if bs.length < 15 then .needMore else .invalid

/-- append `len` bytes copied from `dist` back (byte by byte, so overlapping copies repeat) -/
def copyBack (out : Array UInt8) (dist : Nat) : Nat → Array UInt8
  | 0 => out
  | n + 1 => copyBack (out.push (out.getD (out.size - dist) 0)) dist n

inductive BodyRes
  | eob (out : Array UInt8) (rest : Bits) (st : Stats)
  | needMore (out : Array UInt8) (rest : Bits) (st : Stats)
  | corrupt (out : Array UInt8) (rest : Bits) (st : Stats)

inductive StepRes
  | cont (out : Array UInt8) (rest : Bits) (st : Stats)      -- one literal or one copy decoded
  | eob (out : Array UInt8) (rest : Bits) (st : Stats)
  | needMore (out : Array UInt8) (rest : Bits) (st : Stats)
  | corrupt (out : Array UInt8) (rest : Bits) (st : Stats)

/-- one symbol of a Huffman-coded block: a literal, the end-of-block code, or a length/distance pair -/
def bodyStep (lit dist : List (Nat × Bits)) (bs : Bits) (out : Array UInt8) (st : Stats) : StepRes :=
  match decodeSym lit bs with
  | .needMore => .needMore out bs st
  | .invalid => .corrupt out bs st
  | .sym s r =>
    if s < 256 then .cont (out.push (UInt8.ofNat s)) r { st with lits := st.lits + 1 }
    else if s = 256 then .eob out r st
    else if s > 285 then .corrupt out bs st
    else
      match takeField (lenExtra.getD (s - 257) 0) r with
      | none => .needMore out bs st
      | some (e, r1) =>
        let len := lenBase.getD (s - 257) 0 + e
        match decodeSym dist r1 with
        | .needMore => .needMore out bs st
        | .invalid => .corrupt out bs st
        | .sym ds r2 =>
          if ds > 29 then .corrupt out bs st
          else
            match takeField (distExtra.getD ds 0) r2 with
            | none => .needMore out bs st
            | some (de, r3) =>
              let d := distBase.getD ds 0 + de
              if d > out.size then .corrupt out bs st
              else .cont (copyBack out d len) r3 { st with refs := st.refs + 1, maxDist := max st.maxDist d }

/-- the symbols of one Huffman-coded block, up to and including end-of-block -/
def decodeBody (lit dist : List (Nat × Bits)) : Nat → Bits → Array UInt8 → Stats → BodyRes
  | 0, bs, out, st => .corrupt out bs st
  | fuel + 1, bs, out, st =>
    match bodyStep lit dist bs out st with
    | .cont o r s => decodeBody lit dist fuel r o s
    | .eob o r s => .eob o r s
    | .needMore o r s => .needMore o r s
    | .corrupt o r s => .corrupt o r s

inductive LensRes
  | ok (lens : List Nat) (rest : Bits)
  | needMore
  | corrupt

/-- the run-length coded code lengths of a dynamic header -/
def readLens (cl : List (Nat × Bits)) (total : Nat) : Nat → Bits → List Nat → LensRes
  | 0, _, _ => .corrupt
  | fuel + 1, bs, acc =>
    if acc.length ≥ total then .ok acc bs
    else
      match decodeSym cl bs with
      | .needMore => .needMore
      | .invalid => .corrupt
      | .sym s r =>
        if s < 16 then readLens cl total fuel r (acc ++ [s])
        else if s = 16 then
          match acc.getLast? with
          | none => .corrupt
          | some p =>
            match takeField 2 r with
            | none => .needMore
            | some (n, r1) =>
              if acc.length + (n + 3) > total then .corrupt
              else readLens cl total fuel r1 (acc ++ List.replicate (n + 3) p)
        else if s = 17 then
          match takeField 3 r with
          | none => .needMore
          | some (n, r1) =>
            if acc.length + (n + 3) > total then .corrupt
            else readLens cl total fuel r1 (acc ++ List.replicate (n + 3) 0)
        else
          match takeField 7 r with
          | none => .needMore
          | some (n, r1) =>
            if acc.length + (n + 11) > total then .corrupt
            else readLens cl total fuel r1 (acc ++ List.replicate (n + 11) 0)

/-- the 3-bit code-length-code lengths, in the RFC's permuted order -/
def readClLens : Nat → List Nat → Bits → List Nat → Option (List Nat × Bits)
  | 0, _, bs, acc => some (acc, bs)
  | _ + 1, [], bs, acc => some (acc, bs)
  | n + 1, o :: os, bs, acc =>
    match takeField 3 bs with
    | none => none
    | some (v, r) => readClLens n os r (acc.set o v)

inductive HdrRes
  | ok (lit dist : List Nat) (rest : Bits)
  | needMore
  | corrupt

def readDynHeader (mode : Mode) (bs : Bits) : HdrRes :=
  match takeField 5 bs with
  | none => .needMore
  | some (hlit, r1) =>
  match takeField 5 r1 with
  | none => .needMore
  | some (hdist, r2) =>
  match takeField 4 r2 with
  | none => .needMore
  | some (hclen, r3) =>
    if hlit + 257 > 286 || hdist + 1 > 30 then .corrupt
    else
      match readClLens (hclen + 4) clOrder r3 (List.replicate 19 0) with
      | none => .needMore
      | some (cl, r4) =>
        if !lensOK mode cl then .corrupt
        else
          match readLens (canonical cl) (hlit + 257 + (hdist + 1)) (hlit + 257 + (hdist + 1) + 1) r4 [] with
          | .needMore => .needMore
          | .corrupt => .corrupt
          | .ok lens r5 =>
            let ll := lens.take (hlit + 257)
            let dl := lens.drop (hlit + 257)
            if !lensOK mode ll || !lensOK mode dl then .corrupt
            else .ok ll dl r5

inductive BlockRes
  | next (final : Bool) (out : Array UInt8) (rest : Bits) (st : Stats)   -- one complete block decoded
  | needMore (out : Array UInt8) (rest : Bits) (st : Stats) (atBlockStart : Bool)
  | corrupt (out : Array UInt8) (rest : Bits) (st : Stats)

/-- the bytes of a stored block's payload -/
def bytesOfBits (bs : Bits) (n : Nat) : List UInt8 :=
  (List.range n).map fun i => UInt8.ofNat (bitsToNat ((bs.drop (8 * i)).take 8))

/-- one block. `pos` is the absolute bit position of `bs` in the stream (needed for the byte alignment of
    stored blocks). -/
def inflateBlock (mode : Mode) (pos : Nat) (bs : Bits) (out : Array UInt8) (st : Stats) : BlockRes :=
  match takeField 1 bs with
  | none => .needMore out bs st true
  | some (bfinal, r0) =>
  match takeField 2 r0 with
  | none => .needMore out bs st true
  | some (btype, r1) =>
    let st1 := { st with blocks := st.blocks + 1 }
    if btype = 0 then
      -- stored: skip to the next byte boundary
      let r2 := r1.drop ((8 - (pos + 3) % 8) % 8)
      match takeField 16 r2 with
      | none => .needMore out bs st1 false
      | some (len, r3) =>
      match takeField 16 r3 with
      | none => .needMore out bs st1 false
      | some (nlen, r4) =>
        if len + nlen ≠ 65535 then .corrupt out bs st1
        else if r4.length < 8 * len then
          -- deliver what is there, then ask for more
          .needMore (out ++ (bytesOfBits r4 (r4.length / 8)).toArray) [] st1 false
        else
          .next (bfinal = 1) (out ++ (bytesOfBits r4 len).toArray) (r4.drop (8 * len)) { st1 with stored := st1.stored + 1 }
    else if btype = 1 then
      match decodeBody (canonical fixedLitLens) (canonical (fixedDistLens ++ [5, 5])) (r1.length + 1) r1 out st1 with
      | .needMore o r s => .needMore o r s false
      | .corrupt o r s => .corrupt o r s
      | .eob o r s => .next (bfinal = 1) o r { s with fixed := s.fixed + 1 }
    else if btype = 2 then
      match readDynHeader mode r1 with
      | .needMore => .needMore out bs st1 false
      | .corrupt => .corrupt out bs st1
      | .ok ll dl r2 =>
        match decodeBody (canonical ll) (canonical dl) (r2.length + 1) r2 out st1 with
        | .needMore o r s => .needMore o r s false
        | .corrupt o r s => .corrupt o r s
        | .eob o r s => .next (bfinal = 1) o r { s with dynamic := s.dynamic + 1 }
    else .corrupt out bs st1

/-- all blocks of a stream. `fuel` bounds the number of blocks (each consumes at least 3 bits). -/
def inflateBlocks (mode : Mode) : Nat → Nat → Bits → Array UInt8 → Stats → Result
  | 0, _, bs, out, st => .corrupt out bs st
  | fuel + 1, pos, bs, out, st =>
    match inflateBlock mode pos bs out st with
    | .needMore o r s a => .needMore o r s a
    | .corrupt o r s => .corrupt o r s
    | .next final o r s =>
      if final then .done o r s else inflateBlocks mode fuel (pos + (bs.length - r.length)) r o s

/-- decode one DEFLATE stream from the start of `bytes`, with an optional preset dictionary -/
def inflate (mode : Mode) (dict : List UInt8) (bytes : List UInt8) : Result :=
  let bs := bytesToBits bytes
  inflateBlocks mode (bs.length + 1) 0 bs dict.toArray {}

end Fastgo.Spec
