/-
  Bit-level view of a byte string (RFC 1951 section 3.1.1): bytes are read LSB first;
  Huffman codes are packed MSB first, every other field LSB first.
-/
namespace Fastgo.Spec

abbrev Bits := List Bool

/-- the 8 bits of a byte, least significant first -/
def byteBits (b : UInt8) : Bits :=
  (List.range 8).map fun i => b.toNat.testBit i

def bytesToBits (bs : List UInt8) : Bits := bs.flatMap byteBits

/-- value of a little-endian bit field -/
def bitsToNat : Bits → Nat
  | [] => 0
  | b :: r => (if b then 1 else 0) + 2 * bitsToNat r

/-- `n` as a little-endian field of `w` bits -/
def natToBits (n : Nat) : Nat → Bits
  | 0 => []
  | w + 1 => (n % 2 == 1) :: natToBits (n / 2) w

/-- take a `w`-bit little-endian field; `none` when fewer than `w` bits remain -/
def takeField (w : Nat) (bs : Bits) : Option (Nat × Bits) :=
  if bs.length < w then none else some (bitsToNat (bs.take w), bs.drop w)

@[simp] theorem natToBits_length (n w : Nat) : (natToBits n w).length = w := by
  induction w generalizing n with
  | zero => rfl
  | succ w ih => simp [natToBits, ih]

theorem bitsToNat_natToBits (n w : Nat) (h : n < 2 ^ w) : bitsToNat (natToBits n w) = n := by
  induction w generalizing n with
  | zero => simp [natToBits, bitsToNat]; omega
  | succ w ih =>
    simp only [natToBits, bitsToNat]
    have h2 : n / 2 < 2 ^ w := by
      rw [Nat.pow_succ] at h; omega
    rw [ih _ h2]
    by_cases hb : n % 2 = 1
    · simp [hb]; omega
    · have : n % 2 = 0 := by omega
      simp [this]; omega

theorem takeField_natToBits (n w : Nat) (h : n < 2 ^ w) (r : Bits) :
    takeField w (natToBits n w ++ r) = some (n, r) := by
  unfold takeField
  simp [bitsToNat_natToBits n w h]

theorem byteBits_length (b : UInt8) : (byteBits b).length = 8 := by simp [byteBits]

theorem bytesToBits_length (bs : List UInt8) : (bytesToBits bs).length = 8 * bs.length := by
  induction bs with
  | nil => rfl
  | cons b r ih => simp [bytesToBits, List.flatMap_cons, byteBits_length] at *; omega

theorem bytesToBits_append (a b : List UInt8) : bytesToBits (a ++ b) = bytesToBits a ++ bytesToBits b := by
  simp [bytesToBits]

end Fastgo.Spec
