/-
  CRC-32 (IEEE 802.3, reflected, polynomial 0xEDB88320) and Adler-32, as running checksums with the
  update interface of hash/crc32.Update and hash/adler32.
-/
namespace Fastgo.Spec

def crcStepBit (c : UInt32) : UInt32 :=
  if c &&& 1 = 1 then (c >>> 1) ^^^ 0xEDB88320 else c >>> 1

def crcStepByte (c : UInt32) (b : UInt8) : UInt32 :=
  let c0 := c ^^^ b.toUInt32
  crcStepBit (crcStepBit (crcStepBit (crcStepBit (crcStepBit (crcStepBit (crcStepBit (crcStepBit c0)))))))

/-- crc32.Update(crc, IEEETable, bs) -/
def crc32Update (crc : UInt32) (bs : List UInt8) : UInt32 :=
  ~~~ (bs.foldl crcStepByte (~~~ crc))

def crc32 (bs : List UInt8) : UInt32 := crc32Update 0 bs

theorem crc32Update_append (c : UInt32) (a b : List UInt8) :
    crc32Update (crc32Update c a) b = crc32Update c (a ++ b) := by
  simp [crc32Update, List.foldl_append]

theorem crc32Update_nil (c : UInt32) : crc32Update c [] = c := by
  simp [crc32Update]

/-- Adler-32 state (a, b), both kept mod 65521 -/
def adlerStep (s : Nat × Nat) (x : UInt8) : Nat × Nat :=
  let a := (s.1 + x.toNat) % 65521
  (a, (s.2 + a) % 65521)

def adlerUpdate (s : Nat × Nat) (bs : List UInt8) : Nat × Nat := bs.foldl adlerStep s

def adlerValue (s : Nat × Nat) : Nat := s.2 * 65536 + s.1

def adler32 (bs : List UInt8) : Nat := adlerValue (adlerUpdate (1, 0) bs)

theorem adlerUpdate_append (s : Nat × Nat) (a b : List UInt8) :
    adlerUpdate (adlerUpdate s a) b = adlerUpdate s (a ++ b) := by
  simp [adlerUpdate, List.foldl_append]

end Fastgo.Spec
