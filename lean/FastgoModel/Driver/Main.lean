import FastgoModel.Spec.Inflate
import FastgoModel.Writer.Replay
import FastgoModel.Container.Members
import FastgoModel.Reader.Replay
import FastgoModel.Writer.Tokens
import FastgoModel.Proofs.HuffInstance
import FastgoModel.Proofs.WriterWrap
import FastgoModel.Proofs.BlockFrame
import FastgoModel.Reader.FaithfulCheck
import FastgoModel.Proofs.StreamFrame
/-
  Line-protocol driver of the executable models (`lake build fgmodel`).
  One case per input line, one answer line per case. Bytes travel as lowercase hex.
-/
open Fastgo Fastgo.Spec Fastgo.Writer Fastgo.Container Fastgo.Reader Fastgo.CWriter

def hexVal (c : Char) : Option Nat :=
  if '0' ≤ c ∧ c ≤ '9' then some (c.toNat - '0'.toNat)
  else if 'a' ≤ c ∧ c ≤ 'f' then some (c.toNat - 'a'.toNat + 10)
  else none

def parseHex (s : String) : Option (List UInt8) :=
  let rec go : List Char → List UInt8 → Option (List UInt8)
    | [], acc => some acc.reverse
    | [_], _ => none
    | a :: b :: r, acc =>
      match hexVal a, hexVal b with
      | some x, some y => go r (UInt8.ofNat (x * 16 + y) :: acc)
      | _, _ => none
  if s = "-" then some [] else go s.toList []

def hexDigit (n : Nat) : Char :=
  if n < 10 then Char.ofNat ('0'.toNat + n) else Char.ofNat ('a'.toNat + n - 10)

def toHex (bs : Array UInt8) : String :=
  String.ofList (bs.toList.flatMap fun b => [hexDigit (b.toNat / 16), hexDigit (b.toNat % 16)])

/-- FNV-1a 64 over the output, so that long outputs are compared without being printed -/
def fnv (bs : Array UInt8) : UInt64 :=
  bs.foldl (fun h b => (h ^^^ b.toUInt64) * 1099511628211) 14695981039346656037

def statsStr (st : Stats) : String :=
  s!"blocks={st.stored + st.fixed + st.dynamic} lits={st.lits} refs={st.refs} maxdist={st.maxDist}"

def answerInflate (mode : Mode) (dict stream : List UInt8) : String :=
  let total := 8 * stream.length
  let strip := fun (out : Array UInt8) => out.extract dict.length out.size
  match inflate mode dict stream with
  | .done out rest st =>
    let o := strip out
    s!"done n={o.size} h={fnv o} endbit={total - rest.length} {statsStr st}"
  | .needMore out _ st atStart =>
    let o := strip out
    s!"needmore n={o.size} h={fnv o} atblockstart={atStart} {statsStr st}"
  | .corrupt out _ st =>
    let o := strip out
    s!"corrupt n={o.size} h={fnv o} {statsStr st}"

/-! ### W: the Writer control model with replayed leaves -/

def parseNat! (s : String) : Nat := s.toNat?.getD 0

def parseEv (s : String) : Option Ev :=
  match s.splitOn ":" with
  | ["g", fl, e, p, i, tin, nidx, tout] =>
    some (.g (fl = "1") (parseNat! e) (parseNat! p) (parseNat! i) (parseNat! tin) (parseNat! nidx) (parseNat! tout))
  | ["d", size, tok] => some (.d (parseNat! size) (parseNat! tok))
  | ["r"] => some .r
  | _ => none

def parseOp (s : String) : Option Writer.Op :=
  if s = "f" then some .flush
  else if s = "c" then some .close
  else if s = "r" then some (.reset { fail := fun _ => false })
  else if s.startsWith "w" then some (.write (List.replicate (parseNat! (s.drop 1).toString) 0))
  else if s.startsWith "x" then (parseHex (s.drop 1).toString).map .write
  else none

def errStr : Option Writer.Err → String
  | none => "ok"
  | some .injected => "injected"
  | some .closed => "closed"

def answerW (window maxTok : Nat) (fails : List Nat) (ops : List Writer.Op) (log : List Ev) : String :=
  let L := replayLeaves log
  let c : Writer.Cfg := { window := window, maxTok := maxTok }
  let w0 : WState RMF Unit := WState.init L { fail := fun k => fails.contains k }
  let rec go (w : WState RMF Unit) (ops : List Writer.Op) (acc : List String) : WState RMF Unit × List String :=
    match ops with
    | [] => (w, acc.reverse)
    | op :: rest =>
      let (w1, r) := Writer.step L c w op
      let line := s!"{r.n},{errStr r.err},{w1.dyn.idx},{w1.dyn.buf.length},{w1.dyn.processed},{w1.dyn.tokens.length},{w1.dst.calls}"
      go w1 rest (line :: acc)
  let (w, lines) := go w0 ops []
  let bad := match w.dyn.mf.bad with | none => "-" | some m => m
  s!"{String.intercalate ";" lines} left={(takeChunks w.dyn.mf.log).2.length} bad={bad}"

/-! ### H: the Huffman-only control model with a replayed block encoder -/

def answerH (max : Nat) (fails : List Nat) (ops : List Writer.Op) (blocks : List (List Nat)) : String :=
  let L := replayHuff blocks
  let w0 : HState HLog := HState.init L { fail := fun k => fails.contains k }
  let rec go (w : HState HLog) (ops : List Writer.Op) (acc : List String) : HState HLog × List String :=
    match ops with
    | [] => (w, acc.reverse)
    | op :: rest =>
      let (w1, r) := hStep L max w op
      go w1 rest (s!"{r.n},{errStr r.err},{w1.huff.buf.length},{w1.dst.calls}" :: acc)
  let (w, lines) := go w0 ops []
  let bad := match w.huff.ls.bad with | none => "-" | some m => m
  s!"{String.intercalate ";" lines} left={w.huff.ls.log.length} bad={bad}"

/-! ### ZW / GW: the zlib and gzip Writer models over the flate Writer control model with replayed leaves -/

def wrapLine (first : Bool) (op : Writer.Op) (r : OpRes) (w : WState RMF Unit) : String :=
  let base := s!"{r.n},{errStr r.err},{w.dyn.idx},{w.dyn.buf.length},{w.dyn.processed},{w.dyn.tokens.length},{w.dst.calls}"
  let isClose := match op with | .close => true | _ => false
  let hx := fun (bs : List UInt8) => if bs.isEmpty then "-" else toHex bs.toArray
  if isClose && r.err.isNone then s!"{base},t={hx (w.dst.got.headD [])}"
  else if first then s!"{base},h={hx w.dst.bytes}"
  else base

def answerZW (level : Int) (window maxTok : Nat) (fails : List Nat) (ops : List Writer.Op) (log : List Ev) : String :=
  let L := replayLeaves log
  let c : Writer.Cfg := { window := window, maxTok := maxTok }
  let O := dynOps L c
  let z0 : ZW (WState RMF Unit) := ZW.init (WState.init L { fail := fun k => fails.contains k }) level
  let rec go (z : ZW (WState RMF Unit)) (ops : List Writer.Op) (acc : List String) : ZW (WState RMF Unit) × List String :=
    match ops with
    | [] => (z, acc.reverse)
    | op :: rest =>
      let (z1, r) := zStep O z op
      go z1 rest (wrapLine acc.isEmpty op r z1.inner :: acc)
  let (z, lines) := go z0 ops []
  let bad := match z.inner.dyn.mf.bad with | none => "-" | some m => m
  s!"{String.intercalate ";" lines} left={(takeChunks z.inner.dyn.mf.log).2.length} bad={bad}"

def answerGW (level : Int) (window maxTok : Nat) (fails : List Nat) (h : GzHeader) (ops : List Writer.Op) (log : List Ev) : String :=
  let L := replayLeaves log
  let c : Writer.Cfg := { window := window, maxTok := maxTok }
  let O := dynOps L c
  let z0 : GW (WState RMF Unit) := GW.init (WState.init L { fail := fun k => fails.contains k }) level h
  let rec go (z : GW (WState RMF Unit)) (ops : List Writer.Op) (acc : List String) : GW (WState RMF Unit) × List String :=
    match ops with
    | [] => (z, acc.reverse)
    | op :: rest =>
      let (z1, r) := gStep O z op
      go z1 rest (wrapLine acc.isEmpty op r z1.inner :: acc)
  let (z, lines) := go z0 ops []
  let bad := match z.inner.dyn.mf.bad with | none => "-" | some m => m
  s!"{String.intercalate ";" lines} left={(takeChunks z.inner.dyn.mf.log).2.length} bad={bad}"

/-! ### G: leaf-contract check of one recorded match-finder call -/

def parseTok (s : String) : Option RTok :=
  if s.startsWith "l" then some (.lit (UInt8.ofNat (parseNat! (s.drop 1).toString)))
  else if s.startsWith "p" then
    match (s.drop 1).toString.splitOn "." with
    | [a, b] => some (.lit2 (UInt8.ofNat (parseNat! a)) (UInt8.ofNat (parseNat! b)))
    | _ => none
  else if s.startsWith "m" then
    match (s.drop 1).toString.splitOn "." with
    | [l, dd] => some (.mtch (parseNat! l) (parseNat! dd))
    | _ => none
  else none

/-- diagnostic only: index of the first token at which the check fails -/
def firstBadTok (window : Nat) (buf : Array UInt8) (stop : Nat) : Nat → Nat → List RTok → String
  | pos, i, [] => if pos == stop then "ok" else s!"bad: tokens end at {pos}, the call reported {stop}"
  | pos, i, t :: ts =>
    if checkGen window buf stop pos [t] || checkGen window buf (pos + (match t with | .lit _ => 1 | .lit2 _ _ => 2 | .mtch l _ => l)) pos [t] then
      firstBadTok window buf stop (pos + (match t with | .lit _ => 1 | .lit2 _ _ => 2 | .mtch l _ => l)) (i + 1) ts
    else s!"bad: token {i} ({repr t}) at buffer position {pos}"

def answerG (window pos stop : Nat) (buf : List UInt8) (toks : List RTok) : String :=
  let b := buf.toArray
  if stop ≤ b.size && checkGen window b stop pos toks then "ok"
  else if stop > b.size then "bad: stop beyond the buffer"
  else firstBadTok window b stop pos 0 toks


/-! ### E: one recorded call of a real block encoder, checked by `checkEnc` (Proofs/BlockFrame.lean) -/

def parseBits (s : String) : Option Bits :=
  if s = "-" then some []
  else if s.toList.all (fun c => c = '0' || c = '1') then some (s.toList.map (· = '1')) else none

def answerE (pos : Nat) (carry : Bits) (out : List UInt8) (carry' : Bits) (final : Bool) (h x : List UInt8) : String :=
  let ha := h.toArray
  if checkEnc .strict pos carry out carry' final ha x then "ok"
  else
    let all := bytesToBits out ++ carry'
    if all.take carry.length != carry then "bad: the bits handed out do not begin with the old carry"
    else
      let B := all.drop carry.length
      match inflateBlock .strict pos B ha {} with
      | .needMore o _ _ _ => s!"bad: the block's bits end before the block does (decoded {o.size - ha.size} of {x.length} bytes)"
      | .corrupt o _ _ => s!"bad: the specification inflater rejects the block after {o.size - ha.size} of {x.length} bytes"
      | .next f o r _ =>
        if f != final then s!"bad: BFINAL is {f}, expected {final}"
        else if o != ha ++ x.toArray then s!"bad: the block decodes to other bytes than the data it stands for (n={o.size - ha.size}, expected {x.length})"
        else if !final && !r.isEmpty then s!"bad: {r.length} bits after the end-of-block code of a non-final block"
        else if final && (r.length ≥ 8 || r.any id) then s!"bad: final block followed by {r.length} bits that are not byte padding"
        else if final && !carry'.isEmpty then "bad: bits left in the bit buffer after the final block"
        else if !blockCodesPF .strict B then "bad: a declared Huffman code is not prefix-free"
        else "bad: checkEnc rejects"


/-! ### F: one complete session of the real Reader judged by the specification inflater (`checkFaithful`) -/

def verdictStr (r : Result) : String :=
  match r with
  | .done o rest _ => s!"done n={o.size} restbits={rest.length}"
  | .needMore o _ _ _ => s!"needmore n={o.size}"
  | .corrupt o _ _ => s!"corrupt n={o.size}"

def answerF (src delivered : List UInt8) (k : String) (consumed : Nat) (cut : Bool) : String :=
  let kind : Option EndKind := if k = "EOF" then some .eof else if k = "UnexpectedEOF" then some .unexpectedEOF
    else if k = "Corrupt" then some .corrupt else none
  match kind with
  | none => s!"bad: the Reader ended with {k}"
  | some kd =>
    if checkFaithful src delivered kd consumed cut then "ok"
    else
      let p := inflate .permissive [] src
      let st := inflate .strict [] src
      let pre := delivered.isPrefixOf p.out.toList
      s!"bad: Reader ended with {k} after {delivered.length} bytes (prefix-of-spec-output={pre}), consumed={consumed} cut-of-valid={cut}; spec permissive: {verdictStr p} (consumed-at-eof={consumedAtEOF src p}); strict: {verdictStr st}"


/-! ### S: a whole stream a real Writer emitted, checked by `checkStream` (Proofs/StreamFrame.lean) -/

def answerS (stream data : List UInt8) : String :=
  if !checkStream .strict stream then
    s!"bad: checkStream rejects ({verdictStr (inflate .strict [] stream)})"
  else
    match inflate .strict [] stream with
    | .done out _ _ => if out.toList == data then "ok" else s!"bad: decodes to {out.size} bytes that are not the {data.length} bytes written"
    | r => s!"bad: {verdictStr r}"

/-! ### FG: a whole gzip file read by the Reader model over the specification inflater -/

def answerFG (file : List UInt8) (k : String) (n : Nat) (h : String) : String :=
  let p := readAllMembers (specInflater .permissive) (file.length + 1) file
  let q := readAllMembers (specInflater .strict) (file.length + 1) file
  let sh := fun (o : Option (List UInt8)) => match o with
    | some d => s!"ok n={d.length} h={fnv d.toArray}"
    | none => "error"
  let same := fun (o : Option (List UInt8)) => match o with
    | some d => d.length == n && s!"{fnv d.toArray}" == h
    | none => false
  if k = "EOF" then
    if same q || same p then "ok" else s!"bad: Reader ended with io.EOF after {n} bytes; model strict: {sh q}; permissive: {sh p}"
  else
    if q.isNone then "ok" else s!"bad: Reader ended with {k} after {n} bytes; model strict: {sh q}"


/-! ### FZ: a whole zlib stream (+ what follows) read by the Reader model over the specification inflater -/

def answerFZ (file : List UInt8) (k : String) (n : Nat) (h : String) (left : Nat) : String :=
  let p := readZlib (specInflater .permissive) file
  let q := readZlib (specInflater .strict) file
  let sh := fun (o : Option (List UInt8 × List UInt8)) => match o with
    | some (d, r) => s!"ok n={d.length} h={fnv d.toArray} left={r.length}"
    | none => "error"
  let same := fun (o : Option (List UInt8 × List UInt8)) => match o with
    | some (d, r) => d.length == n && s!"{fnv d.toArray}" == h && r.length == left
    | none => false
  if k = "EOF" then
    if same q || same p then "ok" else s!"bad: Reader ended with io.EOF after {n} bytes, {left} bytes left in the source; model strict: {sh q}; permissive: {sh p}"
  else
    if q.isNone then "ok" else s!"bad: Reader ended with {k} after {n} bytes; model strict: {sh q}"

/-! ### containers and checksums -/

def hexL (bs : List UInt8) : String := if bs.isEmpty then "-" else toHex bs.toArray

def parseInt! (s : String) : Int :=
  if s.startsWith "-" then - (Int.ofNat (parseNat! (s.drop 1).toString)) else Int.ofNat (parseNat! s)

def optHex (s : String) : Option (Option (List UInt8)) :=
  if s = "-" then some none
  else if s = "e" then some (some [])
  else (parseHex s).map some

def showOpt : Option (List UInt8) → String
  | none => "-"
  | some [] => "e"
  | some bs => toHex bs.toArray

def answerGP (bs : List UInt8) : String :=
  match parseHeader bs with
  | .ok h rest => s!"ok {h.mtime} {h.os.toNat} {showOpt h.extra} {hexL h.name} {hexL h.comment} {rest.length}"
  | .cleanEOF => "cleaneof"
  | .unexpectedEOF => "unexpectedeof"
  | .badHeader => "badheader"

def answerZP (dict : Option (List UInt8)) (bs : List UInt8) : String :=
  match parseZHeader dict bs with
  | .ok hd rest => s!"ok {hd} {rest.length}"
  | .unexpectedEOF => "unexpectedeof"
  | .badHeader => "badheader"
  | .badDict => "baddict"

/-! ### R: the Reader control model with a replayed decoder -/

def parseChunk (s : String) : Option Chunk :=
  match s.splitOn ":" with
  | ["c", n] => some { bytes := List.replicate (parseNat! n) 0 }
  | ["c", n, "e"] => some { bytes := List.replicate (parseNat! n) 0, err := some .eof }
  | ["c", n, f] => some { bytes := List.replicate (parseNat! n) 0, err := some (.fail (parseNat! (f.drop 1).toString)) }
  | _ => none

def parseStatus (s : String) : DStatus :=
  if s = "endinput" then .needInput else if s = "outfull" then .outFull else if s = "invalid" then .invalid else .done

def parseDEv (s : String) : Option DEv :=
  match s.splitOn ":" with
  | [ib, bb, ia, ba, p, st, en] =>
    some { inBefore := parseNat! ib, bitsBefore := parseNat! bb, inAfter := parseNat! ia, bitsAfter := parseNat! ba,
           produced := parseNat! p, status := parseStatus st, ended := en = "1" }
  | _ => none

def reStr : Option RE → String
  | none => "ok"
  | some .eof => "EOF"
  | some .unexpectedEOF => "UnexpectedEOF"
  | some .corrupt => "Corrupt"
  | some (.src .eof) => "EOF"
  | some (.src (.fail id)) => s!"src{id}"

def answerR (size : Nat) (chunks : List Chunk) (reads : List Nat) (log : List DEv) : String :=
  let D := replayDecoder log
  let r0 : RState RDec := RState.init D { size := size, src := chunks }
  let rec go (r : RState RDec) (reads : List Nat) (acc : List String) : RState RDec × List String :=
    match reads with
    | [] => (r, acc.reverse)
    | w :: rest =>
      match Reader.read D (r.bio.fuel + log.length + 8) r w with
      | (r1, .data bs e) => go r1 rest (s!"{bs.length},{reStr e}" :: acc)
      | (r1, .blocked) => (r1, ("blocked" :: acc).reverse)
      | (r1, .outOfFuel) => (r1, ("outoffuel" :: acc).reverse)
  let (r, lines) := go r0 reads []
  let bad := match r.dec.bad with | none => "-" | some m => m
  s!"{String.intercalate ";" lines} taken={r.bio.taken} left={r.dec.log.length} bad={bad}"

def step (line : String) : String :=
  match (line.trimAscii.toString.splitOn " ") with
  | ["I", mode, dict, stream] =>
    match parseHex dict, parseHex stream with
    | some d, some s =>
      let m := if mode = "strict" then Mode.strict else Mode.permissive
      answerInflate m d s
    | _, _ => "bad-hex"
  | ["W", window, maxTok, fails, ops, evs] =>
    let fl := if fails = "-" then [] else (fails.splitOn ",").map parseNat!
    let os := (ops.splitOn ",").filterMap parseOp
    let es := if evs = "-" then [] else (evs.splitOn ";").filterMap parseEv
    answerW (parseNat! window) (parseNat! maxTok) fl os es
  | ["H", max, fails, ops, blocks] =>
    let fl := if fails = "-" then [] else (fails.splitOn ",").map parseNat!
    let os := (ops.splitOn ",").filterMap parseOp
    let bs := if blocks = "-" then [] else (blocks.splitOn ";").map fun b => (b.splitOn ".").map parseNat!
    answerH (parseNat! max) fl os bs
  | ["ZW", level, window, maxTok, fails, ops, evs] =>
    let fl := if fails = "-" then [] else (fails.splitOn ",").map parseNat!
    let os := (ops.splitOn ",").filterMap parseOp
    let es := if evs = "-" then [] else (evs.splitOn ";").filterMap parseEv
    answerZW (parseInt! level) (parseNat! window) (parseNat! maxTok) fl os es
  | ["GW", level, window, maxTok, fails, extra, name, comment, ops, evs] =>
    match optHex extra, parseHex name, parseHex comment with
    | some e, some n, some cm =>
      let fl := if fails = "-" then [] else (fails.splitOn ",").map parseNat!
      let os := (ops.splitOn ",").filterMap parseOp
      let es := if evs = "-" then [] else (evs.splitOn ";").filterMap parseEv
      answerGW (parseInt! level) (parseNat! window) (parseNat! maxTok) fl { extra := e, name := n, comment := cm } os es
    | _, _, _ => "bad-hex"
  | ["G", window, pos, stop, buf, toks] =>
    match parseHex buf with
    | some b =>
      let ts := (if toks = "-" then [] else toks.splitOn ",").map parseTok
      if ts.any Option.isNone then "bad-token" else answerG (parseNat! window) (parseNat! pos) (parseNat! stop) b (ts.filterMap id)
    | none => "bad-hex"
  | ["E", pos, carry, out, carry', final, h, x] =>
    match parseBits carry, parseHex out, parseBits carry', parseHex h, parseHex x with
    | some c, some o, some c', some hh, some xx => answerE (parseNat! pos) c o c' (final = "1") hh xx
    | _, _, _, _, _ => "bad-hex"
  | ["F", src, delivered, k, consumed, cut] =>
    match parseHex src, parseHex delivered with
    | some a, some b => answerF a b k (parseNat! consumed) (cut = "1")
    | _, _ => "bad-hex"
  | ["S", stream, data] =>
    match parseHex stream, parseHex data with
    | some a, some b => answerS a b
    | _, _ => "bad-hex"
  | ["FZ", file, k, n, h, left] =>
    match parseHex file with
    | some a => answerFZ a k (parseNat! n) h (parseNat! left)
    | none => "bad-hex"
  | ["FG", file, k, n, h] =>
    match parseHex file with
    | some a => answerFG a k (parseNat! n) h
    | none => "bad-hex"
  | ["R", size, chunks, reads, evs] =>
    let cs := (if chunks = "-" then [] else chunks.splitOn ";").filterMap parseChunk
    let rs := (reads.splitOn ",").map parseNat!
    let es := (if evs = "-" then [] else evs.splitOn ";").filterMap parseDEv
    answerR (parseNat! size) cs rs es
  | ["K", "crc", data] =>
    match parseHex data with
    | some d => s!"{(crc32 d).toNat}"
    | none => "bad-hex"
  | ["K", "adler", data] =>
    match parseHex data with
    | some d => s!"{adler32 d}"
    | none => "bad-hex"
  | ["GH", level, mtime, os, extra, name, comment] =>
    match optHex extra, parseHex name, parseHex comment with
    | some e, some n, some c =>
      hexL (emitHeader { extra := e, name := n, comment := c, mtime := parseNat! mtime, os := UInt8.ofNat (parseNat! os) } (parseInt! level))
    | _, _, _ => "bad-hex"
  | ["GP", data] =>
    match parseHex data with
    | some d => answerGP d
    | none => "bad-hex"
  | ["GT", writes] =>
    let ws := (if writes = "-" then [] else writes.splitOn ";").filterMap parseHex
    hexL (ws.foldl GzSum.update {}).trailer
  | ["ZH", level, dict] =>
    match optHex dict with
    | some d => hexL (emitZHeader (parseInt! level) d)
    | none => "bad-hex"
  | ["ZP", dict, data] =>
    match optHex dict, parseHex data with
    | some dd, some d => answerZP dd d
    | _, _ => "bad-hex"
  | ["ZT", writes] =>
    let ws := (if writes = "-" then [] else writes.splitOn ";").filterMap parseHex
    hexL (be (adlerValue (ws.foldl adlerUpdate (1, 0))) 4)
  | _ => "bad-op"

partial def loop (h : IO.FS.Stream) (out : IO.FS.Stream) : IO Unit := do
  let line ← h.getLine
  if line.isEmpty then return ()
  out.putStrLn (step line)
  out.flush
  loop h out

def main : IO Unit := do
  loop (← IO.getStdin) (← IO.getStdout)
