import FastgoModel.Spec.Inflate
/-
  Line-protocol driver of the executable models (`lake build fgmodel`).
  One case per input line, one answer line per case. Bytes travel as lowercase hex.
-/
open Fastgo Fastgo.Spec

def hexVal (c : Char) : Option Nat :=
  if '0' ≤ c ∧ c ≤ '9' then some (c.toNat - '0'.toNat)
  else if 'a' ≤ c ∧ c ≤ 'f' then some (c.toNat - 'a'.toNat + 10)
  else none

def parseHex (s : String) : Option (List UInt8) :=
  let rec go : List Char → List UInt8 → Option (List UInt8)
    | [], acc => some acc.reverse
    | [_], _ => none
    | a :: b :: r, acc =>
      match hexVal a, hexVal b with
      | some x, some y => go r (UInt8.ofNat (x * 16 + y) :: acc)
      | _, _ => none
  if s = "-" then some [] else go s.toList []

def hexDigit (n : Nat) : Char :=
  if n < 10 then Char.ofNat ('0'.toNat + n) else Char.ofNat ('a'.toNat + n - 10)

def toHex (bs : Array UInt8) : String :=
  String.ofList (bs.toList.flatMap fun b => [hexDigit (b.toNat / 16), hexDigit (b.toNat % 16)])

/-- FNV-1a 64 over the output, so that long outputs are compared without being printed -/
def fnv (bs : Array UInt8) : UInt64 :=
  bs.foldl (fun h b => (h ^^^ b.toUInt64) * 1099511628211) 14695981039346656037

def statsStr (st : Stats) : String :=
  s!"blocks={st.stored + st.fixed + st.dynamic} lits={st.lits} refs={st.refs} maxdist={st.maxDist}"

def answerInflate (mode : Mode) (dict stream : List UInt8) : String :=
  let total := 8 * stream.length
  let strip := fun (out : Array UInt8) => out.extract dict.length out.size
  match inflate mode dict stream with
  | .done out rest st =>
    let o := strip out
    s!"done n={o.size} h={fnv o} endbit={total - rest.length} {statsStr st}"
  | .needMore out _ st atStart =>
    let o := strip out
    s!"needmore n={o.size} h={fnv o} atblockstart={atStart} {statsStr st}"
  | .corrupt out _ st =>
    let o := strip out
    s!"corrupt n={o.size} h={fnv o} {statsStr st}"

def step (line : String) : String :=
  match (line.trimAscii.toString.splitOn " ") with
  | ["I", mode, dict, stream] =>
    match parseHex dict, parseHex stream with
    | some d, some s =>
      let m := if mode = "strict" then Mode.strict else Mode.permissive
      answerInflate m d s
    | _, _ => "bad-hex"
  | _ => "bad-op"

partial def loop (h : IO.FS.Stream) (out : IO.FS.Stream) : IO Unit := do
  let line ← h.getLine
  if line.isEmpty then return ()
  out.putStrLn (step line)
  out.flush
  loop h out

def main : IO Unit := do
  loop (← IO.getStdin) (← IO.getStdout)
