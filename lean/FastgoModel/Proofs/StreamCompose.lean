import FastgoModel.Spec.Inflate
/-
  Composition of DEFLATE blocks at the level of the specification inflater: a stream is a chain of blocks, each
  of which decodes on its own whatever follows it (this is what lets a Writer emit a stream incrementally).
-/
namespace Fastgo.Spec

/-- the bits `B`, placed at absolute bit position `pos`, are one complete block that extends the output `h`
    by `x` — whatever bits follow and whatever the statistics so far -/
def IsBlock (mode : Mode) (pos : Nat) (B : Bits) (final : Bool) (h : Array UInt8) (x : List UInt8) : Prop :=
  ∀ (t : Bits) (st : Stats), ∃ st', inflateBlock mode pos (B ++ t) h st = .next final (h ++ x.toArray) t st'

/-- `E`, placed at `pos`, is a sequence of `n` complete NON-final blocks that extends the output `h` by `d` -/
inductive Chain (mode : Mode) : Nat → Nat → Bits → Array UInt8 → List UInt8 → Prop
  | nil (pos : Nat) (h : Array UInt8) : Chain mode 0 pos [] h []
  | cons (n pos : Nat) (B E : Bits) (h : Array UInt8) (x d : List UInt8) :
      IsBlock mode pos B false h x → Chain mode n (pos + B.length) E (h ++ x.toArray) d →
      Chain mode (n + 1) pos (B ++ E) h (x ++ d)

theorem Chain.snoc {mode : Mode} {n pos : Nat} {E : Bits} {h : Array UInt8} {d : List UInt8}
    (hc : Chain mode n pos E h d) (B : Bits) (x : List UInt8)
    (hb : IsBlock mode (pos + E.length) B false (h ++ d.toArray) x) :
    Chain mode (n + 1) pos (E ++ B) h (d ++ x) := by
  induction hc with
  | nil pos h =>
    have := Chain.cons 0 pos B [] h x [] (by simpa using hb) (Chain.nil _ _)
    simpa using this
  | cons n pos B0 E0 h x0 d0 hb0 _ ih =>
    have hb' : IsBlock mode (pos + B0.length + E0.length) B false (h ++ x0.toArray ++ d0.toArray) x := by
      have e1 : pos + (B0 ++ E0).length = pos + B0.length + E0.length := by simp [Nat.add_assoc]
      have e2 : h ++ (x0 ++ d0).toArray = h ++ x0.toArray ++ d0.toArray := by simp [Array.append_assoc]
      rw [e1, e2] at hb
      exact hb
    have := Chain.cons (n + 1) pos B0 (E0 ++ B) h x0 (d0 ++ x) hb0 (ih hb')
    simpa [List.append_assoc] using this

theorem chain_inflate {mode : Mode} {n pos : Nat} {E : Bits} {h : Array UInt8} {d : List UInt8}
    (hc : Chain mode n pos E h d) (t : Bits) (fuel : Nat) (st : Stats) :
    ∃ st', inflateBlocks mode (fuel + n) pos (E ++ t) h st = inflateBlocks mode fuel (pos + E.length) t (h ++ d.toArray) st' := by
  induction hc generalizing st with
  | nil pos h => exact ⟨st, by simp⟩
  | cons n pos B E h x d hb _ ih =>
    obtain ⟨st1, h1⟩ := hb (E ++ t) st
    obtain ⟨st2, h2⟩ := ih st1
    refine ⟨st2, ?_⟩
    have hf : fuel + (n + 1) = (fuel + n) + 1 := by omega
    rw [hf, inflateBlocks, List.append_assoc, h1]
    simp only [Bool.false_eq_true, if_false]
    have hp : pos + ((B ++ (E ++ t)).length - (E ++ t).length) = pos + B.length := by simp
    rw [hp, h2]
    simp [Nat.add_assoc, Array.append_assoc]


/-- a chain of non-final blocks, and nothing after it: the inflater has reproduced all of `d` and asks for more
    input at a block boundary -/
theorem chain_needMore {mode : Mode} {n : Nat} {E : Bits} {d : List UInt8} (hc : Chain mode n 0 E #[] d) (k : Nat) :
    ∃ st', inflateBlocks mode (k + 1 + n) 0 E #[] {} = .needMore d.toArray [] st' true := by
  obtain ⟨st', h⟩ := chain_inflate hc [] (k + 1) {}
  refine ⟨st', ?_⟩
  rw [List.append_nil] at h
  rw [h]
  simp [inflateBlocks, inflateBlock, takeField]

/-- a chain of non-final blocks followed by a final block: the inflater is done, has produced `d ++ x`, and
    leaves exactly what follows the final block -/
theorem chain_done {mode : Mode} {n : Nat} {E B : Bits} {d x : List UInt8} (hc : Chain mode n 0 E #[] d)
    (hb : IsBlock mode E.length B true d.toArray x) (rest : Bits) (k : Nat) :
    ∃ st', inflateBlocks mode (k + 1 + n) 0 (E ++ (B ++ rest)) #[] {} = .done (d ++ x).toArray rest st' := by
  obtain ⟨st1, h1⟩ := chain_inflate hc (B ++ rest) (k + 1) {}
  rw [h1]
  obtain ⟨st2, h2⟩ := hb rest st1
  refine ⟨st2, ?_⟩
  simp only [Nat.zero_add, Array.empty_append] at h2 ⊢
  rw [inflateBlocks, h2]
  simp

/-- a block is never empty: on no input at all the inflater asks for more -/
theorem IsBlock.ne_nil {mode : Mode} {pos : Nat} {B : Bits} {final : Bool} {h : Array UInt8} {x : List UInt8}
    (hb : IsBlock mode pos B final h x) : B ≠ [] := by
  intro hn
  subst hn
  obtain ⟨st', h1⟩ := hb [] {}
  simp [inflateBlock, takeField] at h1

theorem Chain.len_le {mode : Mode} {n pos : Nat} {E : Bits} {h : Array UInt8} {d : List UInt8}
    (hc : Chain mode n pos E h d) : n ≤ E.length := by
  induction hc with
  | nil => simp
  | cons n pos B E h x d hb _ ih =>
    have := List.length_pos_iff.mpr hb.ne_nil
    simp only [List.length_append]; omega

/-- a byte string that is a chain of non-final blocks: `inflate` has reproduced all the data and asks for more
    input exactly at a block boundary -/
theorem inflate_of_chain {mode : Mode} {n : Nat} (bytes : List UInt8) {d : List UInt8}
    (hc : Chain mode n 0 (bytesToBits bytes) #[] d) :
    ∃ st', inflate mode [] bytes = .needMore d.toArray [] st' true := by
  have hn := hc.len_le
  obtain ⟨st', h⟩ := chain_needMore hc ((bytesToBits bytes).length - n)
  refine ⟨st', ?_⟩
  unfold inflate
  have e : (bytesToBits bytes).length + 1 = (bytesToBits bytes).length - n + 1 + n := by omega
  show inflateBlocks mode ((bytesToBits bytes).length + 1) 0 (bytesToBits bytes) #[] {} = _
  rw [e]; exact h

/-- a byte string that is a chain of non-final blocks, a final block and `rest`: `inflate` is done with all data -/
theorem inflate_of_chain_final {mode : Mode} {n : Nat} (bytes : List UInt8) {E B rest : Bits} {d x : List UInt8}
    (hc : Chain mode n 0 E #[] d) (hb : IsBlock mode E.length B true d.toArray x)
    (hbytes : bytesToBits bytes = E ++ (B ++ rest)) :
    ∃ st', inflate mode [] bytes = .done (d ++ x).toArray rest st' := by
  have hn := hc.len_le
  obtain ⟨st', h⟩ := chain_done hc hb rest ((bytesToBits bytes).length - n)
  refine ⟨st', ?_⟩
  unfold inflate
  have hl : n ≤ (bytesToBits bytes).length := by rw [hbytes]; simp only [List.length_append]; omega
  have e : (bytesToBits bytes).length + 1 = (bytesToBits bytes).length - n + 1 + n := by omega
  show inflateBlocks mode ((bytesToBits bytes).length + 1) 0 (bytesToBits bytes) #[] {} = _
  rw [e]
  conv => lhs; arg 4; rw [hbytes]
  exact h

end Fastgo.Spec
