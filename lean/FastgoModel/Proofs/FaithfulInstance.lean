import FastgoModel.Proofs.ReaderDelivery
/-
  A complete instance of the decoder leaf contract: the "batch" decoder keeps every byte it is given and hands
  out the whole output once the specification inflater finds a complete stream in them. It shows that
  `Decoder.Sane` and `Faithful` are jointly satisfiable and lets the Reader control model be run on real
  DEFLATE streams inside Lean.
-/
namespace Fastgo.Reader
open Fastgo.Spec

def batchDecoder (mode : Mode) : Decoder (List UInt8) where
  init := []
  run := fun fed input bl ended =>
    if ended then { st := fed, k := 0, bitsLen := bl, out := [], status := .done, ended := true }
    else
      match inflate mode [] (fed ++ input) with
      | .done out rest _ =>
        { st := fed ++ input, k := input.length, bitsLen := min rest.length (bl + 8 * input.length), out := out.toList,
          status := .done, ended := true }
      | .needMore _ _ _ _ =>
        { st := fed ++ input, k := input.length, bitsLen := 0, out := [], status := .needInput, ended := false }
      | .corrupt _ _ _ =>
        { st := fed ++ input, k := input.length, bitsLen := 0, out := [], status := .invalid, ended := false }

theorem batch_sane (mode : Mode) : (batchDecoder mode).Sane := by
  intro st input bl e
  unfold batchDecoder
  dsimp only
  cases e with
  | true => simp
  | false =>
    simp only [Bool.false_eq_true, if_false]
    split
    · exact ⟨Nat.le_refl _, Nat.min_le_right _ _, (fun h => by cases h)⟩
    · exact ⟨Nat.le_refl _, Nat.zero_le _, (fun h => by cases h)⟩
    · exact ⟨Nat.le_refl _, Nat.zero_le _, (fun h => by cases h)⟩

def batchFaithful (mode : Mode) : Faithful (batchDecoder mode) mode where
  R := fun st fed out e => st = fed ∧ (e = false → out = []) ∧
    (e = true → ∃ rest s, inflate mode [] fed = .done out.toArray rest s)
  init := ⟨rfl, fun _ => rfl, (fun h => by cases h)⟩
  step := by
    intro st fed out e input bl hR
    obtain ⟨h1, h2, h3⟩ := hR
    subst h1
    unfold batchDecoder
    dsimp only
    cases e with
    | true =>
      simp only [if_true, List.take_zero, List.append_nil]
      exact ⟨trivial, (fun h => by cases h), fun _ => h3 rfl⟩
    | false =>
      simp only [Bool.false_eq_true, if_false]
      have ho := h2 rfl
      subst ho
      split
      · rename_i o rest s hinf
        refine ⟨by simp, (fun h => by cases h), fun _ => ⟨rest, s, ?_⟩⟩
        simp only [List.take_length, List.nil_append, Array.toArray_toList]
        exact hinf
      · exact ⟨by simp, (fun _ => by simp), (fun h => by cases h)⟩
      · exact ⟨by simp, (fun _ => by simp), (fun h => by cases h)⟩
  pre := by
    intro st fed out e hR
    obtain ⟨_, h2, h3⟩ := hR
    cases e with
    | false => rw [h2 rfl]; exact List.nil_prefix
    | true =>
      obtain ⟨rest, s, h⟩ := h3 rfl
      rw [h]; simp [specOut]
  fin := fun st fed out hR => hR.2.2 rfl

end Fastgo.Reader
