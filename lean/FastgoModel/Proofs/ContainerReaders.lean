import FastgoModel.Container.Readers
/-
  gzip / zlib Readers: io.EOF is returned only after the running checksum of the bytes handed out has been
  compared with the trailer (C07), and every Read's byte count is the inflater's payload count.
-/
namespace Fastgo.Container
open Fastgo.Spec

/-- the byte count of every gzip Read is the inflater's (payload) count -/
theorem gzReadBody_bytes (z : GzReader) (a : InflAns) (after : List UInt8) :
    (gzReadBody z a after).2.1.bytes = a.bytes := by
  unfold gzReadBody
  dsimp only
  repeat' split
  all_goals rfl

theorem gzReadBody_eof (z : GzReader) (_hm : z.multistream = false) (a : InflAns) (after : List UInt8)
    (h : (gzReadBody z a after).2.1.err = some .eof) :
    ∃ t r, takeN 8 after = some (t, r) ∧
      unle (t.take 4) = (z.sum.update a.bytes).digest.toNat ∧ unle (t.drop 4) = (z.sum.update a.bytes).size := by
  unfold gzReadBody at h
  by_cases ha : a.err = some .eof
  · simp only [ha, ne_eq, not_true_eq_false, if_false] at h
    cases ht : takeN 8 after with
    | none => simp [ht] at h
    | some tr =>
      obtain ⟨t, r⟩ := tr
      simp only [ht] at h
      by_cases hchk : unle (t.take 4) ≠ (z.sum.update a.bytes).digest.toNat ∨ unle (t.drop 4) ≠ (z.sum.update a.bytes).size
      · simp [hchk] at h
      · simp only [not_or, ne_eq, Decidable.not_not] at hchk
        exact ⟨t, r, rfl, hchk.1, hchk.2⟩
  · simp only [ha, ne_eq, not_false_eq_true, if_true] at h

theorem gzReadBody_none (z : GzReader) (hm : z.multistream = false) (a : InflAns) (after : List UInt8)
    (h : (gzReadBody z a after).2.1.err = none) :
    (gzReadBody z a after).1 = { z with sum := z.sum.update a.bytes, err := none } := by
  unfold gzReadBody at h ⊢
  by_cases ha : a.err = some .eof
  · simp only [ha, ne_eq, not_true_eq_false, if_false] at h
    cases ht : takeN 8 after with
    | none => simp [ht] at h
    | some tr =>
      obtain ⟨t, r⟩ := tr
      simp only [ht] at h
      by_cases hchk : unle (t.take 4) ≠ (z.sum.update a.bytes).digest.toNat ∨ unle (t.drop 4) ≠ (z.sum.update a.bytes).size
      · simp [hchk] at h
      · simp [hchk, hm] at h
  · simp only [ha, ne_eq, not_false_eq_true, if_true] at h ⊢
    rw [h]

theorem gzRun_eof_checked (z : GzReader) (hm : z.multistream = false) (hs : z.sum.size < 2 ^ 32)
    (after : List UInt8) (as : List InflAns) (D : List UInt8) (z' : GzReader)
    (h : gzRun z after as = (D, some .eof, z')) (hopen : z.err = none) :
    ∃ t r, takeN 8 after = some (t, r) ∧
      unle (t.take 4) = (crc32Update z.sum.digest D).toNat ∧
      unle (t.drop 4) = (z.sum.size + D.length) % 2 ^ 32 := by
  induction as generalizing z D with
  | nil => simp [gzRun] at h
  | cons a as ih =>
    unfold gzRun at h
    simp only [hopen] at h
    have hb := gzReadBody_bytes z a after
    have he := gzReadBody_eof z hm a after
    have hn := gzReadBody_none z hm a after
    generalize gzReadBody z a after = b at h hb he hn
    obtain ⟨z1, r, nx⟩ := b
    simp only at h hb he hn
    cases hr : r.err with
    | some e =>
      simp only [hr, Prod.mk.injEq, Option.some.injEq] at h
      obtain ⟨hD, hee, _⟩ := h
      subst hee
      obtain ⟨t, r', ht, h1, h2⟩ := he hr
      refine ⟨t, r', ht, ?_, ?_⟩
      · rw [h1, ← hD, hb]; rfl
      · rw [h2, ← hD, hb]; rfl
    | none =>
      simp only [hr] at h
      generalize hrec : gzRun z1 after as = rec at h
      obtain ⟨d, e, z2⟩ := rec
      simp only [Prod.mk.injEq] at h
      obtain ⟨hD, hee, hz⟩ := h
      subst hee hz
      have hz1 := hn hr
      subst hz1
      have hs1 : (z.sum.update a.bytes).size < 2 ^ 32 := Nat.mod_lt _ (by decide)
      obtain ⟨t, r', ht, h1, h2⟩ := ih { z with sum := z.sum.update a.bytes, err := none } hm hs1 d hrec rfl
      refine ⟨t, r', ht, ?_, ?_⟩
      · rw [h1, ← hD, hb]; simp [GzSum.update, crc32Update_append]
      · rw [h2, ← hD, hb]; simp only [GzSum.update, List.length_append]; omega


/-! ### zlib -/

theorem zReadBody_bytes (z : ZReader) (a : InflAns) (after : List UInt8) :
    (zReadBody z a after).2.bytes = a.bytes := by
  unfold zReadBody
  dsimp only
  repeat' split
  all_goals rfl

theorem zReadBody_eof (z : ZReader) (a : InflAns) (after : List UInt8)
    (h : (zReadBody z a after).2.err = some .eof) :
    ∃ t r, takeN 4 after = some (t, r) ∧ unbe t = adlerValue (adlerUpdate z.digest a.bytes) := by
  unfold zReadBody at h
  by_cases ha : a.err = some .eof
  · simp only [ha, ne_eq, not_true_eq_false, if_false] at h
    cases ht : takeN 4 after with
    | none => simp [ht] at h
    | some tr =>
      obtain ⟨t, r⟩ := tr
      simp only [ht] at h
      by_cases hchk : unbe t ≠ adlerValue (adlerUpdate z.digest a.bytes)
      · simp [hchk] at h
      · simp only [ne_eq, Decidable.not_not] at hchk
        exact ⟨t, r, rfl, hchk⟩
  · simp only [ha, ne_eq, not_false_eq_true, if_true] at h

theorem zReadBody_none (z : ZReader) (a : InflAns) (after : List UInt8)
    (h : (zReadBody z a after).2.err = none) :
    (zReadBody z a after).1 = { digest := adlerUpdate z.digest a.bytes, err := none } := by
  unfold zReadBody at h ⊢
  by_cases ha : a.err = some .eof
  · simp only [ha, ne_eq, not_true_eq_false, if_false] at h
    cases ht : takeN 4 after with
    | none => simp [ht] at h
    | some tr =>
      obtain ⟨t, r⟩ := tr
      simp only [ht] at h
      by_cases hchk : unbe t ≠ adlerValue (adlerUpdate z.digest a.bytes)
      · simp [hchk] at h
      · simp [hchk] at h
  · simp only [ha, ne_eq, not_false_eq_true, if_true] at h ⊢
    rw [h]

theorem zRun_eof_checked (z : ZReader) (after : List UInt8) (as : List InflAns) (D : List UInt8) (z' : ZReader)
    (h : zRun z after as = (D, some .eof, z')) (hopen : z.err = none) :
    ∃ t r, takeN 4 after = some (t, r) ∧ unbe t = adlerValue (adlerUpdate z.digest D) := by
  induction as generalizing z D with
  | nil => simp [zRun] at h
  | cons a as ih =>
    unfold zRun at h
    simp only [hopen] at h
    have hb := zReadBody_bytes z a after
    have he := zReadBody_eof z a after
    have hn := zReadBody_none z a after
    generalize zReadBody z a after = b at h hb he hn
    obtain ⟨z1, r⟩ := b
    simp only at h hb he hn
    cases hr : r.err with
    | some e =>
      simp only [hr, Prod.mk.injEq, Option.some.injEq] at h
      obtain ⟨hD, hee, _⟩ := h
      subst hee
      obtain ⟨t, r', ht, h1⟩ := he hr
      exact ⟨t, r', ht, by rw [h1, ← hD, hb]⟩
    | none =>
      simp only [hr] at h
      generalize hrec : zRun z1 after as = rec at h
      obtain ⟨d, e, z2⟩ := rec
      simp only [Prod.mk.injEq] at h
      obtain ⟨hD, hee, hz⟩ := h
      subst hee hz
      have hz1 := hn hr
      subst hz1
      obtain ⟨t, r', ht, h1⟩ := ih { digest := adlerUpdate z.digest a.bytes, err := none } d hrec rfl
      exact ⟨t, r', ht, by rw [h1, ← hD, hb, adlerUpdate_append]⟩

end Fastgo.Container
