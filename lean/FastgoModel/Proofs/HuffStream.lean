import FastgoModel.Proofs.WriterStream
import FastgoModel.Writer.HuffControl
/-
  Stream composition for the Huffman-only compressor: the same flush-point and round-trip theorems as for the
  dynamic compressor, under the block encoder's contract `HSound`.
-/
namespace Fastgo.Writer
open Fastgo.Spec
variable {σ : Type} {base : Nat} {H : List UInt8}

/-- leaf contract: one Huffman-only block that the specification inflater decodes to the buffered bytes -/
structure HSound (L : HuffLeaf σ) (mode : Mode) : Prop where
  enc : ∀ (ls : σ) (buf : List UInt8) (final : Bool) (carry : Bits) (h : List UInt8) (pos : Nat), buf ≠ [] →
    ∃ B, IsBlock mode pos B final h.toArray buf ∧
      (final = false → bytesToBits (L.encode ls buf final carry).1.flatten ++ (L.encode ls buf final carry).2.1 = carry ++ B) ∧
      (final = true → (L.encode ls buf final carry).2.1 = [] ∧
        bytesToBits (L.encode ls buf final carry).1.flatten = carry ++ B ++ List.replicate (padLen (carry ++ B).length) false)

structure HInv (mode : Mode) (base : Nat) (H : List UInt8) (D : List UInt8) (s : Huff σ) (d : Dst) : Prop where
  healthy : d.Healthy
  baseLe  : base ≤ d.bytes.length
  pre     : d.bytes.take base = H
  chain : ∃ n q, q + s.buf.length = D.length ∧ s.buf = D.drop q ∧
    Chain mode n 0 (bytesToBits (body base d) ++ s.carry) #[] (D.take q)

/-- a compressor with nothing buffered, at the point of the destination where its stream will begin -/
theorem hinv_fresh (mode : Mode) (s : Huff σ) (d : Dst) (hh : d.Healthy) (h1 : s.buf = []) (h2 : s.carry = []) :
    HInv mode d.bytes.length d.bytes [] s d := by
  refine ⟨hh, Nat.le_refl _, List.take_length, 0, 0, by simp [h1], by simp [h1], ?_⟩
  simp [body, h2, bytesToBits]; exact Chain.nil 0 #[]

theorem hinv_init (mode : Mode) (ls : σ) (d : Dst) (hh : d.Healthy) (hd : d.got = []) : HInv mode 0 [] [] { ls := ls } d := by
  have := hinv_fresh mode ({ ls := ls } : Huff σ) d hh rfl rfl
  have hl : d.bytes = [] := by simp [Dst.bytes, hd]
  rw [hl] at this; exact this

theorem hAccumulate_inv (mode : Mode) (max : Nat) (D data : List UInt8) (s : Huff σ) (d : Dst) (hi : HInv mode base H D s d) :
    HInv mode base H (D ++ data.take (hAccumulate max s data).2.1) (hAccumulate max s data).1 d := by
  obtain ⟨n, q, h1, h2, h3⟩ := hi.chain
  unfold hAccumulate
  dsimp only
  refine ⟨hi.healthy, hi.baseLe, hi.pre, n, q, ?_, ?_, ?_⟩
  · simp only [List.length_append]; omega
  · rw [List.drop_append_of_le_length (by omega), ← h2]
  · rw [List.take_append_of_le_length (by omega)]; exact h3

/-- a non-final encodeBlock on a healthy destination: succeeds, empties the buffer, extends the chain to all of D -/
theorem hEncode_nonfinal (L : HuffLeaf σ) {mode : Mode} (S : HSound L mode) (D : List UInt8) (s : Huff σ) (d : Dst)
    (hi : HInv mode base H D s d) :
    (hEncodeBlock L false s d).2.2 = true ∧ HInv mode base H D (hEncodeBlock L false s d).1 (hEncodeBlock L false s d).2.1 ∧
    (hEncodeBlock L false s d).1.buf = [] := by
  obtain ⟨n, q, h1, h2, h3⟩ := hi.chain
  unfold hEncodeBlock
  simp only [Bool.false_eq_true, false_and, if_false]
  by_cases hb : s.buf = []
  · rw [if_pos hb]
    exact ⟨rfl, hi, hb⟩
  · rw [if_neg hb]
    obtain ⟨w1, w2, w3⟩ := writeAll_healthy d hi.healthy (L.encode s.ls s.buf false s.carry).1
    obtain ⟨B, hB, hnf, _⟩ := S.enc s.ls s.buf false s.carry (D.take q) (bytesToBits (body base d) ++ s.carry).length hb
    have hbits := hnf rfl
    generalize hwa : d.writeAll (L.encode s.ls s.buf false s.carry).1 = wa at w1 w2 w3
    obtain ⟨d1, b⟩ := wa
    simp only at w1 w2 w3
    subst w1
    simp only
    obtain ⟨b1, b2, b3⟩ := body_append base d _ _ hi.baseLe w3
    refine ⟨trivial, ⟨w2, b2, b3.trans hi.pre, n + 1, D.length, by simp, by simp, ?_⟩, trivial⟩
    show Chain mode (n + 1) 0 (bytesToBits (body base d1) ++ (L.encode s.ls s.buf false s.carry).2.1) #[] (D.take D.length)
    rw [b1, bytesToBits_append, List.append_assoc, hbits, ← List.append_assoc, List.take_length]
    have hsn := Chain.snoc h3 B s.buf (by simpa using hB)
    rw [h2, List.take_append_drop] at hsn
    exact hsn

theorem hWriteLoop_inv (L : HuffLeaf σ) {mode : Mode} (S : HSound L mode) (max : Nat)
    (fuel : Nat) (D data : List UInt8) (w : HState σ) (num : Nat) (hi : HInv mode base H D w.huff w.dst) :
    (hWriteLoop L max fuel w data num).2.err = none →
      (hWriteLoop L max fuel w data num).1.err = w.err ∧
      ∃ k, (hWriteLoop L max fuel w data num).2.n = num + k ∧ k ≤ data.length ∧
        HInv mode base H (D ++ data.take k) (hWriteLoop L max fuel w data num).1.huff (hWriteLoop L max fuel w data num).1.dst := by
  induction fuel generalizing D data w num with
  | zero =>
    intro _
    exact ⟨rfl, 0, rfl, Nat.zero_le _, by simpa [hWriteLoop] using hi⟩
  | succ fuel ih =>
    rw [hWriteLoop]
    by_cases hd : data = []
    · rw [if_pos hd]
      intro _
      exact ⟨rfl, 0, rfl, Nat.zero_le _, by simpa using hi⟩
    · rw [if_neg hd]
      have ha := hAccumulate_inv mode max D data w.huff w.dst hi
      have hn : (hAccumulate max w.huff data).2.1 ≤ data.length := by
        unfold hAccumulate; dsimp only; exact Nat.min_le_right _ _
      generalize hacc : hAccumulate max w.huff data = acc at ha hn
      obtain ⟨s1, n, trig⟩ := acc
      simp only at ha hn ⊢
      have hcomb : ∀ k, D ++ data.take n ++ (data.drop n).take k = D ++ data.take (n + k) := by
        intro k
        rw [List.append_assoc]; congr 1
        rw [List.take_add]
      cases trig with
      | false =>
        simp only [Bool.false_eq_true, if_false]
        intro he
        obtain ⟨e1, k, e2, e3, e4⟩ := ih (D ++ data.take n) (data.drop n) { w with huff := s1 } (num + n) ha he
        refine ⟨e1, n + k, by omega, ?_, ?_⟩
        · rw [List.length_drop] at e3; omega
        · rw [hcomb k] at e4; exact e4
      | true =>
        simp only [if_true]
        obtain ⟨c1, c2, _⟩ := hEncode_nonfinal L S (D ++ data.take n) s1 w.dst ha
        generalize hcb : hEncodeBlock L false s1 w.dst = cb at c1 c2
        obtain ⟨s2, d2, o⟩ := cb
        simp only at c1 c2
        subst c1
        simp only
        by_cases hn0 : n = 0
        · rw [if_pos hn0]
          intro _
          subst hn0
          exact ⟨rfl, 0, rfl, Nat.zero_le _, by simpa using c2⟩
        · rw [if_neg hn0]
          intro he
          obtain ⟨e1, k, e2, e3, e4⟩ := ih (D ++ data.take n) (data.drop n) { w with huff := s2, dst := d2 } (num + n) c2 he
          refine ⟨e1, n + k, by omega, ?_, ?_⟩
          · rw [List.length_drop] at e3; omega
          · rw [hcomb k] at e4; exact e4

def HTracks (mode : Mode) (base : Nat) (H : List UInt8) (D : List UInt8) (w : HState σ) : Prop :=
  w.err = none ∧ HInv mode base H D w.huff w.dst

theorem hWrite_tracks (L : HuffLeaf σ) {mode : Mode} (S : HSound L mode) (max : Nat) (D data : List UInt8)
    (w : HState σ) (ht : HTracks mode base H D w) (he : (hWrite L max w data).2.err = none) :
    HTracks mode base H (D ++ data.take (hWrite L max w data).2.n) (hWrite L max w data).1 := by
  unfold hWrite at he ⊢
  rw [ht.1] at he ⊢
  simp only at he ⊢
  obtain ⟨e1, k, e2, _, e4⟩ := hWriteLoop_inv L S max (data.length + 1) D data w 0 ht.2 he
  rw [Nat.zero_add] at e2
  rw [e2]
  exact ⟨e1.trans ht.1, e4⟩

/-- Flush: succeeds on a healthy destination; everything written is a chain of complete blocks at the destination -/
theorem hFlush_tracks (L : HuffLeaf σ) {mode : Mode} (S : HSound L mode) (D : List UInt8) (w : HState σ)
    (ht : HTracks mode base H D w) :
    (hFlush L w).2.err = none ∧ HTracks mode base H D (hFlush L w).1 ∧ (hFlush L w).1.huff.carry = [] ∧
    ∃ n, Chain mode n 0 (bytesToBits (body base (hFlush L w).1.dst)) #[] D := by
  unfold hFlush
  rw [ht.1]
  simp only
  obtain ⟨c1, c2, c3⟩ := hEncode_nonfinal L S D w.huff w.dst ht.2
  generalize hcb : hEncodeBlock L false w.huff w.dst = cb at c1 c2 c3
  obtain ⟨s1, d1, o⟩ := cb
  simp only at c1 c2 c3
  subst c1
  simp only
  obtain ⟨n, q, h1, h2, h3⟩ := c2.chain
  have hq : q = D.length := by rw [c3] at h1; simpa using h1
  rw [hq, List.take_length] at h3
  obtain ⟨w1, w2, w3⟩ := write_healthy d1 c2.healthy (emptyStored s1.carry false)
  generalize hwr : d1.write (emptyStored s1.carry false) = wr at w1 w2 w3
  obtain ⟨d2, b⟩ := wr
  simp only at w1 w2 w3
  subst w1
  simp only
  obtain ⟨b1, b2, b3⟩ := body_append base d1 _ _ c2.baseLe w3
  have hpos : (bytesToBits (body base d1) ++ s1.carry).length % 8 = s1.carry.length % 8 := by
    rw [List.length_append, bytesToBits_length]; omega
  have hbits : bytesToBits (body base d2) = (bytesToBits (body base d1) ++ s1.carry) ++ storedEmptyBits (bytesToBits (body base d1) ++ s1.carry).length false := by
    rw [b1, bytesToBits_append, emptyStored_bits s1.carry false _ hpos, List.append_assoc]
  have hch2 : Chain mode (n + 1) 0 (bytesToBits (body base d2)) #[] D := by
    have := Chain.snoc h3 (storedEmptyBits (bytesToBits (body base d1) ++ s1.carry).length false) []
      (by simpa using storedEmpty_isBlock mode _ false _)
    rw [← hbits, List.append_nil] at this
    exact this
  refine ⟨trivial, ⟨rfl, w2, b2, b3.trans c2.pre, n + 1, D.length, ?_, ?_, ?_⟩, trivial, n + 1, hch2⟩
  · show D.length + s1.buf.length = D.length
    rw [c3]; rfl
  · show s1.buf = D.drop D.length
    rw [c3]; simp
  · show Chain mode (n + 1) 0 (bytesToBits (body base d2) ++ []) #[] (D.take D.length)
    rw [List.append_nil, List.take_length]; exact hch2

/-- Close: succeeds on a healthy destination and completes the stream -/
theorem hClose_tracks (L : HuffLeaf σ) {mode : Mode} (S : HSound L mode) (D : List UInt8) (w : HState σ)
    (ht : HTracks mode base H D w) :
    (hClose L w).2.err = none ∧ (hClose L w).1.err = some .closed ∧ ClosedStream mode D (body base (hClose L w).1.dst) ∧
    (hClose L w).1.dst.Healthy ∧ base ≤ (hClose L w).1.dst.bytes.length ∧ (hClose L w).1.dst.bytes.take base = H := by
  unfold hClose
  rw [ht.1]
  simp only
  obtain ⟨n, q, h1, h2, h3⟩ := ht.2.chain
  unfold hEncodeBlock
  by_cases hb : w.huff.buf = []
  · have hq : q = D.length := by rw [hb] at h1; simpa using h1
    simp only [hb, and_self, if_true]
    obtain ⟨w1, w2, w3⟩ := write_healthy w.dst ht.2.healthy (emptyStored w.huff.carry true)
    generalize hwr : w.dst.write (emptyStored w.huff.carry true) = wr at w1 w2 w3
    obtain ⟨d2, b⟩ := wr
    simp only at w1 w2 w3
    subst w1
    simp only
    obtain ⟨b1, b2, b3⟩ := body_append base w.dst _ _ ht.2.baseLe w3
    refine ⟨trivial, trivial, ⟨n, q, bytesToBits (body base w.dst) ++ w.huff.carry,
      storedEmptyBits (bytesToBits (body base w.dst) ++ w.huff.carry).length true, [], h3, ?_, ?_, by simp, by simp⟩, w2, b2, b3.trans ht.2.pre⟩
    · have : D.drop q = [] := by rw [hq]; simp
      rw [this]; exact storedEmpty_isBlock mode _ true _
    · have hpos : (bytesToBits (body base w.dst) ++ w.huff.carry).length % 8 = w.huff.carry.length % 8 := by
        rw [List.length_append, bytesToBits_length]; omega
      rw [b1, bytesToBits_append, emptyStored_bits w.huff.carry true _ hpos]
      simp [List.append_assoc]
  · have hne : ¬ (true = true ∧ w.huff.buf = []) := fun h => hb h.2
    rw [if_neg hne, if_neg hb]
    obtain ⟨B, hB, _, hfin⟩ := S.enc w.huff.ls w.huff.buf true w.huff.carry (D.take q) (bytesToBits (body base w.dst) ++ w.huff.carry).length hb
    obtain ⟨hc0, hbits⟩ := hfin rfl
    obtain ⟨w1, w2, w3⟩ := writeAll_healthy w.dst ht.2.healthy (L.encode w.huff.ls w.huff.buf true w.huff.carry).1
    generalize hwa : w.dst.writeAll (L.encode w.huff.ls w.huff.buf true w.huff.carry).1 = wa at w1 w2 w3
    obtain ⟨d1, b⟩ := wa
    simp only at w1 w2 w3
    subst w1
    simp only
    obtain ⟨b1, b2, b3⟩ := body_append base w.dst _ _ ht.2.baseLe w3
    refine ⟨trivial, trivial, ⟨n, q, bytesToBits (body base w.dst) ++ w.huff.carry, B,
      List.replicate (padLen (w.huff.carry ++ B).length) false, h3, ?_, ?_,
      by rw [List.length_replicate]; exact padLen_lt _, fun b hb => (List.mem_replicate.mp hb).2⟩, w2, b2, b3.trans ht.2.pre⟩
    · rw [h2] at hB; exact hB
    · rw [b1, bytesToBits_append, hbits]; simp [List.append_assoc]

theorem htracks_reset (mode : Mode) (w : HState σ) (d : Dst) (hh : d.Healthy) (hd : d.got = []) :
    HTracks mode 0 [] [] (hReset w d) := ⟨rfl, hinv_init mode w.huff.ls d hh hd⟩

theorem hStep_tracks (L : HuffLeaf σ) {mode : Mode} (S : HSound L mode) (max : Nat) (D : List UInt8)
    (w : HState σ) (ht : HTracks mode 0 [] D w) (op : Op) (hop : op.keepsOpen) (he : (hStep L max w op).2.err = none) :
    HTracks mode 0 [] (dataAfter D op (hStep L max w op).2) (hStep L max w op).1 := by
  cases op with
  | write data => exact hWrite_tracks L S max D data w ht he
  | flush => exact (hFlush_tracks L S D w ht).2.1
  | close => exact absurd hop (by simp [Op.keepsOpen])
  | reset d => exact htracks_reset mode w d hop.1 hop.2

theorem hRun_tracks (L : HuffLeaf σ) {mode : Mode} (S : HSound L mode) (max : Nat)
    (ops : List Op) (D : List UInt8) (w : HState σ) (ht : HTracks mode 0 [] D w)
    (hops : ∀ op ∈ ops, op.keepsOpen) (he : ∀ r ∈ (hRun L max w ops).2, r.err = none) :
    HTracks mode 0 [] (dataAfterAll D ops (hRun L max w ops).2) (hRun L max w ops).1 := by
  induction ops generalizing D w with
  | nil => simpa [hRun, dataAfterAll] using ht
  | cons op ops ih =>
    rw [hRun] at he ⊢
    simp only at he ⊢
    have h1 := hStep_tracks L S max D w ht op (hops op (List.mem_cons_self)) (he _ (List.mem_cons_self))
    have h2 := ih (dataAfter D op (hStep L max w op).2) (hStep L max w op).1 h1
      (fun o ho => hops o (List.mem_cons_of_mem _ ho)) (fun r hr => he r (List.mem_cons_of_mem _ hr))
    simpa [dataAfterAll] using h2

end Fastgo.Writer
