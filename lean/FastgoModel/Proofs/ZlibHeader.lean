import FastgoModel.Container.Zlib
/-
  parseZHeader (emitZHeader level dict) succeeds: what zlib.Writer writes, zlib.Reader accepts (C06).
-/
namespace Fastgo.Container
open Fastgo.Spec

theorem flevel_cases (level : Int) : flevel level = 0 ∨ flevel level = 1 ∨ flevel level = 2 ∨ flevel level = 3 := by
  unfold flevel; split
  · simp
  · split
    · simp
    · split <;> simp

theorem flgByte_spec (level : Int) (d : Bool) :
    flgByte level d < 256 ∧ (0x78 * 256 + flgByte level d) % 31 = 0 ∧ (flgByte level d / 32 % 2 = 1 ↔ d = true) := by
  unfold flgByte
  rcases flevel_cases level with h | h | h | h <;> rw [h] <;> cases d <;> decide

theorem adlerStep_lt (s : Nat × Nat) (x : UInt8) : (adlerStep s x).1 < 65521 ∧ (adlerStep s x).2 < 65521 := by
  unfold adlerStep; simp only; constructor <;> omega

theorem adlerUpdate_lt (s : Nat × Nat) (bs : List UInt8) (h : s.1 < 65521 ∧ s.2 < 65521) :
    (adlerUpdate s bs).1 < 65521 ∧ (adlerUpdate s bs).2 < 65521 := by
  induction bs generalizing s with
  | nil => simpa [adlerUpdate] using h
  | cons b r ih =>
    simp only [adlerUpdate, List.foldl_cons]
    exact ih _ (adlerStep_lt s b)

theorem adler32_lt (bs : List UInt8) : adler32 bs < 256 ^ 4 := by
  have := adlerUpdate_lt (1, 0) bs (by decide)
  unfold adler32 adlerValue
  omega

theorem zlib_header_roundtrip (level : Int) (dict : Option (List UInt8)) (rest : List UInt8) :
    parseZHeader dict (emitZHeader level dict ++ rest) = .ok dict.isSome rest := by
  obtain ⟨h1, h2, h3⟩ := flgByte_spec level dict.isSome
  have hb : (UInt8.ofNat (flgByte level dict.isSome)).toNat = flgByte level dict.isSome := by
    simp [UInt8.toNat_ofNat']; omega
  have ht2 : takeN 2 (emitZHeader level dict ++ rest) =
      some ([0x78, UInt8.ofNat (flgByte level dict.isSome)], dictPart dict ++ rest) := by
    have := takeN_append [0x78, UInt8.ofNat (flgByte level dict.isSome)] (dictPart dict ++ rest)
    simpa [emitZHeader] using this
  unfold parseZHeader
  rw [ht2]
  simp only [hb]
  have hc : ¬ ((0x78 : UInt8).toNat % 16 ≠ 8 ∨ (0x78 : UInt8).toNat / 16 > 7 ∨ ((0x78 : UInt8).toNat * 256 + flgByte level dict.isSome) % 31 ≠ 0) := by
    have : (0x78 : UInt8).toNat = 0x78 := by decide
    rw [this]; omega
  simp only [hc, if_false]
  cases dict with
  | none =>
    have : ¬ (flgByte level false / 32 % 2 = 1) := by
      have := (flgByte_spec level false).2.2; simp at this; omega
    simp [this, dictPart]
  | some d =>
    have : flgByte level true / 32 % 2 = 1 := ((flgByte_spec level true).2.2).2 rfl
    simp only [Option.isSome_some, this, if_true, dictPart]
    have hl : (be (adler32 d) 4).length = 4 := by simp [be]
    have ht := takeN_append (be (adler32 d) 4) rest
    rw [hl] at ht
    rw [ht]
    simp [unbe_be _ 4 (adler32_lt d)]


end Fastgo.Container
