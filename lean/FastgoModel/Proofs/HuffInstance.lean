import FastgoModel.Proofs.HuffStream
import FastgoModel.Proofs.SoundInstance
/-
  A complete sound instance of the Huffman-only leaf (fixed-Huffman literal blocks), and the replayed leaf of
  the H correspondence.
-/
namespace Fastgo.Writer
open Fastgo.Spec

def fixHuff : HuffLeaf Unit where
  init := ()
  encode := fun _ buf final carry =>
    let bits := carry ++ fixBlockBits final buf
    if final then ([padToBytes bits], [], ())
    else ([packBytes (bits.length / 8) (bits.take (8 * (bits.length / 8)))], bits.drop (8 * (bits.length / 8)), ())

theorem fixHSound (mode : Mode) : HSound fixHuff mode where
  enc := by
    intro ls buf final carry h pos _
    refine ⟨fixBlockBits final buf, fixBlock_isBlock mode pos final h.toArray buf, ?_, ?_⟩
    · intro hf
      subst hf
      simp only [fixHuff, Bool.false_eq_true, if_false, List.flatten_cons, List.flatten_nil, List.append_nil]
      rw [bytesToBits_packBytes _ _ (by rw [List.length_take]; omega), List.take_append_drop]
    · intro hf
      subst hf
      simp only [fixHuff, if_true, List.flatten_cons, List.flatten_nil, List.append_nil]
      exact ⟨trivial, bytesToBits_padToBytes _⟩

/-- replayed leaf: the log holds, per destination write the real encoder made inside encodeBlock, its size -/
structure HLog where
  log : List (List Nat)          -- one entry per encoded block: sizes of its destination writes
  bad : Option String := none

def replayHuff (log : List (List Nat)) : HuffLeaf HLog where
  init := { log := log }
  encode := fun st _ _ carry =>
    match st.log with
    | sizes :: rest => (sizes.map fun n => List.replicate n 0, carry, { st with log := rest })
    | [] => ([], carry, { st with bad := some "a block was encoded but the code encoded none here" })

end Fastgo.Writer
