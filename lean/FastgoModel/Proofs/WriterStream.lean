import FastgoModel.Proofs.BitsBytes
import FastgoModel.Proofs.WriterAppend
namespace Fastgo.Writer
open Fastgo.Spec
variable {MF Tok : Type} {base : Nat} {H : List UInt8}

/-- leaf contracts of the dynamic compressor, relative to the specification inflater -/
structure Sound (L : DynLeaves MF Tok) (mode : Mode) where
  /-- the bytes a token list stands for, given everything decoded before it -/
  resolve : List UInt8 → List Tok → List UInt8
  resolve_nil : ∀ h, resolve h [] = []
  resolve_app : ∀ h a b, resolve h (a ++ b) = resolve h a ++ resolve (h ++ resolve h a) b
  /-- MatchFinder.Sound: the new tokens spell out exactly the bytes consumed; a flush call consumes everything
      unless it stops early (token buffer full), and then it has made progress -/
  gen : ∀ (flush : Bool) (buf : List UInt8) (processed idx : Nat) (mf : MF) (toks : List Tok) (hist : List UInt8),
    idx ≤ buf.length → hist.length = processed → hist.drop (processed - idx) = buf.take idx →
    idx ≤ (L.generate flush buf processed idx mf toks).1 ∧
    (L.generate flush buf processed idx mf toks).1 ≤ buf.length ∧
    (flush = true → (L.generate flush buf processed idx mf toks).1 = buf.length ∨ idx < (L.generate flush buf processed idx mf toks).1) ∧
    ∃ new, (L.generate flush buf processed idx mf toks).2.1 = toks ++ new ∧
      resolve hist new = (buf.drop idx).take ((L.generate flush buf processed idx mf toks).1 - idx)
  /-- the block encoder: the bits handed out plus the new carry are the old carry plus one block (plus the
      padding to a byte boundary after a final block) that decodes to the tokens' bytes -/
  enc : ∀ (mf : MF) (toks : List Tok) (final : Bool) (carry : Bits) (h : List UInt8) (pos : Nat),
    ∃ B, IsBlock mode pos B final h.toArray (resolve h toks) ∧
      (final = false → bytesToBits (L.encode mf (toks ++ [L.eob]) final carry).1.flatten ++ (L.encode mf (toks ++ [L.eob]) final carry).2 = carry ++ B) ∧
      (final = true → (L.encode mf (toks ++ [L.eob]) final carry).2 = [] ∧
        bytesToBits (L.encode mf (toks ++ [L.eob]) final carry).1.flatten = carry ++ B ++ List.replicate (padLen (carry ++ B).length) false)

def Dst.Healthy (d : Dst) : Prop := ∀ k, d.fail k = false

theorem write_healthy (d : Dst) (hh : d.Healthy) (c : List UInt8) :
    (d.write c).2 = true ∧ (d.write c).1.Healthy ∧ (d.write c).1.bytes = d.bytes ++ c := by
  unfold Dst.write
  simp only [hh d.calls, Bool.false_eq_true, if_false]
  refine ⟨trivial, hh, ?_⟩
  simp [Dst.bytes]

theorem writeAll_healthy (d : Dst) (hh : d.Healthy) (cs : List (List UInt8)) :
    (d.writeAll cs).2 = true ∧ (d.writeAll cs).1.Healthy ∧ (d.writeAll cs).1.bytes = d.bytes ++ cs.flatten := by
  induction cs generalizing d with
  | nil => simp [Dst.writeAll, hh]
  | cons c cs ih =>
    obtain ⟨h1, h2, h3⟩ := write_healthy d hh c
    unfold Dst.writeAll
    generalize hw : d.write c = dw at h1 h2 h3
    obtain ⟨d1, b⟩ := dw
    simp only at h1 h2 h3
    subst h1
    simp only
    obtain ⟨i1, i2, i3⟩ := ih d1 h2
    refine ⟨i1, i2, ?_⟩
    rw [i3, h3]; simp

/-- the part of the destination that belongs to this DEFLATE stream: everything after the first `base` bytes
    (a gzip/zlib header written by the wrapper; `base = 0` for a bare flate Writer) -/
def body (base : Nat) (d : Dst) : List UInt8 := d.bytes.drop base

theorem body_zero (d : Dst) : body 0 d = d.bytes := rfl

theorem body_append (base : Nat) (d d1 : Dst) (c : List UInt8) (hb : base ≤ d.bytes.length) (h : d1.bytes = d.bytes ++ c) :
    body base d1 = body base d ++ c ∧ base ≤ d1.bytes.length ∧ d1.bytes.take base = d.bytes.take base := by
  unfold body
  rw [h, List.drop_append_of_le_length hb, List.take_append_of_le_length hb]
  exact ⟨rfl, by simp only [List.length_append]; omega, rfl⟩

/-- all bits produced so far: what the destination holds plus the bit carry -/
def emitted (w : WState MF Tok) : Bits := bytesToBits w.dst.bytes ++ w.dyn.carry


/-- The stream invariant of the dynamic compressor: `D` is all the data written so far. -/
structure DInv (L : DynLeaves MF Tok) {mode : Mode} (S : Sound L mode) (base : Nat) (H : List UInt8) (D : List UInt8) (s : Dyn MF Tok) (d : Dst) : Prop where
  healthy : d.Healthy
  baseLe  : base ≤ d.bytes.length
  pre     : d.bytes.take base = H
  bufLe   : s.buf.length ≤ D.length
  bufEq   : s.buf = D.drop (D.length - s.buf.length)
  idxLe   : s.idx ≤ s.buf.length
  proc    : s.processed + (s.buf.length - s.idx) = D.length
  empty   : s.buf.length = 0 → D = []
  chain   : ∃ n q, q ≤ s.processed ∧ Chain mode n 0 (bytesToBits (body base d) ++ s.carry) #[] (D.take q) ∧
            S.resolve (D.take q) s.tokens = (D.take s.processed).drop q

/-- a compressor with nothing buffered, at the point of the destination where its stream will begin -/
theorem dinv_fresh (L : DynLeaves MF Tok) {mode : Mode} (S : Sound L mode) (s : Dyn MF Tok) (d : Dst) (hh : d.Healthy)
    (h1 : s.buf = []) (h2 : s.idx = 0) (h3 : s.processed = 0) (h4 : s.tokens = []) (h5 : s.carry = []) :
    DInv L S d.bytes.length d.bytes [] s d := by
  refine ⟨hh, Nat.le_refl _, List.take_length, by simp [h1], by simp [h1], by simp [h1, h2], by simp [h1, h2, h3], fun _ => rfl, ?_⟩
  refine ⟨0, 0, by simp [h3], ?_, ?_⟩
  · simp [body, h5, bytesToBits]; exact Chain.nil 0 #[]
  · simp [h4, S.resolve_nil, h3]

theorem dinv_init (L : DynLeaves MF Tok) {mode : Mode} (S : Sound L mode) (d : Dst) (hh : d.Healthy) (hd : d.got = []) :
    DInv L S 0 [] [] (Dyn.init L) d := by
  have := dinv_fresh L S (Dyn.init L) d hh rfl rfl rfl rfl rfl
  have hl : d.bytes = [] := by simp [Dst.bytes, hd]
  rw [hl] at this; exact this

/-- list facts used below -/
theorem take_drop_eq (D : List UInt8) (a b : Nat) (h : b ≤ a) : (D.take a).drop b = (D.drop b).take (a - b) := by
  rw [List.drop_take]

theorem take_append_drop_take (D : List UInt8) (q p : Nat) (h : q ≤ p) : D.take q ++ (D.take p).drop q = D.take p := by
  have : D.take q = (D.take p).take q := by rw [List.take_take]; congr 1; omega
  rw [this, List.take_append_drop]


/-- the state after one match-finder call -/
def afterGen (L : DynLeaves MF Tok) (flush : Bool) (s : Dyn MF Tok) : Dyn MF Tok :=
  let g := L.generate flush s.buf s.processed s.idx s.mf s.tokens
  { s with processed := s.processed + (g.1 - s.idx), idx := g.1, tokens := g.2.1, mf := g.2.2 }

theorem afterGen_inv (L : DynLeaves MF Tok) {mode : Mode} (S : Sound L mode) (D : List UInt8) (flush : Bool)
    (s : Dyn MF Tok) (d : Dst) (hi : DInv L S base H D s d) :
    DInv L S base H D (afterGen L flush s) d ∧
    (flush = true → (afterGen L flush s).idx = (afterGen L flush s).buf.length ∨ s.idx < (afterGen L flush s).idx) ∧
    (afterGen L flush s).buf = s.buf := by
  obtain ⟨n, q, hq, hch, hres⟩ := hi.chain
  have hproc := hi.proc
  have hidx := hi.idxLe
  have hble := hi.bufLe
  -- the history the match finder may refer to ends with the resolved part of the buffer
  have hhist : (D.take s.processed).drop (s.processed - s.idx) = s.buf.take s.idx := by
    have hb := hi.bufEq
    rw [List.drop_take]
    have e1 : s.processed - s.idx = D.length - s.buf.length := by omega
    have e2 : s.processed - (s.processed - s.idx) = s.idx := by omega
    rw [e2, e1, ← hb]
  have hlen : (D.take s.processed).length = s.processed := by rw [List.length_take]; omega
  obtain ⟨g1, g2, g3, new, g4, g5⟩ := S.gen flush s.buf s.processed s.idx s.mf s.tokens (D.take s.processed) hidx hlen hhist
  refine ⟨⟨hi.healthy, hi.baseLe, hi.pre, hble, hi.bufEq, g2, ?_, hi.empty, ?_⟩, g3, rfl⟩
  · show s.processed + ((L.generate flush s.buf s.processed s.idx s.mf s.tokens).1 - s.idx) +
        (s.buf.length - (L.generate flush s.buf s.processed s.idx s.mf s.tokens).1) = D.length
    omega
  · refine ⟨n, q, ?_, hch, ?_⟩
    · show q ≤ s.processed + ((L.generate flush s.buf s.processed s.idx s.mf s.tokens).1 - s.idx)
      omega
    · show S.resolve (D.take q) (L.generate flush s.buf s.processed s.idx s.mf s.tokens).2.1 =
          (D.take (s.processed + ((L.generate flush s.buf s.processed s.idx s.mf s.tokens).1 - s.idx))).drop q
      generalize hk : (L.generate flush s.buf s.processed s.idx s.mf s.tokens).1 - s.idx = k at g5 ⊢
      rw [g4, S.resolve_app, hres, take_append_drop_take D q s.processed hq, g5]
      -- (buf.drop idx).take k = D[processed, processed + k)
      have hb := hi.bufEq
      have hbd : s.buf.drop s.idx = D.drop s.processed := by
        rw [hb, List.drop_drop]; congr 1; omega
      rw [hbd]
      -- (D.take p).drop q ++ (D.drop p).take k = (D.take (p + k)).drop q
      rw [List.drop_take, List.drop_take]
      have hk2 : s.processed + k ≤ D.length := by
        have : k ≤ s.buf.length - s.idx := by omega
        omega
      apply List.ext_getElem
      · simp only [List.length_append, List.length_take, List.length_drop]; omega
      · intro i h1 h2
        simp only [List.length_append, List.length_take, List.length_drop] at h1
        by_cases hi1 : i < s.processed - q
        · rw [List.getElem_append_left (by simp only [List.length_take, List.length_drop]; omega)]
          simp [List.getElem_take, List.getElem_drop]
        · rw [List.getElem_append_right (by simp only [List.length_take, List.length_drop]; omega)]
          simp only [List.getElem_take, List.getElem_drop, List.length_take, List.length_drop]
          congr 1
          omega


/-- the state after a successfully written block -/
def afterEnc (L : DynLeaves MF Tok) (last : Bool) (s1 : Dyn MF Tok) : Dyn MF Tok :=
  { s1 with tokens := [], carry := (L.encode s1.mf (s1.tokens ++ [L.eob]) last s1.carry).2, mf := L.afterBlock s1.mf }

def encDst (L : DynLeaves MF Tok) (last : Bool) (s1 : Dyn MF Tok) (d : Dst) : Dst × Bool :=
  d.writeAll (L.encode s1.mf (s1.tokens ++ [L.eob]) last s1.carry).1

theorem encDst_ok (L : DynLeaves MF Tok) (last : Bool) (s1 : Dyn MF Tok) (d : Dst) (hh : d.Healthy) :
    (encDst L last s1 d).2 = true := (writeAll_healthy d hh _).1

/-- a non-final block: the chain grows by one block and covers everything processed -/
theorem afterEnc_inv (L : DynLeaves MF Tok) {mode : Mode} (S : Sound L mode) (D : List UInt8)
    (s1 : Dyn MF Tok) (d : Dst) (hi : DInv L S base H D s1 d) :
    DInv L S base H D (afterEnc L false s1) (encDst L false s1 d).1 := by
  obtain ⟨n, q, hq, hch, hres⟩ := hi.chain
  obtain ⟨w1, w2, w3⟩ := writeAll_healthy d hi.healthy (L.encode s1.mf (s1.tokens ++ [L.eob]) false s1.carry).1
  obtain ⟨B, hB, hnf, _⟩ := S.enc s1.mf s1.tokens false s1.carry (D.take q) (bytesToBits (body base d) ++ s1.carry).length
  have hbits := hnf rfl
  obtain ⟨b1, b2, b3⟩ := body_append base d _ _ hi.baseLe w3
  refine ⟨w2, b2, b3.trans hi.pre, hi.bufLe, hi.bufEq, hi.idxLe, hi.proc, hi.empty, ?_⟩
  refine ⟨n + 1, s1.processed, Nat.le_refl _, ?_, ?_⟩
  · show Chain mode (n + 1) 0 (bytesToBits (body base (encDst L false s1 d).1) ++ (L.encode s1.mf (s1.tokens ++ [L.eob]) false s1.carry).2) #[] (D.take s1.processed)
    unfold encDst
    rw [b1, bytesToBits_append, List.append_assoc, hbits, ← List.append_assoc]
    have hsn := Chain.snoc hch B (S.resolve (D.take q) s1.tokens) (by simpa using hB)
    rw [hres, take_append_drop_take D q s1.processed hq] at hsn
    exact hsn
  · show S.resolve (D.take s1.processed) [] = (D.take s1.processed).drop s1.processed
    rw [S.resolve_nil]
    have hl : (D.take s1.processed).length ≤ s1.processed := by rw [List.length_take]; omega
    exact (List.drop_eq_nil_of_le hl).symm


def failEnc (L : DynLeaves MF Tok) (last : Bool) (s1 : Dyn MF Tok) : Dyn MF Tok :=
  { s1 with tokens := s1.tokens ++ [L.eob], carry := (L.encode s1.mf (s1.tokens ++ [L.eob]) last s1.carry).2 }

/-- one unfolding of compressBlock in terms of afterGen / afterEnc / encDst (non-final) -/
theorem compressBlock_nonfinal_unfold (L : DynLeaves MF Tok) (c : Cfg) (flush : Bool) (fuel : Nat) (s : Dyn MF Tok) (d : Dst) :
    compressBlock L c flush false (fuel + 1) s d =
      if (afterGen L flush s).tokens.length < c.maxTok ∧ ¬ flush then (afterGen L flush s, d, .ok)
      else
        match encDst L false (afterGen L flush s) d with
        | (d1, false) => (failEnc L false (afterGen L flush s), d1, .failed)
        | (d1, true) =>
          if (afterGen L flush s).idx = (afterGen L flush s).buf.length then (afterEnc L false (afterGen L flush s), d1, .ok)
          else compressBlock L c flush false fuel (afterEnc L false (afterGen L flush s)) d1 := by
  rw [compressBlock]
  simp only [Bool.false_eq_true, false_and, if_false, afterGen, afterEnc, encDst, failEnc, decide_false]
  rfl


theorem afterEnc_frame (L : DynLeaves MF Tok) (last : Bool) (s1 : Dyn MF Tok) :
    (afterEnc L last s1).idx = s1.idx ∧ (afterEnc L last s1).buf = s1.buf := ⟨rfl, rfl⟩

/-- dynCompressor.compressBlock (not final), healthy destination: never fails, keeps the stream invariant,
    and with `flush` consumes everything, leaves no pending token and cannot get stuck (every round of the
    `goto again` loop makes progress) -/
theorem compressBlock_nonfinal (L : DynLeaves MF Tok) {mode : Mode} (S : Sound L mode) (c : Cfg) (D : List UInt8)
    (flush : Bool) (fuel : Nat) (s : Dyn MF Tok) (d : Dst) (hi : DInv L S base H D s d) :
    (compressBlock L c flush false fuel s d).2.2 ≠ .failed ∧
    ((compressBlock L c flush false fuel s d).2.2 = .ok →
      DInv L S base H D (compressBlock L c flush false fuel s d).1 (compressBlock L c flush false fuel s d).2.1 ∧
      (flush = true → (compressBlock L c flush false fuel s d).1.idx = (compressBlock L c flush false fuel s d).1.buf.length ∧
        (compressBlock L c flush false fuel s d).1.tokens = [])) ∧
    (flush = true → s.buf.length - s.idx < fuel → (compressBlock L c flush false fuel s d).2.2 = .ok) := by
  induction fuel generalizing s d with
  | zero => simp [compressBlock]
  | succ fuel ih =>
    rw [compressBlock_nonfinal_unfold]
    obtain ⟨hg, hgf, hgb⟩ := afterGen_inv L S D flush s d hi
    by_cases h1 : (afterGen L flush s).tokens.length < c.maxTok ∧ ¬ flush
    · rw [if_pos h1]
      refine ⟨by simp, fun _ => ⟨hg, fun hf => absurd hf (by simpa using h1.2)⟩, fun hf => absurd hf (by simpa using h1.2)⟩
    · rw [if_neg h1]
      have hok := encDst_ok L false (afterGen L flush s) d hg.healthy
      have he := afterEnc_inv L S D (afterGen L flush s) d hg
      generalize hed : encDst L false (afterGen L flush s) d = ed at hok he
      obtain ⟨d1, b⟩ := ed
      simp only at hok he
      subst hok
      simp only
      by_cases h2 : (afterGen L flush s).idx = (afterGen L flush s).buf.length
      · rw [if_pos h2]
        refine ⟨by simp, fun _ => ⟨he, fun _ => ⟨h2, rfl⟩⟩, fun _ _ => rfl⟩
      · rw [if_neg h2]
        obtain ⟨i1, i2, i3⟩ := ih (afterEnc L false (afterGen L flush s)) d1 he
        refine ⟨i1, i2, fun hf hfu => i3 hf ?_⟩
        obtain ⟨f1, f2⟩ := afterEnc_frame L false (afterGen L flush s)
        rw [f1, f2, hgb]
        rcases hgf hf with h | h
        · exact absurd h h2
        · have := hg.idxLe
          rw [hgb] at this
          omega

/-- the sliding-window shift of Accumulate keeps the invariant -/
theorem shift_inv (L : DynLeaves MF Tok) {mode : Mode} (S : Sound L mode) (c : Cfg) (hw : 0 < c.window) (D : List UInt8)
    (s : Dyn MF Tok) (d : Dst) (hi : DInv L S base H D s d) (h2 : s.idx ≥ 2 * c.window) :
    DInv L S base H D { s with buf := s.buf.drop (s.idx - c.window), idx := s.idx - (s.idx - c.window) } d := by
  have hidx := hi.idxLe
  have hble := hi.bufLe
  have hproc := hi.proc
  refine ⟨hi.healthy, hi.baseLe, hi.pre, ?_, ?_, ?_, ?_, ?_, hi.chain⟩
  · show (s.buf.drop (s.idx - c.window)).length ≤ D.length
    rw [List.length_drop]; omega
  · show s.buf.drop (s.idx - c.window) = D.drop (D.length - (s.buf.drop (s.idx - c.window)).length)
    rw [List.length_drop]
    conv => lhs; rw [hi.bufEq]
    rw [List.drop_drop]; congr 1; omega
  · show s.idx - (s.idx - c.window) ≤ (s.buf.drop (s.idx - c.window)).length
    rw [List.length_drop]; omega
  · show s.processed + ((s.buf.drop (s.idx - c.window)).length - (s.idx - (s.idx - c.window))) = D.length
    rw [List.length_drop]; omega
  · show (s.buf.drop (s.idx - c.window)).length = 0 → D = []
    rw [List.length_drop]; intro h; omega

/-- appending newly written bytes to the buffer extends the data by the same bytes -/
theorem append_inv (L : DynLeaves MF Tok) {mode : Mode} (S : Sound L mode) (D t : List UInt8)
    (s : Dyn MF Tok) (d : Dst) (hi : DInv L S base H D s d) :
    DInv L S base H (D ++ t) { s with buf := s.buf ++ t } d := by
  have hidx := hi.idxLe
  have hble := hi.bufLe
  have hproc := hi.proc
  obtain ⟨n, q, hq, hch, hres⟩ := hi.chain
  have hpl : s.processed ≤ D.length := by omega
  refine ⟨hi.healthy, hi.baseLe, hi.pre, ?_, ?_, ?_, ?_, ?_, ⟨n, q, hq, ?_, ?_⟩⟩
  · show (s.buf ++ t).length ≤ (D ++ t).length
    simp only [List.length_append]; omega
  · show s.buf ++ t = (D ++ t).drop ((D ++ t).length - (s.buf ++ t).length)
    simp only [List.length_append]
    have e : D.length + t.length - (s.buf.length + t.length) = D.length - s.buf.length := by omega
    rw [e, List.drop_append_of_le_length (by omega), ← hi.bufEq]
  · show s.idx ≤ (s.buf ++ t).length
    simp only [List.length_append]; omega
  · show s.processed + ((s.buf ++ t).length - s.idx) = (D ++ t).length
    simp only [List.length_append]; omega
  · show (s.buf ++ t).length = 0 → D ++ t = []
    simp only [List.length_append]
    intro h
    have h0 : s.buf.length = 0 := by omega
    have ht : t = [] := List.eq_nil_of_length_eq_zero (by omega)
    rw [hi.empty h0, ht]; rfl
  · show Chain mode n 0 (bytesToBits (body base d) ++ s.carry) #[] ((D ++ t).take q)
    rw [List.take_append_of_le_length (by omega)]; exact hch
  · show S.resolve ((D ++ t).take q) s.tokens = ((D ++ t).take s.processed).drop q
    rw [List.take_append_of_le_length (by omega), List.take_append_of_le_length hpl]; exact hres

theorem accumulate_inv (L : DynLeaves MF Tok) {mode : Mode} (S : Sound L mode) (c : Cfg) (hw : 0 < c.window) (D data : List UInt8)
    (s : Dyn MF Tok) (d : Dst) (hi : DInv L S base H D s d) :
    DInv L S base H (D ++ data.take (accumulate c s data).2.1) (accumulate c s data).1 d := by
  unfold accumulate
  dsimp only
  by_cases h2 : s.idx ≥ 2 * c.window
  · rw [if_pos h2]
    exact append_inv L S D _ _ d (shift_inv L S c hw D s d hi h2)
  · rw [if_neg h2]
    exact append_inv L S D _ _ d hi


/-- Writer.Write's loop: if it reports no error, the bytes it reports as accepted have joined the data -/
theorem writeLoop_inv (L : DynLeaves MF Tok) {mode : Mode} (S : Sound L mode) (c : Cfg) (hw : 0 < c.window)
    (fuel : Nat) (D data : List UInt8) (w : WState MF Tok) (num : Nat) (hi : DInv L S base H D w.dyn w.dst) :
    (writeLoop L c fuel w data num).2.err = none →
      (writeLoop L c fuel w data num).1.err = w.err ∧
      ∃ k, (writeLoop L c fuel w data num).2.n = num + k ∧ k ≤ data.length ∧
        DInv L S base H (D ++ data.take k) (writeLoop L c fuel w data num).1.dyn (writeLoop L c fuel w data num).1.dst := by
  induction fuel generalizing D data w num with
  | zero =>
    intro _
    exact ⟨rfl, 0, rfl, Nat.zero_le _, by simpa [writeLoop] using hi⟩
  | succ fuel ih =>
    rw [writeLoop]
    by_cases hd : data = []
    · rw [if_pos hd]
      intro _
      exact ⟨rfl, 0, rfl, Nat.zero_le _, by simpa using hi⟩
    · rw [if_neg hd]
      have ha := accumulate_inv L S c hw D data w.dyn w.dst hi
      have hn : (accumulate c w.dyn data).2.1 ≤ data.length := by
        unfold accumulate; dsimp only; exact Nat.min_le_right _ _
      generalize hacc : accumulate c w.dyn data = acc at ha hn
      obtain ⟨s1, n, trig⟩ := acc
      simp only at ha hn ⊢
      have hcomb : ∀ k, k ≤ (data.drop n).length → D ++ data.take n ++ (data.drop n).take k = D ++ data.take (n + k) := by
        intro k _
        rw [List.append_assoc]; congr 1
        rw [List.take_add]
      cases trig with
      | false =>
        simp only [Bool.false_eq_true, if_false]
        intro he
        obtain ⟨e1, k, e2, e3, e4⟩ := ih (D ++ data.take n) (data.drop n) { w with dyn := s1 } (num + n) ha he
        refine ⟨e1, n + k, by omega, ?_, ?_⟩
        · rw [List.length_drop] at e3; omega
        · rw [hcomb k e3] at e4; exact e4
      | true =>
        simp only [if_true]
        obtain ⟨c1, c2, _⟩ := compressBlock_nonfinal L S c (D ++ data.take n) false (fuelFor s1) s1 w.dst ha
        generalize hcb : compressBlock L c false false (fuelFor s1) s1 w.dst = cb at c1 c2
        obtain ⟨s2, d2, o⟩ := cb
        simp only at c1 c2
        cases o with
        | failed => exact absurd rfl c1
        | stuck => intro he; simp at he
        | ok =>
          simp only
          obtain ⟨c3, _⟩ := c2 rfl
          by_cases hn0 : n = 0
          · rw [if_pos hn0]
            intro _
            subst hn0
            refine ⟨rfl, 0, rfl, Nat.zero_le _, by simpa using c3⟩
          · rw [if_neg hn0]
            intro he
            obtain ⟨e1, k, e2, e3, e4⟩ := ih (D ++ data.take n) (data.drop n) { w with dyn := s2, dst := d2 } (num + n) c3 he
            refine ⟨e1, n + k, by omega, ?_, ?_⟩
            · rw [List.length_drop] at e3; omega
            · rw [hcomb k e3] at e4; exact e4


/-- a state in which everything written has been processed and no token is pending: the chain covers all of D -/
theorem chain_all (L : DynLeaves MF Tok) {mode : Mode} (S : Sound L mode) (D : List UInt8) (s : Dyn MF Tok) (d : Dst)
    (hi : DInv L S base H D s d) (hidx : s.idx = s.buf.length) (htok : s.tokens = []) :
    ∃ n, Chain mode n 0 (bytesToBits (body base d) ++ s.carry) #[] D := by
  obtain ⟨n, q, hq, hch, hres⟩ := hi.chain
  have hproc := hi.proc
  rw [htok, S.resolve_nil] at hres
  have hl := congrArg List.length hres
  simp only [List.length_nil, List.length_drop, List.length_take] at hl
  have hqD : q = D.length := by omega
  rw [hqD, List.take_length] at hch
  exact ⟨n, hch⟩

/-- Writer.Flush on a healthy destination: succeeds; what the destination holds is a chain of complete non-final
    blocks for ALL the data written so far, and nothing is held back in the bit carry -/
theorem flush_tracks (L : DynLeaves MF Tok) {mode : Mode} (S : Sound L mode) (c : Cfg) (D : List UInt8)
    (w : WState MF Tok) (he : w.err = none) (hi : DInv L S base H D w.dyn w.dst) :
    (flush L c w).2.err = none ∧ (flush L c w).1.err = none ∧
    DInv L S base H D (flush L c w).1.dyn (flush L c w).1.dst ∧ (flush L c w).1.dyn.carry = [] ∧
    ∃ n, Chain mode n 0 (bytesToBits (body base (flush L c w).1.dst)) #[] D := by
  unfold flush
  rw [he]
  simp only
  obtain ⟨c1, c2, c3⟩ := compressBlock_nonfinal L S c D true (fuelFor w.dyn) w.dyn w.dst hi
  have hok := c3 rfl (by unfold fuelFor; omega)
  generalize hcb : compressBlock L c true false (fuelFor w.dyn) w.dyn w.dst = cb at c1 c2 hok
  obtain ⟨s1, d1, o⟩ := cb
  simp only at c1 c2 hok
  subst hok
  simp only
  obtain ⟨i1, i2⟩ := c2 rfl
  obtain ⟨i3, i4⟩ := i2 trivial
  obtain ⟨w1, w2, w3⟩ := write_healthy d1 i1.healthy (emptyStored s1.carry false)
  generalize hwr : d1.write (emptyStored s1.carry false) = wr at w1 w2 w3
  obtain ⟨d2, b⟩ := wr
  simp only at w1 w2 w3
  subst w1
  simp only
  obtain ⟨b1, b2, b3⟩ := body_append base d1 _ _ i1.baseLe w3
  obtain ⟨n, hch⟩ := chain_all L S D s1 d1 i1 i3 i4
  have hpos : (bytesToBits (body base d1) ++ s1.carry).length % 8 = s1.carry.length % 8 := by
    rw [List.length_append, bytesToBits_length]; omega
  have hbits : bytesToBits (body base d2) = (bytesToBits (body base d1) ++ s1.carry) ++ storedEmptyBits (bytesToBits (body base d1) ++ s1.carry).length false := by
    rw [b1, bytesToBits_append, emptyStored_bits s1.carry false _ hpos, List.append_assoc]
  have hch2 : Chain mode (n + 1) 0 (bytesToBits (body base d2)) #[] D := by
    have := Chain.snoc hch (storedEmptyBits (bytesToBits (body base d1) ++ s1.carry).length false) []
      (by simpa using storedEmpty_isBlock mode _ false _)
    rw [← hbits, List.append_nil] at this
    exact this
  refine ⟨trivial, trivial, ?_, trivial, n + 1, hch2⟩
  refine ⟨w2, b2, b3.trans i1.pre, i1.bufLe, i1.bufEq, i1.idxLe, i1.proc, i1.empty, ?_⟩
  refine ⟨n + 1, D.length, ?_, ?_, ?_⟩
  · show D.length ≤ s1.processed
    have := i1.proc; omega
  · show Chain mode (n + 1) 0 (bytesToBits (body base d2) ++ []) #[] (D.take D.length)
    rw [List.append_nil, List.take_length]; exact hch2
  · show S.resolve (D.take D.length) s1.tokens = (D.take s1.processed).drop D.length
    rw [i4, S.resolve_nil]
    exact (List.drop_eq_nil_of_le (by rw [List.length_take]; omega)).symm


/-- what a closed stream looks like: non-final blocks, one final block, zero padding to the byte boundary -/
def ClosedStream (mode : Mode) (D : List UInt8) (bytes : List UInt8) : Prop :=
  ∃ (n q : Nat) (E B rest : Bits), Chain mode n 0 E #[] (D.take q) ∧ IsBlock mode E.length B true (D.take q).toArray (D.drop q) ∧
    bytesToBits bytes = E ++ (B ++ rest) ∧ rest.length < 8 ∧ ∀ b ∈ rest, b = false

theorem padLen_lt (n : Nat) : padLen n < 8 := by unfold padLen; omega

/-- one unfolding of compressBlock(flush, final) in terms of afterGen / afterEnc / encDst -/
theorem compressBlock_final_unfold (L : DynLeaves MF Tok) (c : Cfg) (fuel : Nat) (s : Dyn MF Tok) (d : Dst) :
    compressBlock L c true true (fuel + 1) s d =
      if s.buf.length = 0 then
        match d.write (emptyStored s.carry true) with
        | (d1, true) => ({ s with carry := [] }, d1, .ok)
        | (d1, false) => (s, d1, .failed)
      else
        match encDst L (decide ((afterGen L true s).idx = (afterGen L true s).buf.length)) (afterGen L true s) d with
        | (d1, false) => (failEnc L (decide ((afterGen L true s).idx = (afterGen L true s).buf.length)) (afterGen L true s), d1, .failed)
        | (d1, true) =>
          if (afterGen L true s).idx = (afterGen L true s).buf.length then
            (afterEnc L (decide ((afterGen L true s).idx = (afterGen L true s).buf.length)) (afterGen L true s), d1, .ok)
          else compressBlock L c true true fuel (afterEnc L (decide ((afterGen L true s).idx = (afterGen L true s).buf.length)) (afterGen L true s)) d1 := by
  rw [compressBlock]
  simp only [true_and, not_true_eq_false, and_false, if_false, afterGen, afterEnc, encDst, failEnc]
  rfl

/-- dynCompressor.compressBlock(final): healthy destination ⇒ succeeds and completes the stream (non-final
    blocks while the match finder stops early, then the final block) -/
theorem compressBlock_final (L : DynLeaves MF Tok) {mode : Mode} (S : Sound L mode) (c : Cfg) (D : List UInt8)
    (fuel : Nat) (s : Dyn MF Tok) (d : Dst) (hi : DInv L S base H D s d) (hfu : s.buf.length - s.idx < fuel) :
    (compressBlock L c true true fuel s d).2.2 = .ok ∧
    ClosedStream mode D (body base (compressBlock L c true true fuel s d).2.1) ∧
    (compressBlock L c true true fuel s d).2.1.Healthy ∧ base ≤ (compressBlock L c true true fuel s d).2.1.bytes.length ∧
    (compressBlock L c true true fuel s d).2.1.bytes.take base = H := by
  induction fuel generalizing s d with
  | zero => omega
  | succ fuel ih =>
  rw [compressBlock_final_unfold]
  obtain ⟨n, q, hq, hch, hres⟩ := hi.chain
  by_cases h0 : s.buf.length = 0
  · have hD := hi.empty h0
    rw [if_pos h0]
    obtain ⟨w1, w2, w3⟩ := write_healthy d hi.healthy (emptyStored s.carry true)
    generalize hwr : d.write (emptyStored s.carry true) = wr at w1 w2 w3
    obtain ⟨d2, b⟩ := wr
    simp only at w1 w2 w3
    subst w1
    simp only
    obtain ⟨b1, b2, b3⟩ := body_append base d _ _ hi.baseLe w3
    refine ⟨trivial, ⟨n, q, bytesToBits (body base d) ++ s.carry, storedEmptyBits (bytesToBits (body base d) ++ s.carry).length true, [], hch, ?_, ?_, by simp, by simp⟩, w2, b2, b3.trans hi.pre⟩
    · have : D.drop q = [] := by rw [hD]; simp
      rw [this]; exact storedEmpty_isBlock mode _ true _
    · have hpos : (bytesToBits (body base d) ++ s.carry).length % 8 = s.carry.length % 8 := by
        rw [List.length_append, bytesToBits_length]; omega
      rw [b1, bytesToBits_append, emptyStored_bits s.carry true _ hpos]
      simp [List.append_assoc]
  · rw [if_neg h0]
    obtain ⟨hg, hgf, hgb⟩ := afterGen_inv L S D true s d hi
    have hprog := hgf rfl
    have hsidx := hi.idxLe
    generalize afterGen L true s = s1 at hg hprog hgb
    by_cases hidx : s1.idx = s1.buf.length
    · -- everything consumed: this is the final block
      obtain ⟨n1, q1, hq1, hch1, hres1⟩ := hg.chain
      simp only [hidx, decide_true, if_true]
      obtain ⟨B, hB, _, hfin⟩ := S.enc s1.mf s1.tokens true s1.carry (D.take q1) (bytesToBits (body base d) ++ s1.carry).length
      obtain ⟨hc0, hbits⟩ := hfin rfl
      obtain ⟨w1, w2, w3⟩ := writeAll_healthy d hg.healthy (L.encode s1.mf (s1.tokens ++ [L.eob]) true s1.carry).1
      unfold encDst
      generalize hwa : d.writeAll (L.encode s1.mf (s1.tokens ++ [L.eob]) true s1.carry).1 = wa at w1 w2 w3
      obtain ⟨d1, b⟩ := wa
      simp only at w1 w2 w3
      subst w1
      simp only
      have hp1 : s1.processed = D.length := by have := hg.proc; omega
      obtain ⟨b1, b2, b3⟩ := body_append base d _ _ hg.baseLe w3
      refine ⟨trivial, ⟨n1, q1, bytesToBits (body base d) ++ s1.carry, B, List.replicate (padLen (s1.carry ++ B).length) false, hch1, ?_, ?_,
        by rw [List.length_replicate]; exact padLen_lt _, fun b hb => (List.mem_replicate.mp hb).2⟩, w2, b2, b3.trans hg.pre⟩
      · rw [hres1, hp1, List.take_length] at hB; exact hB
      · rw [b1, bytesToBits_append, hbits]; simp [List.append_assoc]
    · -- the match finder stopped early: a non-final block, then again
      have hdf : decide (s1.idx = s1.buf.length) = false := by simpa using hidx
      rw [hdf]
      have hok := encDst_ok L false s1 d hg.healthy
      have he := afterEnc_inv L S D s1 d hg
      generalize hed : encDst L false s1 d = ed at hok he
      obtain ⟨d1, b⟩ := ed
      simp only at hok he
      subst hok
      simp only
      rw [if_neg hidx]
      apply ih _ _ he
      obtain ⟨f1, f2⟩ := afterEnc_frame L false s1
      rw [f1, f2, hgb]
      have hle := hg.idxLe
      rw [hgb] at hle
      rcases hprog with h | h
      · exact absurd h hidx
      · omega

/-- "the Writer is open and D is everything written to it since it was created or last Reset" -/
def Tracks (L : DynLeaves MF Tok) {mode : Mode} (S : Sound L mode) (base : Nat) (H : List UInt8) (D : List UInt8) (w : WState MF Tok) : Prop :=
  w.err = none ∧ DInv L S base H D w.dyn w.dst

theorem tracks_init (L : DynLeaves MF Tok) {mode : Mode} (S : Sound L mode) (d : Dst) (hh : d.Healthy) (hd : d.got = []) :
    Tracks L S 0 [] [] (WState.init L d) := ⟨rfl, dinv_init L S d hh hd⟩

/-- a Writer that was just created or Reset, seen from a wrapper that has already written `d.bytes` (its header)
    to the shared destination: the DEFLATE stream begins there -/
theorem tracks_fresh (L : DynLeaves MF Tok) {mode : Mode} (S : Sound L mode) (w : WState MF Tok) (hh : w.dst.Healthy)
    (he : w.err = none) (h1 : w.dyn.buf = []) (h2 : w.dyn.idx = 0) (h3 : w.dyn.processed = 0) (h4 : w.dyn.tokens = [])
    (h5 : w.dyn.carry = []) :
    Tracks L S w.dst.bytes.length w.dst.bytes [] w := ⟨he, dinv_fresh L S w.dyn w.dst hh h1 h2 h3 h4 h5⟩

theorem tracks_reset (L : DynLeaves MF Tok) {mode : Mode} (S : Sound L mode) (w : WState MF Tok) (d : Dst) (hh : d.Healthy) (hd : d.got = []) :
    Tracks L S 0 [] [] (reset L w d) := by
  have := tracks_fresh L S (reset L w d) hh rfl rfl rfl rfl rfl rfl
  have hl : (reset L w d).dst.bytes = [] := by show d.bytes = []; simp [Dst.bytes, hd]
  rw [hl] at this; exact this

theorem write_tracks (L : DynLeaves MF Tok) {mode : Mode} (S : Sound L mode) (c : Cfg) (hw : 0 < c.window) (D data : List UInt8)
    (w : WState MF Tok) (ht : Tracks L S base H D w) (he : (write L c w data).2.err = none) :
    (write L c w data).2.n ≤ data.length ∧ Tracks L S base H (D ++ data.take (write L c w data).2.n) (write L c w data).1 := by
  unfold write at he ⊢
  rw [ht.1] at he ⊢
  simp only at he ⊢
  obtain ⟨e1, k, e2, e3, e4⟩ := writeLoop_inv L S c hw (data.length + 1) D data w 0 ht.2 he
  rw [Nat.zero_add] at e2
  rw [e2]
  exact ⟨e3, e1.trans ht.1, e4⟩

theorem close_tracks (L : DynLeaves MF Tok) {mode : Mode} (S : Sound L mode) (c : Cfg) (D : List UInt8)
    (w : WState MF Tok) (ht : Tracks L S base H D w) :
    (close L c w).2.err = none ∧ (close L c w).1.err = some .closed ∧ ClosedStream mode D (body base (close L c w).1.dst) ∧
    (close L c w).1.dst.Healthy ∧ base ≤ (close L c w).1.dst.bytes.length ∧ (close L c w).1.dst.bytes.take base = H := by
  unfold close
  rw [ht.1]
  simp only
  obtain ⟨c1, c2⟩ := compressBlock_final L S c D (fuelFor w.dyn) w.dyn w.dst ht.2 (by unfold fuelFor; omega)
  generalize compressBlock L c true true (fuelFor w.dyn) w.dyn w.dst = cb at c1 c2
  obtain ⟨s1, d1, o⟩ := cb
  simp only at c1 c2
  subst c1
  exact ⟨rfl, rfl, c2⟩

/-- the bytes of a closed stream inflate to exactly the data, leaving fewer than 8 zero padding bits -/
theorem closedStream_inflate {mode : Mode} {D bytes : List UInt8} (h : ClosedStream mode D bytes) :
    ∃ st rest, inflate mode [] bytes = .done D.toArray rest st ∧ rest.length < 8 ∧ ∀ b ∈ rest, b = false := by
  obtain ⟨n, q, E, B, rest, hc, hb, hbytes, hl, hz⟩ := h
  obtain ⟨st, hinf⟩ := inflate_of_chain_final bytes hc hb hbytes
  rw [List.take_append_drop] at hinf
  exact ⟨st, rest, hinf, hl, hz⟩


/-- operations that keep a Writer open: Write, Flush, and Reset onto a fresh healthy destination -/
def Op.keepsOpen : Op → Prop
  | .write _ => True
  | .flush => True
  | .reset d => d.Healthy ∧ d.got = []
  | .close => False

/-- the data of the current stream after an operation with result `r` -/
def dataAfter (D : List UInt8) : Op → OpRes → List UInt8
  | .write data, r => D ++ data.take r.n
  | .reset _, _ => []
  | _, _ => D

def dataAfterAll (D : List UInt8) : List Op → List OpRes → List UInt8
  | op :: ops, r :: rs => dataAfterAll (dataAfter D op r) ops rs
  | _, _ => D

theorem step_tracks (L : DynLeaves MF Tok) {mode : Mode} (S : Sound L mode) (c : Cfg) (hw : 0 < c.window) (D : List UInt8)
    (w : WState MF Tok) (ht : Tracks L S 0 [] D w) (op : Op) (hop : op.keepsOpen) (he : (step L c w op).2.err = none) :
    Tracks L S 0 [] (dataAfter D op (step L c w op).2) (step L c w op).1 := by
  cases op with
  | write data => exact (write_tracks L S c hw D data w ht he).2
  | flush =>
    obtain ⟨_, f2, f3, _⟩ := flush_tracks L S c D w ht.1 ht.2
    exact ⟨f2, f3⟩
  | close => exact absurd hop (by simp [Op.keepsOpen])
  | reset d => exact tracks_reset L S w d hop.1 hop.2

theorem run_tracks (L : DynLeaves MF Tok) {mode : Mode} (S : Sound L mode) (c : Cfg) (hw : 0 < c.window)
    (ops : List Op) (D : List UInt8) (w : WState MF Tok) (ht : Tracks L S 0 [] D w)
    (hops : ∀ op ∈ ops, op.keepsOpen) (he : ∀ r ∈ (run L c w ops).2, r.err = none) :
    Tracks L S 0 [] (dataAfterAll D ops (run L c w ops).2) (run L c w ops).1 := by
  induction ops generalizing D w with
  | nil => simpa [run, dataAfterAll] using ht
  | cons op ops ih =>
    rw [run] at he ⊢
    simp only at he ⊢
    have h1 := step_tracks L S c hw D w ht op (hops op (List.mem_cons_self)) (he _ (List.mem_cons_self))
    have h2 := ih (dataAfter D op (step L c w op).2) (step L c w op).1 h1
      (fun o ho => hops o (List.mem_cons_of_mem _ ho)) (fun r hr => he r (List.mem_cons_of_mem _ hr))
    simpa [dataAfterAll] using h2

end Fastgo.Writer
