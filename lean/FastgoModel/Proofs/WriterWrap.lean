import FastgoModel.Container.WriterWrap
import FastgoModel.Proofs.WriterStream
import FastgoModel.Proofs.HuffStream
/-
  gzip / zlib Writers over an inner DEFLATE Writer that meets the stream contract `InnerStream`:
  what the destination holds after a successful Flush / Close is header ++ DEFLATE bytes (++ trailer), where the
  DEFLATE bytes are a flush-point prefix / a complete stream of exactly the data written.
-/
namespace Fastgo.CWriter
open Fastgo.Spec Fastgo.Writer Fastgo.Container

/-- contract of the inner Writer as the wrappers see it. `T base H D i`: the inner stream began after the first
    `base` bytes `H` of the destination and has been given the data `D`. -/
structure InnerStream {ι : Type} (O : InnerOps ι) (mode : Mode) where
  T : Nat → List UInt8 → List UInt8 → ι → Prop
  Fresh : ι → Prop
  dst_withDst : ∀ i d, O.dst (O.withDst i d) = d
  fresh_withDst : ∀ i d, Fresh i → Fresh (O.withDst i d)
  fresh_reset : ∀ i d, Fresh (O.reset i d) ∧ O.dst (O.reset i d) = d
  start : ∀ i, Fresh i → (O.dst i).Healthy → T (O.dst i).bytes.length (O.dst i).bytes [] i
  frame : ∀ base H D i, T base H D i →
    (O.dst i).Healthy ∧ base ≤ (O.dst i).bytes.length ∧ (O.dst i).bytes.take base = H
  write : ∀ base H D i p, T base H D i → (O.write i p).2.err = none →
    T base H (D ++ p.take (O.write i p).2.n) (O.write i p).1
  flush : ∀ base H D i, T base H D i →
    (O.flush i).2.err = none ∧ T base H D (O.flush i).1 ∧
    ∃ n, Chain mode n 0 (bytesToBits (body base (O.dst (O.flush i).1))) #[] D
  write_nil : ∀ base H D i, T base H D i → (O.write i []).2.err = none
  close : ∀ base H D i, T base H D i →
    (O.close i).2.err = none ∧ ClosedStream mode D (body base (O.dst (O.close i).1)) ∧
    (O.dst (O.close i).1).Healthy ∧ base ≤ (O.dst (O.close i).1).bytes.length ∧
    (O.dst (O.close i).1).bytes.take base = H

theorem bytes_split (d : Dst) (base : Nat) (H : List UInt8) (h : d.bytes.take base = H) :
    d.bytes = H ++ body base d := by
  unfold body; rw [← h, List.take_append_drop]

variable {ι : Type}

/-- a wrapper write on a healthy destination -/
theorem put_healthy (O : InnerOps ι) {mode : Mode} (C : InnerStream O mode) (i : ι) (c : List UInt8)
    (hh : (O.dst i).Healthy) :
    (O.put i c).2 = true ∧ (O.dst (O.put i c).1).Healthy ∧ (O.dst (O.put i c).1).bytes = (O.dst i).bytes ++ c := by
  unfold InnerOps.put
  obtain ⟨w1, w2, w3⟩ := write_healthy (O.dst i) hh c
  generalize (O.dst i).write c = wr at w1 w2 w3
  obtain ⟨d, b⟩ := wr
  simp only at w1 w2 w3 ⊢
  rw [C.dst_withDst]
  exact ⟨w1, w2, w3⟩

/-! ### zlib -/

/-- the zlib Writer is open, has (or has not yet) written its header `hdr` and the inner stream holds `D` -/
structure ZInv (O : InnerOps ι) {mode : Mode} (C : InnerStream O mode) (D : List UInt8) (z : ZW ι) : Prop where
  err : z.err = none
  open_ : z.closed = false
  adler : z.adler = adlerUpdate (1, 0) D
  before : z.wroteHeader = false → C.Fresh z.inner ∧ (O.dst z.inner).Healthy ∧ (O.dst z.inner).got = [] ∧ D = []
  after : z.wroteHeader = true → C.T (emitZHeader z.level none).length (emitZHeader z.level none) D z.inner

theorem zHeader_inv (O : InnerOps ι) {mode : Mode} (C : InnerStream O mode) (D : List UInt8) (z : ZW ι)
    (hi : ZInv O C D z) :
    ZInv O C D (zHeader O z) ∧ (zHeader O z).wroteHeader = true ∧ (zHeader O z).level = z.level := by
  unfold zHeader
  by_cases hw : z.wroteHeader = true
  · rw [if_pos hw]; exact ⟨hi, hw, rfl⟩
  · rw [if_neg hw]
    have hw' : z.wroteHeader = false := by simpa using hw
    obtain ⟨hf, hh, hg, hD⟩ := hi.before hw'
    obtain ⟨p1, p2, p3⟩ := put_healthy O C z.inner (emitZHeader z.level none) hh
    have hfr : C.Fresh (O.put z.inner (emitZHeader z.level none)).1 := by
      unfold InnerOps.put
      generalize (O.dst z.inner).write (emitZHeader z.level none) = wr
      obtain ⟨d, b⟩ := wr
      exact C.fresh_withDst _ _ hf
    generalize hput : O.put z.inner (emitZHeader z.level none) = pr at p1 p2 p3 hfr
    obtain ⟨i, b⟩ := pr
    simp only at p1 p2 p3 hfr
    subst p1
    simp only
    have hb : (O.dst z.inner).bytes = [] := by simp [Dst.bytes, hg]
    rw [hb, List.nil_append] at p3
    refine ⟨⟨rfl, hi.open_, hi.adler, (fun h => by cases h), fun _ => ?_⟩, trivial, trivial⟩
    have hs := C.start i hfr p2
    rw [p3] at hs
    subst hD
    exact hs


theorem zWrite_inv (O : InnerOps ι) {mode : Mode} (C : InnerStream O mode) (D p : List UInt8) (z : ZW ι)
    (hi : ZInv O C D z) (he : (zWrite O z p).2.err = none) (hn : (zWrite O z p).2.n = p.length) :
    ZInv O C (D ++ p) (zWrite O z p).1 := by
  obtain ⟨h1, h2, h3⟩ := zHeader_inv O C D z hi
  unfold zWrite at he hn ⊢
  generalize zHeader O z = z1 at h1 h2 h3 he hn ⊢
  unfold zWrite1 at he hn ⊢
  have hT := h1.after h2
  have hw := C.write _ _ D z1.inner p hT
  generalize O.write z1.inner p = wr at he hn hw ⊢
  obtain ⟨i, r⟩ := wr
  rw [h1.err] at he hn ⊢
  simp only at he hn hw ⊢
  by_cases hp : p = []
  · rw [if_pos hp]
    subst hp
    rw [List.append_nil]; exact h1
  · rw [if_neg hp] at he hn ⊢
    have he' : r.err = none := by
      cases hre : r.err with
      | none => rfl
      | some e => rw [hre] at he; simp only at he; rw [hre] at he; cases he
    clear he
    cases hr : r.err with
    | some e => rw [hr] at he'; cases he'
    | none =>
      rw [hr] at hn
      simp only at hn ⊢
      have hT2 := hw hr
      rw [hn, List.take_length] at hT2
      refine ⟨rfl, h1.open_, ?_, fun h => ?_, fun _ => hT2⟩
      · show adlerUpdate z1.adler p = adlerUpdate (1, 0) (D ++ p)
        rw [h1.adler, adlerUpdate_append]
      · have : z1.wroteHeader = false := h
        rw [h2] at this; cases this

/-- **zlib flush point**: after a successful Flush the destination holds the 2-byte header followed by a chain of
    complete non-final DEFLATE blocks for all the data written so far -/
theorem zFlush_spec (O : InnerOps ι) {mode : Mode} (C : InnerStream O mode) (D : List UInt8) (z : ZW ι)
    (hi : ZInv O C D z) :
    (zFlush O z).2.err = none ∧ ZInv O C D (zFlush O z).1 ∧
    ∃ bodyBytes n, (O.dst (zFlush O z).1.inner).bytes = emitZHeader z.level none ++ bodyBytes ∧
      Chain mode n 0 (bytesToBits bodyBytes) #[] D := by
  obtain ⟨h1, h2, h3⟩ := zHeader_inv O C D z hi
  unfold zFlush
  generalize zHeader O z = z1 at h1 h2 h3 ⊢
  unfold zFlush1
  have hT := h1.after h2
  obtain ⟨f1, f2, n, f3⟩ := C.flush _ _ D z1.inner hT
  obtain ⟨_, _, g3⟩ := C.frame _ _ _ _ f2
  generalize O.flush z1.inner = fr at f1 f2 f3 g3 ⊢
  obtain ⟨i, r⟩ := fr
  rw [h1.err]
  simp only at f1 f2 f3 g3 ⊢
  rw [h3] at f2 f3 g3
  refine ⟨f1, ⟨f1, h1.open_, h1.adler, fun h => ?_, fun _ => by rw [h3]; exact f2⟩, _, n, bytes_split _ _ _ g3, f3⟩
  have : z1.wroteHeader = false := h
  rw [h2] at this; cases this

/-- **zlib Close**: the destination holds header ++ one complete DEFLATE stream of exactly the data ++ the
    big-endian Adler-32 of the data -/
theorem zClose_spec (O : InnerOps ι) {mode : Mode} (C : InnerStream O mode) (D : List UInt8) (z : ZW ι)
    (hi : ZInv O C D z) :
    (zClose O z).2.err = none ∧ (zClose O z).1.closed = true ∧
    ∃ bodyBytes, (O.dst (zClose O z).1.inner).bytes = emitZHeader z.level none ++ bodyBytes ++ emitZTrailer D ∧
      ClosedStream mode D bodyBytes := by
  obtain ⟨h1, h2, h3⟩ := zHeader_inv O C D z hi
  unfold zClose
  generalize zHeader O z = z1 at h1 h2 h3 ⊢
  unfold zClose1
  have hT := h1.after h2
  obtain ⟨c1, c2, c3, c4, c5⟩ := C.close _ _ D z1.inner hT
  generalize O.close z1.inner = cr at c1 c2 c3 c4 c5 ⊢
  obtain ⟨i, r⟩ := cr
  simp only at c1 c2 c3 c4 c5
  rw [h1.err]
  simp only [h1.open_, Bool.false_eq_true, if_false, c1]
  obtain ⟨p1, p2, p3⟩ := put_healthy O C i (be (adlerValue z1.adler) 4) c3
  generalize O.put i (be (adlerValue z1.adler) 4) = pr at p1 p2 p3 ⊢
  obtain ⟨i2, b⟩ := pr
  simp only at p1 p2 p3
  subst p1
  simp only
  rw [h3] at c2 c5
  refine ⟨trivial, trivial, _, ?_, c2⟩
  rw [p3, bytes_split _ _ _ c5, h1.adler]
  rfl


/-! ### gzip -/

theorem putAll_healthy (O : InnerOps ι) {mode : Mode} (C : InnerStream O mode) (cs : List (List UInt8)) :
    ∀ (i : ι), (O.dst i).Healthy → C.Fresh i →
    (O.putAll i cs).2 = true ∧ (O.dst (O.putAll i cs).1).Healthy ∧ C.Fresh (O.putAll i cs).1 ∧
    (O.dst (O.putAll i cs).1).bytes = (O.dst i).bytes ++ cs.flatten := by
  induction cs with
  | nil => intro i hh hf; exact ⟨rfl, hh, hf, by simp [InnerOps.putAll]⟩
  | cons c cs ih =>
    intro i hh hf
    obtain ⟨p1, p2, p3⟩ := put_healthy O C i c hh
    have hfr : C.Fresh (O.put i c).1 := by
      unfold InnerOps.put
      generalize (O.dst i).write c = wr
      obtain ⟨d, b⟩ := wr
      exact C.fresh_withDst _ _ hf
    unfold InnerOps.putAll
    generalize O.put i c = pr at p1 p2 p3 hfr
    obtain ⟨i1, b⟩ := pr
    simp only at p1 p2 p3 hfr
    subst p1
    simp only
    obtain ⟨q1, q2, q3, q4⟩ := ih i1 p2 hfr
    refine ⟨q1, q2, q3, ?_⟩
    rw [q4, p3]; simp

def sumOf (D : List UInt8) : GzSum := { digest := crc32Update 0 D, size := D.length % 2 ^ 32 }

theorem sumOf_update (D p : List UInt8) : (sumOf D).update p = sumOf (D ++ p) := by
  simp only [sumOf, GzSum.update, crc32Update_append, List.length_append]
  congr 1
  omega

theorem sumOf_trailer (D : List UInt8) : (sumOf D).trailer = emitTrailer D := by
  simp [sumOf, GzSum.trailer, emitTrailer, crc32]

/-- the gzip Writer has no stored error, its running CRC/size are those of `D`, and the inner stream (once the
    header is written) holds `D` -/
structure GCore (O : InnerOps ι) {mode : Mode} (C : InnerStream O mode) (D : List UInt8) (z : GW ι) : Prop where
  err : z.err = none
  sum : z.sum = sumOf D
  before : z.wroteHeader = false → C.Fresh z.inner ∧ (O.dst z.inner).Healthy ∧ (O.dst z.inner).got = [] ∧ D = []
  after : z.wroteHeader = true → C.T (emitHeader z.hdr z.level).length (emitHeader z.hdr z.level) D z.inner

def GInv (O : InnerOps ι) {mode : Mode} (C : InnerStream O mode) (D : List UInt8) (z : GW ι) : Prop :=
  GCore O C D z ∧ z.closed = false

theorem gHeader_inv (O : InnerOps ι) {mode : Mode} (C : InnerStream O mode) (D : List UInt8) (z : GW ι)
    (hi : GCore O C D z) :
    GCore O C D (gHeader O z) ∧ (gHeader O z).wroteHeader = true ∧ (gHeader O z).level = z.level ∧
    (gHeader O z).hdr = z.hdr ∧ (gHeader O z).closed = z.closed := by
  unfold gHeader
  by_cases hw : z.wroteHeader = true
  · rw [if_pos hw]; exact ⟨hi, hw, rfl, rfl, rfl⟩
  · rw [if_neg hw]
    have hw' : z.wroteHeader = false := by simpa using hw
    obtain ⟨hf, hh, hg, hD⟩ := hi.before hw'
    obtain ⟨p1, p2, p3, p4⟩ := putAll_healthy O C (gzHeaderChunks z.hdr z.level) z.inner hh hf
    generalize O.putAll z.inner (gzHeaderChunks z.hdr z.level) = pr at p1 p2 p3 p4
    obtain ⟨i, b⟩ := pr
    simp only at p1 p2 p3 p4
    subst p1
    simp only
    have hb : (O.dst z.inner).bytes = [] := by simp [Dst.bytes, hg]
    rw [hb, List.nil_append, gzHeaderChunks_flatten] at p4
    refine ⟨⟨hi.err, hi.sum, (fun h => by cases h), fun _ => ?_⟩, trivial, trivial, trivial, trivial⟩
    have hs := C.start i p3 p2
    rw [p4] at hs
    subst hD
    exact hs

/-- Write(nil) after the header step keeps the invariant (it is how Flush and Close get the header written) -/
theorem gWrite1_nil (O : InnerOps ι) {mode : Mode} (C : InnerStream O mode) (D : List UInt8) (z1 : GW ι)
    (h1 : GCore O C D z1) (h2 : z1.wroteHeader = true) :
    GCore O C D (gWrite1 O z1 []).1 ∧ (gWrite1 O z1 []).1.wroteHeader = true ∧
    (gWrite1 O z1 []).1.level = z1.level ∧ (gWrite1 O z1 []).1.hdr = z1.hdr ∧ (gWrite1 O z1 []).1.closed = z1.closed := by
  unfold gWrite1
  have hT := h1.after h2
  have hw := C.write _ _ D z1.inner [] hT (C.write_nil _ _ D z1.inner hT)
  have he := C.write_nil _ _ D z1.inner hT
  generalize O.write z1.inner [] = wr at hw he ⊢
  obtain ⟨i, r⟩ := wr
  rw [h1.err]
  simp only at hw he ⊢
  simp only [List.take_nil, List.append_nil] at hw
  refine ⟨⟨he, ?_, fun h => ?_, fun _ => hw⟩, h2, trivial, trivial, trivial⟩
  · show z1.sum.update [] = sumOf D
    rw [h1.sum, sumOf_update, List.append_nil]
  · have : z1.wroteHeader = false := h
    rw [h2] at this; cases this

/-- the state in which Flush / Close find the header written -/
theorem gWithHeader (O : InnerOps ι) {mode : Mode} (C : InnerStream O mode) (D : List UInt8) (z : GW ι)
    (hi : GCore O C D z) :
    ∃ z1 : GW ι, (if z.wroteHeader then z else (gWrite1 O (gHeader O z) []).1) = z1 ∧ GCore O C D z1 ∧
      z1.wroteHeader = true ∧ z1.level = z.level ∧ z1.hdr = z.hdr ∧ z1.closed = z.closed := by
  by_cases hw : z.wroteHeader = true
  · exact ⟨z, by rw [if_pos hw], hi, hw, rfl, rfl, rfl⟩
  · obtain ⟨g1, g2, g3, g4, g5⟩ := gHeader_inv O C D z hi
    obtain ⟨n1, n2, n3, n4, n5⟩ := gWrite1_nil O C D (gHeader O z) g1 g2
    exact ⟨_, by rw [if_neg hw], n1, n2, n3.trans g3, n4.trans g4, n5.trans g5⟩

theorem gWrite_inv (O : InnerOps ι) {mode : Mode} (C : InnerStream O mode) (D p : List UInt8) (z : GW ι)
    (hi : GInv O C D z) (he : (gWrite O z p).2.err = none) (hn : (gWrite O z p).2.n = p.length) :
    GInv O C (D ++ p) (gWrite O z p).1 ∧ (gWrite O z p).1.hdr = z.hdr ∧ (gWrite O z p).1.level = z.level := by
  obtain ⟨h1, h2, h3, h4, h5⟩ := gHeader_inv O C D z hi.1
  unfold gWrite at he hn ⊢
  rw [hi.1.err] at he hn ⊢
  simp only at he hn ⊢
  generalize gHeader O z = z1 at h1 h2 h3 h4 h5 he hn ⊢
  unfold gWrite1 at he hn ⊢
  have hT := h1.after h2
  have hw := C.write _ _ D z1.inner p hT
  generalize O.write z1.inner p = wr at he hn hw ⊢
  obtain ⟨i, r⟩ := wr
  rw [h1.err] at he hn ⊢
  simp only at he hn hw ⊢
  have hT2 := hw he
  rw [hn, List.take_length] at hT2
  refine ⟨⟨⟨he, ?_, fun h => ?_, fun _ => hT2⟩, h5.trans hi.2⟩, h4, h3⟩
  · show z1.sum.update p = sumOf (D ++ p)
    rw [h1.sum, sumOf_update]
  · have : z1.wroteHeader = false := h
    rw [h2] at this; cases this

/-- **gzip flush point** -/
theorem gFlush_spec (O : InnerOps ι) {mode : Mode} (C : InnerStream O mode) (D : List UInt8) (z : GW ι)
    (hi : GInv O C D z) :
    (gFlush O z).2.err = none ∧ GInv O C D (gFlush O z).1 ∧ (gFlush O z).1.hdr = z.hdr ∧ (gFlush O z).1.level = z.level ∧
    ∃ bodyBytes n, (O.dst (gFlush O z).1.inner).bytes = emitHeader z.hdr z.level ++ bodyBytes ∧
      Chain mode n 0 (bytesToBits bodyBytes) #[] D := by
  unfold gFlush
  rw [hi.1.err]
  simp only [hi.2, Bool.false_eq_true, if_false]
  obtain ⟨z1, hz, h1, h2, h3, h4, h5⟩ := gWithHeader O C D z hi.1
  rw [hz]
  unfold gFlush1
  have hT := h1.after h2
  obtain ⟨f1, f2, n, f3⟩ := C.flush _ _ D z1.inner hT
  obtain ⟨_, _, g3⟩ := C.frame _ _ _ _ f2
  generalize O.flush z1.inner = fr at f1 f2 f3 g3 ⊢
  obtain ⟨i, r⟩ := fr
  rw [h1.err]
  simp only at f1 f2 f3 g3 ⊢
  rw [h3, h4] at f3 g3
  refine ⟨f1, ⟨⟨f1, h1.sum, fun h => ?_, fun _ => f2⟩, h5.trans hi.2⟩, h4, h3, _, n, bytes_split _ _ _ g3, f3⟩
  have : z1.wroteHeader = false := h
  rw [h2] at this; cases this

/-- **gzip Close**: header ++ one complete DEFLATE stream of exactly the data ++ CRC-32 and length of the data -/
theorem gClose_spec (O : InnerOps ι) {mode : Mode} (C : InnerStream O mode) (D : List UInt8) (z : GW ι)
    (hi : GInv O C D z) :
    (gClose O z).2.err = none ∧ (gClose O z).1.closed = true ∧
    ∃ bodyBytes, (O.dst (gClose O z).1.inner).bytes = emitHeader z.hdr z.level ++ bodyBytes ++ emitTrailer D ∧
      ClosedStream mode D bodyBytes := by
  unfold gClose
  have hc : GCore O C D { z with closed := true } := ⟨hi.1.err, hi.1.sum, hi.1.before, hi.1.after⟩
  obtain ⟨z1, hz, h1, h2, h3, h4, h5⟩ := gWithHeader O C D { z with closed := true } hc
  simp only at hz h3 h4 h5
  rw [hz, hi.1.err]
  simp only [hi.2, Bool.false_eq_true, if_false]
  unfold gClose1
  have hT := h1.after h2
  obtain ⟨c1, c2, c3, c4, c5⟩ := C.close _ _ D z1.inner hT
  generalize O.close z1.inner = cr at c1 c2 c3 c4 c5 ⊢
  obtain ⟨i, r⟩ := cr
  simp only at c1 c2 c3 c4 c5
  rw [h1.err]
  simp only [c1]
  obtain ⟨p1, p2, p3⟩ := put_healthy O C i z1.sum.trailer c3
  generalize O.put i z1.sum.trailer = pr at p1 p2 p3 ⊢
  obtain ⟨i2, b⟩ := pr
  simp only at p1 p2 p3
  subst p1
  simp only
  rw [h3, h4] at c2 c5
  refine ⟨trivial, h5, _, ?_, c2⟩
  rw [p3, bytes_split _ _ _ c5, h1.sum, sumOf_trailer]

end Fastgo.CWriter


/-! ### the inner Writers of the repository as instances of the contract -/

namespace Fastgo.CWriter
open Fastgo.Spec Fastgo.Writer Fastgo.Container
variable {MF Tok σ : Type}

/-- flate.Writer over the dynamic compressor (levels 1, 2, default) -/
def dynOps (L : DynLeaves MF Tok) (c : Cfg) : InnerOps (WState MF Tok) where
  dst := fun w => w.dst
  withDst := fun w d => { w with dst := d }
  write := fun w p => Writer.write L c w p
  flush := fun w => Writer.flush L c w
  close := fun w => Writer.close L c w
  reset := fun w d => Writer.reset L w d

def dynStream (L : DynLeaves MF Tok) {mode : Mode} (S : Sound L mode) (c : Cfg) (hw : 0 < c.window) :
    InnerStream (dynOps L c) mode where
  T := fun base H D w => Tracks L S base H D w
  Fresh := fun w => w.err = none ∧ w.dyn.buf = [] ∧ w.dyn.idx = 0 ∧ w.dyn.processed = 0 ∧ w.dyn.tokens = [] ∧ w.dyn.carry = []
  dst_withDst := fun _ _ => rfl
  fresh_withDst := fun _ _ h => h
  fresh_reset := fun _ _ => ⟨⟨rfl, rfl, rfl, rfl, rfl, rfl⟩, rfl⟩
  start := fun w hf hh => tracks_fresh L S w hh hf.1 hf.2.1 hf.2.2.1 hf.2.2.2.1 hf.2.2.2.2.1 hf.2.2.2.2.2
  frame := fun _ _ _ _ ht => ⟨ht.2.healthy, ht.2.baseLe, ht.2.pre⟩
  write := fun _ _ D w p ht he => (write_tracks L S c hw D p w ht he).2
  write_nil := by
    intro base H D w ht
    show (Writer.write L c w []).2.err = none
    unfold Writer.write
    rw [ht.1]
    simp [writeLoop_nil]
  flush := by
    intro base H D w ht
    obtain ⟨f1, f2, f3, _, f5⟩ := flush_tracks L S c D w ht.1 ht.2
    exact ⟨f1, ⟨f2, f3⟩, f5⟩
  close := by
    intro base H D w ht
    obtain ⟨c1, _, c3, c4, c5, c6⟩ := close_tracks L S c D w ht
    exact ⟨c1, c3, c4, c5, c6⟩

/-- flate.Writer over the Huffman-only compressor (level -2) -/
def huffOps (L : HuffLeaf σ) (max : Nat) : InnerOps (HState σ) where
  dst := fun w => w.dst
  withDst := fun w d => { w with dst := d }
  write := fun w p => hWrite L max w p
  flush := fun w => hFlush L w
  close := fun w => hClose L w
  reset := fun w d => hReset w d

theorem hWriteLoop_nil (L : HuffLeaf σ) (max fuel : Nat) (w : HState σ) (num : Nat) :
    hWriteLoop L max fuel w [] num = (w, { n := num }) := by
  cases fuel <;> simp [hWriteLoop]

def huffStream (L : HuffLeaf σ) {mode : Mode} (S : HSound L mode) (max : Nat) : InnerStream (huffOps L max) mode where
  T := fun base H D w => HTracks mode base H D w
  Fresh := fun w => w.err = none ∧ w.huff.buf = [] ∧ w.huff.carry = []
  dst_withDst := fun _ _ => rfl
  fresh_withDst := fun _ _ h => h
  fresh_reset := fun _ _ => ⟨⟨rfl, rfl, rfl⟩, rfl⟩
  start := fun w hf hh => ⟨hf.1, hinv_fresh mode w.huff w.dst hh hf.2.1 hf.2.2⟩
  frame := fun _ _ _ _ ht => ⟨ht.2.healthy, ht.2.baseLe, ht.2.pre⟩
  write := fun _ _ D w p ht he => hWrite_tracks L S max D p w ht he
  write_nil := by
    intro base H D w ht
    show (hWrite L max w []).2.err = none
    unfold hWrite
    rw [ht.1]
    simp [hWriteLoop_nil]
  flush := by
    intro base H D w ht
    obtain ⟨f1, f2, _, f4⟩ := hFlush_tracks L S D w ht
    exact ⟨f1, f2, f4⟩
  close := by
    intro base H D w ht
    obtain ⟨c1, _, c3, c4, c5, c6⟩ := hClose_tracks L S D w ht
    exact ⟨c1, c3, c4, c5, c6⟩

end Fastgo.CWriter


/-! ### histories -/

namespace Fastgo.CWriter
open Fastgo.Spec Fastgo.Writer Fastgo.Container
variable {ι : Type}

/-- an operation that went through: Write accepted all its bytes, Flush returned nil, Reset targets a fresh
    healthy destination; Close is not part of a history that stays open -/
def accepted : Op → OpRes → Prop
  | .write p, r => r.err = none ∧ r.n = p.length
  | .flush, r => r.err = none
  | .reset d, _ => d.Healthy ∧ d.got = []
  | .close, _ => False

def allAccepted : List Op → List OpRes → Prop
  | op :: ops, r :: rs => accepted op r ∧ allAccepted ops rs
  | [], [] => True
  | _, _ => False

def dataOf (D : List UInt8) : List Op → List UInt8
  | [] => D
  | .write p :: ops => dataOf (D ++ p) ops
  | .reset _ :: ops => dataOf [] ops
  | _ :: ops => dataOf D ops

theorem zHeader_level (O : InnerOps ι) (z : ZW ι) : (zHeader O z).level = z.level := by
  unfold zHeader; repeat' split
  all_goals rfl

theorem zWrite_level (O : InnerOps ι) (z : ZW ι) (p : List UInt8) : (zWrite O z p).1.level = z.level := by
  have : ∀ z1 : ZW ι, (zWrite1 O z1 p).1.level = z1.level := by
    intro z1; unfold zWrite1; repeat' split
    all_goals rfl
  unfold zWrite; rw [this, zHeader_level]

theorem zFlush_level (O : InnerOps ι) (z : ZW ι) : (zFlush O z).1.level = z.level := by
  have : ∀ z1 : ZW ι, (zFlush1 O z1).1.level = z1.level := by
    intro z1; unfold zFlush1; repeat' split
    all_goals rfl
  unfold zFlush; rw [this, zHeader_level]

def ZW.init (i : ι) (level : Int) : ZW ι := { inner := i, level := level }

theorem zinv_fresh (O : InnerOps ι) {mode : Mode} (C : InnerStream O mode) (i : ι) (level : Int)
    (hf : C.Fresh i) (hh : (O.dst i).Healthy) (hg : (O.dst i).got = []) : ZInv O C [] (ZW.init i level) :=
  ⟨rfl, rfl, rfl, fun _ => ⟨hf, hh, hg, rfl⟩, fun h => by cases h⟩

theorem zRun_inv (O : InnerOps ι) {mode : Mode} (C : InnerStream O mode) (ops : List Op) (D : List UInt8) (z : ZW ι)
    (hi : ZInv O C D z) (ha : allAccepted ops (zRun O z ops).2) :
    ZInv O C (dataOf D ops) (zRun O z ops).1 ∧ (zRun O z ops).1.level = z.level := by
  induction ops generalizing D z with
  | nil => exact ⟨hi, rfl⟩
  | cons op ops ih =>
    rw [zRun] at ha ⊢
    simp only [allAccepted] at ha ⊢
    obtain ⟨a1, a2⟩ := ha
    cases op with
    | write p =>
      have h1 := zWrite_inv O C D p z hi a1.1 a1.2
      obtain ⟨i1, i2⟩ := ih (D ++ p) _ h1 a2
      exact ⟨i1, i2.trans (zWrite_level O z p)⟩
    | flush =>
      obtain ⟨_, h1, _⟩ := zFlush_spec O C D z hi
      obtain ⟨i1, i2⟩ := ih D _ h1 a2
      exact ⟨i1, i2.trans (zFlush_level O z)⟩
    | close => exact absurd a1 (by simp [accepted, zStep])
    | reset d =>
      have a1' : d.Healthy ∧ d.got = [] := a1
      obtain ⟨f1, f2⟩ := C.fresh_reset z.inner d
      have h1 : ZInv O C [] (zReset O z d) :=
        ⟨rfl, rfl, rfl, (fun _ => ⟨f1, by show (O.dst (O.reset z.inner d)).Healthy; rw [f2]; exact a1'.1, by show (O.dst (O.reset z.inner d)).got = []; rw [f2]; exact a1'.2, rfl⟩), (fun h => by cases h)⟩
      obtain ⟨i1, i2⟩ := ih [] _ h1 a2
      exact ⟨i1, i2⟩


/-! gzip -/

/-- the Header a gzip Writer uses for the current member: Reset returns it to its zero value (OS = 255) -/
def hdrOf (h : GzHeader) : List Op → GzHeader
  | [] => h
  | .reset _ :: ops => hdrOf {} ops
  | _ :: ops => hdrOf h ops

def GW.init (i : ι) (level : Int) (h : GzHeader) : GW ι := { inner := i, level := level, hdr := h }

theorem ginv_fresh (O : InnerOps ι) {mode : Mode} (C : InnerStream O mode) (i : ι) (level : Int) (h : GzHeader)
    (hf : C.Fresh i) (hh : (O.dst i).Healthy) (hg : (O.dst i).got = []) : GInv O C [] (GW.init i level h) :=
  ⟨⟨rfl, rfl, fun _ => ⟨hf, hh, hg, rfl⟩, fun h => by cases h⟩, rfl⟩

theorem gRun_inv (O : InnerOps ι) {mode : Mode} (C : InnerStream O mode) (ops : List Op) (D : List UInt8) (z : GW ι)
    (hi : GInv O C D z) (ha : allAccepted ops (gRun O z ops).2) :
    GInv O C (dataOf D ops) (gRun O z ops).1 ∧ (gRun O z ops).1.level = z.level ∧
    (gRun O z ops).1.hdr = hdrOf z.hdr ops := by
  induction ops generalizing D z with
  | nil => exact ⟨hi, rfl, rfl⟩
  | cons op ops ih =>
    rw [gRun] at ha ⊢
    simp only [allAccepted] at ha ⊢
    obtain ⟨a1, a2⟩ := ha
    cases op with
    | write p =>
      obtain ⟨h1, h2, h3⟩ := gWrite_inv O C D p z hi a1.1 a1.2
      obtain ⟨i1, i2, i3⟩ := ih (D ++ p) _ h1 a2
      exact ⟨i1, i2.trans h3, i3.trans (by rw [h2]; rfl)⟩
    | flush =>
      obtain ⟨_, h1, h2, h3, _⟩ := gFlush_spec O C D z hi
      obtain ⟨i1, i2, i3⟩ := ih D _ h1 a2
      exact ⟨i1, i2.trans h3, i3.trans (by rw [h2]; rfl)⟩
    | close => exact absurd a1 (by simp [accepted])
    | reset d =>
      have a1' : d.Healthy ∧ d.got = [] := a1
      obtain ⟨f1, f2⟩ := C.fresh_reset z.inner d
      have h1 : GInv O C [] (gReset O z d) :=
        ⟨⟨rfl, rfl, (fun _ => ⟨f1, by show (O.dst (O.reset z.inner d)).Healthy; rw [f2]; exact a1'.1,
            by show (O.dst (O.reset z.inner d)).got = []; rw [f2]; exact a1'.2, rfl⟩), (fun h => by cases h)⟩, rfl⟩
      obtain ⟨i1, i2, i3⟩ := ih [] _ h1 a2
      exact ⟨i1, i2, i3⟩

end Fastgo.CWriter


/-! ### property-level statements for the container Writers (C10, C01/C06) -/

namespace Fastgo.CWriter
open Fastgo.Spec Fastgo.Writer Fastgo.Container
variable {ι : Type}

/-- zlib Writer, any accepted history, then Flush: header, then a DEFLATE prefix that decodes to all the data and
    asks for more at a block boundary -/
theorem zlib_flush_point (O : InnerOps ι) {mode : Mode} (C : InnerStream O mode) (i : ι) (level : Int)
    (hf : C.Fresh i) (hh : (O.dst i).Healthy) (hg : (O.dst i).got = []) (ops : List Op)
    (ha : allAccepted ops (zRun O (ZW.init i level) ops).2) :
    (zFlush O (zRun O (ZW.init i level) ops).1).2.err = none ∧
    ∃ bodyBytes st, (O.dst (zFlush O (zRun O (ZW.init i level) ops).1).1.inner).bytes = emitZHeader level none ++ bodyBytes ∧
      inflate mode [] bodyBytes = .needMore (dataOf [] ops).toArray [] st true := by
  obtain ⟨h1, h2⟩ := zRun_inv O C ops [] _ (zinv_fresh O C i level hf hh hg) ha
  obtain ⟨f1, _, b, n, f3, f4⟩ := zFlush_spec O C _ _ h1
  obtain ⟨st, hinf⟩ := inflate_of_chain b f4
  rw [h2] at f3
  exact ⟨f1, b, st, f3, hinf⟩

/-- zlib Writer, any accepted history, then Close: header ++ one complete DEFLATE stream of the data ++ Adler-32 -/
theorem zlib_close_stream (O : InnerOps ι) {mode : Mode} (C : InnerStream O mode) (i : ι) (level : Int)
    (hf : C.Fresh i) (hh : (O.dst i).Healthy) (hg : (O.dst i).got = []) (ops : List Op)
    (ha : allAccepted ops (zRun O (ZW.init i level) ops).2) :
    (zClose O (zRun O (ZW.init i level) ops).1).2.err = none ∧
    ∃ bodyBytes st rest, (O.dst (zClose O (zRun O (ZW.init i level) ops).1).1.inner).bytes =
        emitZHeader level none ++ bodyBytes ++ emitZTrailer (dataOf [] ops) ∧
      inflate mode [] bodyBytes = .done (dataOf [] ops).toArray rest st ∧ rest.length < 8 := by
  obtain ⟨h1, h2⟩ := zRun_inv O C ops [] _ (zinv_fresh O C i level hf hh hg) ha
  obtain ⟨c1, _, b, c3, c4⟩ := zClose_spec O C _ _ h1
  obtain ⟨st, rest, hinf, hl, _⟩ := closedStream_inflate c4
  rw [h2] at c3
  exact ⟨c1, b, st, rest, c3, hinf, hl⟩

theorem gzip_flush_point (O : InnerOps ι) {mode : Mode} (C : InnerStream O mode) (i : ι) (level : Int) (h : GzHeader)
    (hf : C.Fresh i) (hh : (O.dst i).Healthy) (hg : (O.dst i).got = []) (ops : List Op)
    (ha : allAccepted ops (gRun O (GW.init i level h) ops).2) :
    (gFlush O (gRun O (GW.init i level h) ops).1).2.err = none ∧
    ∃ bodyBytes st, (O.dst (gFlush O (gRun O (GW.init i level h) ops).1).1.inner).bytes =
        emitHeader (hdrOf h ops) level ++ bodyBytes ∧
      inflate mode [] bodyBytes = .needMore (dataOf [] ops).toArray [] st true := by
  obtain ⟨h1, h2, h3⟩ := gRun_inv O C ops [] _ (ginv_fresh O C i level h hf hh hg) ha
  obtain ⟨f1, _, _, _, b, n, f3, f4⟩ := gFlush_spec O C _ _ h1
  obtain ⟨st, hinf⟩ := inflate_of_chain b f4
  rw [h2, h3] at f3
  exact ⟨f1, b, st, f3, hinf⟩

theorem gzip_close_stream (O : InnerOps ι) {mode : Mode} (C : InnerStream O mode) (i : ι) (level : Int) (h : GzHeader)
    (hf : C.Fresh i) (hh : (O.dst i).Healthy) (hg : (O.dst i).got = []) (ops : List Op)
    (ha : allAccepted ops (gRun O (GW.init i level h) ops).2) :
    (gClose O (gRun O (GW.init i level h) ops).1).2.err = none ∧
    ∃ bodyBytes st rest, (O.dst (gClose O (gRun O (GW.init i level h) ops).1).1.inner).bytes =
        emitHeader (hdrOf h ops) level ++ bodyBytes ++ emitTrailer (dataOf [] ops) ∧
      inflate mode [] bodyBytes = .done (dataOf [] ops).toArray rest st ∧ rest.length < 8 := by
  obtain ⟨h1, h2, h3⟩ := gRun_inv O C ops [] _ (ginv_fresh O C i level h hf hh hg) ha
  obtain ⟨c1, _, b, c3, c4⟩ := gClose_spec O C _ _ h1
  obtain ⟨st, rest, hinf, hl, _⟩ := closedStream_inflate c4
  rw [h2, h3] at c3
  exact ⟨c1, b, st, rest, c3, hinf, hl⟩

end Fastgo.CWriter

/-! ### sticky errors and idempotent Close of the container Writers -/

namespace Fastgo.CWriter
open Fastgo.Spec Fastgo.Writer Fastgo.Container
variable {ι : Type}

/-- gzip: once an error is stored every call returns it and touches nothing -/
theorem gzip_sticky (O : InnerOps ι) (z : GW ι) (e : Err) (he : z.err = some e) :
    (∀ p, gWrite O z p = (z, { n := 0, err := some e })) ∧ gFlush O z = (z, { err := some e }) ∧
    gClose O z = (z, { err := some e }) := by
  refine ⟨fun p => ?_, ?_, ?_⟩
  · unfold gWrite; rw [he]
  · unfold gFlush; rw [he]
  · unfold gClose; rw [he]

/-- gzip: after a successful Close, Close and Flush return nil and touch nothing -/
theorem gzip_closed_idempotent (O : InnerOps ι) (z : GW ι) (he : z.err = none) (hc : z.closed = true) :
    gClose O z = (z, {}) ∧ gFlush O z = (z, {}) := by
  refine ⟨?_, ?_⟩
  · unfold gClose; rw [he]; simp [hc]
  · unfold gFlush; rw [he]; simp [hc]

/-- zlib: a stored error implies the header step has been taken (it is the only thing that runs before the check) -/
def ZErrInv (z : ZW ι) : Prop := z.err ≠ none → z.wroteHeader = true

theorem zHeader_noop (O : InnerOps ι) (z : ZW ι) (hw : z.wroteHeader = true) : zHeader O z = z := by
  unfold zHeader; rw [if_pos hw]

/-- zlib: once an error is stored every call returns it and touches nothing -/
theorem zlib_sticky (O : InnerOps ι) (z : ZW ι) (e : Err) (he : z.err = some e) (hi : ZErrInv z) :
    (∀ p, zWrite O z p = (z, { n := 0, err := some e })) ∧ zFlush O z = (z, { err := some e }) ∧
    zClose O z = (z, { err := some e }) := by
  have hw : z.wroteHeader = true := hi (by rw [he]; simp)
  refine ⟨fun p => ?_, ?_, ?_⟩
  · unfold zWrite; rw [zHeader_noop O z hw]; unfold zWrite1; rw [he]
  · unfold zFlush; rw [zHeader_noop O z hw]; unfold zFlush1; rw [he]
  · unfold zClose; rw [zHeader_noop O z hw]; unfold zClose1; rw [he]

/-- the header step establishes the invariant, and every operation keeps it -/
theorem zHeader_errInv (O : InnerOps ι) (z : ZW ι) : (zHeader O z).wroteHeader = true := by
  unfold zHeader
  by_cases hw : z.wroteHeader = true
  · rw [if_pos hw]; exact hw
  · rw [if_neg hw]
    split <;> rfl

theorem zStep_errInv (O : InnerOps ι) (z : ZW ι) (op : Op) : ZErrInv (zStep O z op).1 := by
  have hwf : ∀ z1 : ZW ι, z1.wroteHeader = true →
      (∀ p, (zWrite1 O z1 p).1.wroteHeader = true) ∧ (zFlush1 O z1).1.wroteHeader = true ∧ (zClose1 O z1).1.wroteHeader = true := by
    intro z1 h1
    refine ⟨fun p => ?_, ?_, ?_⟩
    · unfold zWrite1; repeat' split
      all_goals exact h1
    · unfold zFlush1; repeat' split
      all_goals exact h1
    · unfold zClose1; repeat' split
      all_goals exact h1
  obtain ⟨w1, w2, w3⟩ := hwf (zHeader O z) (zHeader_errInv O z)
  cases op with
  | write p => exact fun _ => w1 p
  | flush => exact fun _ => w2
  | close => exact fun _ => w3
  | reset d => intro h; exact absurd rfl h

/-- zlib: after a successful Close, Close returns nil and touches nothing -/
theorem zlib_closed_idempotent (O : InnerOps ι) (z : ZW ι) (he : z.err = none) (hc : z.closed = true)
    (hw : z.wroteHeader = true) : zClose O z = (z, {}) := by
  unfold zClose; rw [zHeader_noop O z hw]; unfold zClose1; rw [he]; simp [hc]

end Fastgo.CWriter
