import FastgoModel.Proofs.WriterWrap
import FastgoModel.Proofs.FrameUncond
/-
  End-to-end round trip INSIDE the model, with no inflater hypothesis: what the gzip / zlib Writer control models put on
  the destination for any accepted history (header ++ one complete DEFLATE stream ++ trailer: `gzip_close_stream`,
  `zlib_close_stream`), followed by ANY bytes, is read back by the container Reader models over the SPECIFICATION inflater
  as exactly the header, the data written, and those following bytes (`specInflater_exact_of_done` from the unconditional
  frame theorem `inflate_prefix_stable`).
-/
namespace Fastgo.CWriter
open Fastgo.Spec Fastgo.Container Fastgo.Writer

theorem gzip_roundtrip_model {ι : Type} (O : InnerOps ι) {mode : Mode} (C : InnerStream O mode)
    (i : ι) (level : Int) (h : GzHeader) (hf : C.Fresh i) (hh : (O.dst i).Healthy) (hg : (O.dst i).got = [])
    (ops : List Writer.Op) (ha : allAccepted ops (gRun O (GW.init i level h) ops).2)
    (hwf : (hdrOf h ops).WF) (after : List UInt8) :
    (gClose O (gRun O (GW.init i level h) ops).1).2.err = none ∧
    readOneMember (specInflater mode) ((O.dst (gClose O (gRun O (GW.init i level h) ops).1).1.inner).bytes ++ after) =
      some (hdrOf h ops, dataOf [] ops, after) := by
  obtain ⟨he, body, st, rest, hb, hd, hr⟩ := gzip_close_stream O C i level h hf hh hg ops ha
  refine ⟨he, ?_⟩
  have hE := specInflater_exact_of_done mode body (dataOf [] ops).toArray rest st hd hr
  have hE' : (specInflater mode).Exact body (dataOf [] ops) := by simpa using hE
  rw [hb]
  have := readOneMember_member (specInflater mode) (hdrOf h ops) hwf level body (dataOf [] ops) after hE'
  unfold gzMember at this
  simpa [List.append_assoc] using this

theorem zlib_roundtrip_model {ι : Type} (O : InnerOps ι) {mode : Mode} (C : InnerStream O mode)
    (i : ι) (level : Int) (hf : C.Fresh i) (hh : (O.dst i).Healthy) (hg : (O.dst i).got = [])
    (ops : List Writer.Op) (ha : allAccepted ops (zRun O (ZW.init i level) ops).2) (after : List UInt8) :
    (zClose O (zRun O (ZW.init i level) ops).1).2.err = none ∧
    readZlib (specInflater mode) ((O.dst (zClose O (zRun O (ZW.init i level) ops).1).1.inner).bytes ++ after) =
      some (dataOf [] ops, after) := by
  obtain ⟨he, body, st, rest, hb, hd, hr⟩ := zlib_close_stream O C i level hf hh hg ops ha
  refine ⟨he, ?_⟩
  have hE := specInflater_exact_of_done mode body (dataOf [] ops).toArray rest st hd hr
  have hE' : (specInflater mode).Exact body (dataOf [] ops) := by simpa using hE
  rw [hb]
  have := readZlib_stream (specInflater mode) level body (dataOf [] ops) after hE'
  simpa [List.append_assoc] using this

end Fastgo.CWriter
