import FastgoModel.Proofs.BlockHistory
import FastgoModel.Container.Members
import FastgoModel.Proofs.ZlibHeader
/-
  Frame theorem for whole streams, and the specification inflater as the `Inflater` of the container Reader models:
  a byte string that the specification decodes to the end (every block declaring prefix-free codes — `streamPF`, a
  decidable condition) is decoded identically, and the inflater stops exactly behind it, WHATEVER bytes follow
  (`inflate_frame`, `specInflater_exact`). With `readOneMember_member` this removes the abstract `Exact` hypothesis from the
  gzip read-back theorem for every stream that passes the executable check `checkStream`.
-/
namespace Fastgo.Spec

/-- the result of a block does not depend on the statistics handed in -/
theorem inflateBlock_stats (mode : Mode) (pos : Nat) (B : Bits) (h : Array UInt8) (st st' : Stats)
    (final : Bool) (o : Array UInt8) (r : Bits) (s : Stats) (hpf : blockCodesPF mode B = true)
    (hb : inflateBlock mode pos B h st = .next final o r s) :
    ∃ s', inflateBlock mode pos B h st' = .next final o r s' := by
  obtain ⟨s', h'⟩ := inflateBlock_frame mode pos B h st final o r s hpf hb [] st'
  exact ⟨s', by simpa using h'⟩

/-- every block of the stream declares prefix-free codes -/
def streamPF (mode : Mode) : Nat → Nat → Bits → Array UInt8 → Bool
  | 0, _, _, _ => false
  | fuel + 1, pos, bs, out =>
    blockCodesPF mode bs &&
    match inflateBlock mode pos bs out {} with
    | .next final o r _ => if final then true else streamPF mode fuel (pos + (bs.length - r.length)) r o
    | _ => false

theorem inflateBlocks_frame (mode : Mode) : ∀ (fuel : Nat) (pos : Nat) (bs : Bits) (out : Array UInt8) (st : Stats)
    (O : Array UInt8) (R : Bits) (S : Stats),
    streamPF mode fuel pos bs out = true → inflateBlocks mode fuel pos bs out st = .done O R S →
    ∀ (t : Bits) (st' : Stats) (fuel' : Nat), fuel ≤ fuel' →
      ∃ S', inflateBlocks mode fuel' pos (bs ++ t) out st' = .done O (R ++ t) S' := by
  intro fuel
  induction fuel with
  | zero => intro pos bs out st O R S hpf; simp [streamPF] at hpf
  | succ f ih =>
    intro pos bs out st O R S hpf hb t st' fuel' hf
    obtain ⟨f', rfl⟩ : ∃ f', fuel' = f' + 1 := ⟨fuel' - 1, by omega⟩
    rw [streamPF, Bool.and_eq_true] at hpf
    obtain ⟨hpf1, hpf2⟩ := hpf
    rw [inflateBlocks] at hb
    cases h1 : inflateBlock mode pos bs out st with
    | needMore o r s a => rw [h1] at hb; cases hb
    | corrupt o r s => rw [h1] at hb; cases hb
    | next final o r s =>
      rw [h1] at hb
      simp only at hb
      obtain ⟨s0, h0⟩ := inflateBlock_stats mode pos bs out st {} final o r s hpf1 h1
      rw [h0] at hpf2
      simp only at hpf2
      obtain ⟨s1, h2⟩ := inflateBlock_frame mode pos bs out st final o r s hpf1 h1 t st'
      rw [inflateBlocks, h2]
      simp only
      by_cases hfin : final = true
      · simp only [hfin, if_true, Result.done.injEq] at hb ⊢
        exact ⟨s1, hb.1, by rw [hb.2.1], rfl⟩
      · simp only [hfin, Bool.false_eq_true, if_false] at hb hpf2 ⊢
        have hlen : (bs ++ t).length - (r ++ t).length = bs.length - r.length := by
          simp only [List.length_append]; omega
        rw [hlen]
        exact ih _ r o s O R S hpf2 hb t s1 f' (by omega)

/-- the executable check on a whole stream: decodes to the end, every block with prefix-free codes -/
def checkStream (mode : Mode) (bytes : List UInt8) : Bool :=
  streamPF mode ((bytesToBits bytes).length + 1) 0 (bytesToBits bytes) #[] &&
  match inflate mode [] bytes with
  | .done _ rest _ => decide (rest.length < 8)
  | _ => false

/-- **frame theorem for streams**: a checked stream decodes to the same data whatever bytes follow, and what is left
    is its own padding followed by exactly those bytes -/
theorem inflate_frame (mode : Mode) (bytes more : List UInt8) (hc : checkStream mode bytes = true) :
    ∃ out rest st st', inflate mode [] bytes = .done out rest st ∧ rest.length < 8 ∧
      inflate mode [] (bytes ++ more) = .done out (rest ++ bytesToBits more) st' := by
  unfold checkStream at hc
  rw [Bool.and_eq_true] at hc
  obtain ⟨hpf, hd⟩ := hc
  cases hi : inflate mode [] bytes with
  | needMore o r s a => rw [hi] at hd; cases hd
  | corrupt o r s => rw [hi] at hd; cases hd
  | done out rest st =>
    rw [hi] at hd
    simp only [decide_eq_true_eq] at hd
    unfold inflate at hi ⊢
    simp only at hi ⊢
    have he : (#[] : Array UInt8) = ([] : List UInt8).toArray := rfl
    rw [← he] at hi ⊢
    obtain ⟨S', h'⟩ := inflateBlocks_frame mode _ 0 (bytesToBits bytes) #[] {} out rest st hpf hi (bytesToBits more) {}
      ((bytesToBits (bytes ++ more)).length + 1) (by rw [bytesToBits_append, List.length_append]; omega)
    refine ⟨out, rest, st, S', rfl, hd, ?_⟩
    rw [bytesToBits_append] at h' ⊢
    exact h'

end Fastgo.Spec

namespace Fastgo.Container
open Fastgo.Spec

/-- the specification inflater as the inflater of the container Reader models: payload, and the source from the byte
    after the one holding the last bit of the final block -/
def specInflater (mode : Mode) : Inflater := fun src =>
  match inflate mode [] src with
  | .done out rest _ => some (out.toList, src.drop ((8 * src.length - rest.length + 7) / 8))
  | _ => none

/-- **C05 at the level of the specification**: on a checked stream the specification inflater meets the contract
    `Exact` of the container theorems — it yields the payload and leaves exactly what follows the stream -/
theorem specInflater_exact (mode : Mode) (body : List UInt8) (hc : checkStream mode body = true) :
    ∃ payload, (specInflater mode).Exact body payload ∧ specInflater mode body = some (payload, []) := by
  obtain ⟨out, rest, st, _, h0, hr, _⟩ := inflate_frame mode body [] hc
  have hne : 1 ≤ body.length := by
    cases body with
    | nil => simp [inflate, inflateBlocks, inflateBlock, takeField, bytesToBits] at h0
    | cons b bs => simp
  have hE : (specInflater mode).Exact body out.toList := by
    intro more
    obtain ⟨out', rest', st1, st', h1, hr', h2⟩ := inflate_frame mode body more hc
    rw [h0] at h1
    simp only [Result.done.injEq] at h1
    obtain ⟨ho, hrr, _⟩ := h1
    subst ho hrr
    unfold specInflater
    rw [h2]
    simp only [Option.some.injEq, Prod.mk.injEq, true_and]
    have hl : (8 * (body ++ more).length - (rest ++ bytesToBits more).length + 7) / 8 = body.length := by
      simp only [List.length_append, bytesToBits_length]
      omega
    rw [hl]
    simp
  exact ⟨out.toList, hE, by simpa using hE []⟩

/-- a gzip member whose body is a checked stream is read back by the Reader model over the SPECIFICATION inflater —
    header fields, payload, and the source left exactly behind the trailer — whatever follows it (no abstract
    inflater contract left) -/
theorem gzip_member_reads_back_spec (mode : Mode) (h : GzHeader) (hwf : h.WF) (level : Int) (body rest : List UInt8)
    (hc : checkStream mode body = true) :
    ∃ payload, specInflater mode body = some (payload, []) ∧
      readOneMember (specInflater mode) (gzMember h level body payload ++ rest) = some (h, payload, rest) := by
  obtain ⟨payload, hE, h0⟩ := specInflater_exact mode body hc
  exact ⟨payload, h0, readOneMember_member (specInflater mode) h hwf level body payload rest hE⟩

/-- zlib.NewReader + Read to io.EOF (no preset dictionary) over an inflater: payload and what is left of the source -/
def readZlib (I : Inflater) (src : List UInt8) : Option (List UInt8 × List UInt8) :=
  match parseZHeader none src with
  | .ok false r0 =>
    match I r0 with
    | none => none
    | some (payload, after) =>
      match takeN 4 after with
      | none => none
      | some (t, r) => if unbe t = adler32 payload then some (payload, r) else none
  | _ => none

theorem readZlib_stream (I : Inflater) (level : Int) (body payload rest : List UInt8) (hI : I.Exact body payload) :
    readZlib I (emitZHeader level none ++ (body ++ (emitZTrailer payload ++ rest))) = some (payload, rest) := by
  unfold readZlib
  rw [zlib_header_roundtrip level none]
  simp only [Option.isSome_none]
  rw [hI]
  simp only
  have hl : (emitZTrailer payload).length = 4 := by simp [emitZTrailer, be]
  have ht := takeN_append (emitZTrailer payload) rest
  rw [hl] at ht
  rw [ht]
  simp only
  have : unbe (emitZTrailer payload) = adler32 payload := unbe_be _ _ (adler32_lt payload)
  simp [this]

/-- a zlib stream whose DEFLATE body is a checked stream is read back by the Reader model over the specification
    inflater, leaving exactly what follows the Adler-32 trailer -/
theorem zlib_stream_reads_back_spec (mode : Mode) (level : Int) (body rest : List UInt8)
    (hc : checkStream mode body = true) :
    ∃ payload, specInflater mode body = some (payload, []) ∧
      readZlib (specInflater mode) (emitZHeader level none ++ (body ++ (emitZTrailer payload ++ rest))) = some (payload, rest) := by
  obtain ⟨payload, hE, h0⟩ := specInflater_exact mode body hc
  exact ⟨payload, h0, readZlib_stream (specInflater mode) level body payload rest hE⟩

end Fastgo.Container
