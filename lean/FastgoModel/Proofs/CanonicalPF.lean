import FastgoModel.Proofs.BitsBytes
import FastgoModel.Spec.Inflate
/-
  RFC 1951's canonical Huffman code is prefix-free whenever the code lengths are at most L and their Kraft sum is at
  most 1 — exactly what the specification's acceptance test `lensOK` checks (L = 15). Numeric core: the codes of one
  length form an interval, intervals of increasing length follow each other (S, start, width); a code fits its length
  (codeOf_fits, from the Kraft bound via firstCode_top); a codeword that is a prefix of another is the other shifted
  right (prefix_codes). Consequence (Proofs/FrameUncond.lean): the frame theorems need no prefix-freeness side condition.
-/

namespace Fastgo.Spec

/-! numeric core -/
def S (lens : List Nat) (L l : Nat) : Nat := firstCode lens l * 2 ^ (L - l)

theorem S_succ (lens : List Nat) (L l : Nat) (h : l < L) :
    S lens L (l+1) = S lens L l + blCount lens l * 2 ^ (L - l) := by
  unfold S
  simp only [firstCode]
  have : L - l = (L - (l+1)) + 1 := by omega
  rw [this, Nat.pow_succ, Nat.add_mul, Nat.add_mul, Nat.mul_assoc, Nat.mul_assoc, Nat.mul_comm 2]

theorem S_mono_add (lens : List Nat) (L l : Nat) : ∀ k, l + k ≤ L → S lens L l ≤ S lens L (l + k) := by
  intro k
  induction k with
  | zero => intro _; exact Nat.le_refl _
  | succ k ih =>
    intro hL
    have h1 := S_succ lens L (l + k) (by omega)
    have h2 := ih (by omega)
    have : l + (k + 1) = l + k + 1 := by omega
    rw [this]
    omega

theorem S_mono (lens : List Nat) (L : Nat) (l l' : Nat) (h : l ≤ l') (hL : l' ≤ L) :
    S lens L l ≤ S lens L l' := by
  have := S_mono_add lens L l (l' - l) (by omega)
  rwa [show l + (l' - l) = l' by omega] at this

theorem getD_eq (lens : List Nat) (i : Nat) (hi : i < lens.length) : lens.getD i 0 = lens[i] := by
  simp [List.getD_eq_getElem?_getD, hi]

theorem take_count_lt' (lens : List Nat) (i : Nat) (hi : i < lens.length) :
    (lens.take i).count lens[i] < lens.count lens[i] := by
  have h : lens.count lens[i] = (lens.take i).count lens[i] + (lens.drop i).count lens[i] := by
    rw [← List.count_append, List.take_append_drop]
  rw [h, List.drop_eq_getElem_cons hi, List.count_cons_self]
  omega

theorem take_count_lt (lens : List Nat) (i : Nat) (hi : i < lens.length) :
    (lens.take i).count (lens.getD i 0) < lens.count (lens.getD i 0) := by
  rw [getD_eq lens i hi]; exact take_count_lt' lens i hi

theorem rank_lt (lens : List Nat) (i : Nat) (hi : i < lens.length) (hl : lens.getD i 0 ≠ 0) :
    rank lens i < blCount lens (lens.getD i 0) := by
  unfold rank blCount
  simp only [hl, if_false]
  exact take_count_lt lens i hi

theorem rank_inj (lens : List Nat) (i j : Nat) (hi : i < lens.length) (hj : j < lens.length)
    (hl : lens.getD i 0 = lens.getD j 0) (hr : rank lens i = rank lens j) : i = j := by
  rcases Nat.lt_trichotomy i j with h | h | h
  · exfalso
    unfold rank at hr
    have : (lens.take i).count (lens.getD i 0) < (lens.take j).count (lens.getD i 0) := by
      have ht : lens.take i = (lens.take j).take i := by
        rw [List.take_take]; congr 1; omega
      have hgi : (lens.take j).getD i 0 = lens.getD i 0 := by
        simp [List.getD_eq_getElem?_getD, List.getElem?_take, h]
      have := take_count_lt (lens.take j) i (by simp; omega)
      rw [hgi, ← ht] at this
      exact this
    rw [hl] at this hr
    omega
  · exact h
  · exfalso
    unfold rank at hr
    have : (lens.take j).count (lens.getD j 0) < (lens.take i).count (lens.getD j 0) := by
      have ht : lens.take j = (lens.take i).take j := by
        rw [List.take_take]; congr 1; omega
      have hgi : (lens.take i).getD j 0 = lens.getD j 0 := by
        simp [List.getD_eq_getElem?_getD, List.getElem?_take, h]
      have := take_count_lt (lens.take i) j (by simp; omega)
      rw [hgi, ← ht] at this
      exact this
    rw [← hl] at this hr
    omega

def start (lens : List Nat) (L i : Nat) : Nat := codeOf lens i * 2 ^ (L - lens.getD i 0)
def width (lens : List Nat) (L i : Nat) : Nat := 2 ^ (L - lens.getD i 0)

theorem start_eq (lens : List Nat) (L i : Nat) :
    start lens L i = S lens L (lens.getD i 0) + rank lens i * width lens L i := by
  unfold start codeOf S width
  rw [Nat.add_mul]

theorem interval_below_next (lens : List Nat) (L i : Nat) (hi : i < lens.length)
    (hl : lens.getD i 0 ≠ 0) (hL : lens.getD i 0 < L) :
    start lens L i + width lens L i ≤ S lens L (lens.getD i 0 + 1) := by
  rw [start_eq, S_succ lens L _ hL]
  have hr := rank_lt lens i hi hl
  unfold width
  have : (rank lens i + 1) * 2 ^ (L - lens.getD i 0) ≤ blCount lens (lens.getD i 0) * 2 ^ (L - lens.getD i 0) :=
    Nat.mul_le_mul_right _ hr
  rw [Nat.add_mul] at this
  omega

theorem disjoint_lt (lens : List Nat) (L i j : Nat) (hi : i < lens.length)
    (hli : lens.getD i 0 ≠ 0) (hlt : lens.getD i 0 < lens.getD j 0) (hL : lens.getD j 0 ≤ L) :
    start lens L i + width lens L i ≤ start lens L j := by
  have h1 := interval_below_next lens L i hi hli (by omega)
  have h2 := S_mono lens L (lens.getD i 0 + 1) (lens.getD j 0) (by omega) hL
  have h3 : S lens L (lens.getD j 0) ≤ start lens L j := by rw [start_eq]; omega
  omega


/-! Kraft sum and the code fits its length -/

theorem blCount_cons (x : Nat) (lens : List Nat) (l : Nat) :
    blCount (x :: lens) l = blCount lens l + (if x = l ∧ l ≠ 0 then 1 else 0) := by
  unfold blCount
  by_cases hl : l = 0
  · simp [hl]
  · simp only [hl, if_false, List.count_cons, ne_eq, not_false_eq_true, and_true]
    by_cases hx : x = l
    · simp [hx]
    · have : (x == l) = false := by simp [hx]
      simp [this, hx]

theorem firstCode_cons (x : Nat) (lens : List Nat) : ∀ l,
    firstCode (x :: lens) l = firstCode lens l + (if 0 < x ∧ x < l then 2 ^ (l - x) else 0) := by
  intro l
  induction l with
  | zero => simp [firstCode]
  | succ l ih =>
    simp only [firstCode, ih, blCount_cons]
    by_cases h0 : 0 < x
    · by_cases h1 : x < l
      · have h2 : ¬ (x = l ∧ l ≠ 0) := by omega
        have h3 : x < l + 1 := by omega
        simp only [h0, h1, h3, h2, and_self, if_true, if_false, Nat.add_zero]
        have : l + 1 - x = (l - x) + 1 := by omega
        rw [this, Nat.pow_succ]
        omega
      · by_cases h2 : x = l
        · subst h2
          have e1 : ¬ (0 < x ∧ x < x) := by omega
          have e2 : x = x ∧ x ≠ 0 := ⟨rfl, by omega⟩
          have e3 : 0 < x ∧ x < x + 1 := by omega
          have e4 : x + 1 - x = 1 := by omega
          rw [if_neg e1, if_pos e2, if_pos e3, e4]
          omega
        · have h3 : ¬ x < l + 1 := by omega
          have h4 : ¬ (x = l ∧ l ≠ 0) := by omega
          simp only [h0, h1, h3, h4, and_false, if_false, Nat.add_zero]
    · have h1 : ¬ (x = l ∧ l ≠ 0) := by omega
      simp only [h0, h1, false_and, if_false, Nat.add_zero]

theorem firstCode_nil : ∀ l, firstCode [] l = 0 := by
  intro l
  induction l with
  | zero => rfl
  | succ l ih => simp [firstCode, ih, blCount]

theorem foldl_kraft_shift (L : Nat) (xs : List Nat) : ∀ a,
    xs.foldl (fun a l => a + 2 ^ (L - l)) a = a + xs.foldl (fun a l => a + 2 ^ (L - l)) 0 := by
  induction xs with
  | nil => intro a; simp
  | cons x xs ih =>
    intro a
    simp only [List.foldl_cons]
    rw [ih (a + 2 ^ (L - x)), ih (0 + 2 ^ (L - x))]
    omega

theorem kraft_cons (x : Nat) (lens : List Nat) (L : Nat) :
    kraft (x :: lens) L = (if x ≠ 0 then 2 ^ (L - x) else 0) + kraft lens L := by
  unfold kraft
  by_cases hx : x = 0
  · simp [hx]
  · have : (x :: lens).filter (· ≠ 0) = x :: lens.filter (· ≠ 0) := by simp [hx]
    rw [this, List.foldl_cons, foldl_kraft_shift, if_pos hx]
    omega

/-- twice the Kraft sum is the RFC's next_code one length beyond the maximum -/
theorem firstCode_top (lens : List Nat) (L : Nat) (hall : ∀ x ∈ lens, x ≤ L) :
    firstCode lens (L + 1) = 2 * kraft lens L := by
  induction lens with
  | nil => simp [firstCode_nil, kraft]
  | cons x lens ih =>
    have hx : x ≤ L := hall x (List.mem_cons_self)
    have ih' := ih (fun y hy => hall y (List.mem_cons_of_mem _ hy))
    rw [firstCode_cons, kraft_cons, ih']
    by_cases h0 : x = 0
    · simp [h0]
    · have h1 : 0 < x ∧ x < L + 1 := by omega
      simp only [h1, and_self, if_true, ne_eq, h0, not_false_eq_true]
      have : L + 1 - x = (L - x) + 1 := by omega
      rw [this, Nat.pow_succ]
      omega

/-- **every canonical code fits its length** when the lengths are at most `L` and the Kraft sum is at most 1 -/
theorem codeOf_fits (lens : List Nat) (L : Nat) (hall : ∀ x ∈ lens, x ≤ L) (hk : kraft lens L ≤ 2 ^ L)
    (i : Nat) (hi : i < lens.length) (hl : lens.getD i 0 ≠ 0) :
    codeOf lens i < 2 ^ (lens.getD i 0) := by
  have hle : lens.getD i 0 ≤ L := by
    rw [getD_eq lens i hi]; exact hall _ (List.getElem_mem hi)
  have h1 := interval_below_next lens (L + 1) i hi hl (by omega)
  have h2 := S_mono lens (L + 1) (lens.getD i 0 + 1) (L + 1) (by omega) (Nat.le_refl _)
  have h3 : S lens (L + 1) (L + 1) = 2 * kraft lens L := by
    unfold S; rw [firstCode_top lens L hall]; simp
  have h4 : (codeOf lens i + 1) * 2 ^ (L + 1 - lens.getD i 0) ≤ 2 ^ (L + 1) := by
    have : start lens (L + 1) i + width lens (L + 1) i = (codeOf lens i + 1) * 2 ^ (L + 1 - lens.getD i 0) := by
      unfold start width; rw [Nat.add_mul]; simp
    rw [← this, Nat.pow_succ]
    omega
  have h5 : 2 ^ (L + 1) = 2 ^ (lens.getD i 0) * 2 ^ (L + 1 - lens.getD i 0) := by
    rw [← Nat.pow_add]; congr 1; omega
  rw [h5] at h4
  have := Nat.le_of_mul_le_mul_right h4 (Nat.pow_pos (by decide))
  omega


/-! bit strings -/

theorem bitsToNat_append (a b : Bits) : bitsToNat (a ++ b) = bitsToNat a + 2 ^ a.length * bitsToNat b := by
  induction a with
  | nil => simp [bitsToNat]
  | cons x a ih =>
    simp only [List.cons_append, bitsToNat, ih, List.length_cons, Nat.pow_succ]
    rw [Nat.mul_add, Nat.mul_comm (2 ^ a.length) 2, Nat.mul_assoc]
    omega

theorem codeBits_length (c l : Nat) : (codeBits c l).length = l := by simp [codeBits]

/-- a codeword that is a prefix of another: the longer code, shifted right, is the shorter one -/
theorem prefix_codes (ci li cj lj : Nat) (hi : ci < 2 ^ li) (hj : cj < 2 ^ lj)
    (hp : codeBits ci li <+: codeBits cj lj) :
    li ≤ lj ∧ ci * 2 ^ (lj - li) ≤ cj ∧ cj < (ci + 1) * 2 ^ (lj - li) := by
  obtain ⟨t, ht⟩ := hp
  have hlen : li + t.length = lj := by
    have := congrArg List.length ht
    simpa [codeBits_length] using this
  have hrev : t.reverse ++ natToBits ci li = natToBits cj lj := by
    have := congrArg List.reverse ht
    simpa [codeBits] using this
  have hv := congrArg bitsToNat hrev
  rw [bitsToNat_append, bitsToNat_natToBits ci li hi, bitsToNat_natToBits cj lj hj] at hv
  have hb := bitsToNat_lt t.reverse
  simp only [List.length_reverse] at hv hb
  have hd : lj - li = t.length := by omega
  rw [hd]
  refine ⟨by omega, ?_, ?_⟩
  · rw [← hv, Nat.mul_comm]; omega
  · rw [← hv, Nat.add_mul, Nat.mul_comm ci]; omega

theorem mem_canonical (lens : List Nat) (s : Nat) (cw : Bits) (h : (s, cw) ∈ canonical lens) :
    s < lens.length ∧ lens.getD s 0 ≠ 0 ∧ cw = codeBits (codeOf lens s) (lens.getD s 0) := by
  unfold canonical at h
  rw [List.mem_filterMap] at h
  obtain ⟨i, hi, he⟩ := h
  rw [List.mem_range] at hi
  by_cases h0 : lens.getD i 0 = 0
  · rw [if_pos h0] at he; cases he
  · rw [if_neg h0] at he
    simp only [Option.some.injEq, Prod.mk.injEq] at he
    obtain ⟨rfl, rfl⟩ := he
    exact ⟨hi, h0, rfl⟩

/-- **the canonical Huffman code of RFC 1951 is prefix-free** whenever the lengths do not exceed `L` and their Kraft sum
    does not exceed 1 (exactly what `lensOK` checks with L = 15) -/
theorem canonical_prefixFree (lens : List Nat) (L : Nat) (hall : ∀ x ∈ lens, x ≤ L) (hk : kraft lens L ≤ 2 ^ L) :
    PrefixFree (canonical lens) := by
  intro a ha b hb _ _ hpre
  obtain ⟨i, cwi⟩ := a
  obtain ⟨j, cwj⟩ := b
  obtain ⟨hi, hli, rfl⟩ := mem_canonical lens i cwi ha
  obtain ⟨hj, hlj, rfl⟩ := mem_canonical lens j cwj hb
  have fi := codeOf_fits lens L hall hk i hi hli
  have fj := codeOf_fits lens L hall hk j hj hlj
  have hjL : lens.getD j 0 ≤ L := by rw [getD_eq lens j hj]; exact hall _ (List.getElem_mem hj)
  obtain ⟨hle, h1, h2⟩ := prefix_codes _ _ _ _ fi fj hpre
  rcases Nat.lt_or_eq_of_le hle with hlt | heq
  · exfalso
    have hd := disjoint_lt lens L i j hi hli hlt hjL
    unfold start width at hd
    -- (ci+1) * 2^(L-li) ≤ cj * 2^(L-lj)  but  cj < (ci+1) * 2^(lj-li)
    have e : 2 ^ (L - lens.getD i 0) = 2 ^ (lens.getD j 0 - lens.getD i 0) * 2 ^ (L - lens.getD j 0) := by
      rw [← Nat.pow_add]; congr 1; omega
    have h3 : codeOf lens j * 2 ^ (L - lens.getD j 0) < (codeOf lens i + 1) * 2 ^ (lens.getD j 0 - lens.getD i 0) * 2 ^ (L - lens.getD j 0) :=
      Nat.mul_lt_mul_of_pos_right h2 (Nat.pow_pos (by decide))
    rw [Nat.mul_assoc, ← e] at h3
    rw [Nat.add_mul] at h3
    omega
  · -- equal lengths: equal codes, equal ranks, equal symbols
    have hc : codeOf lens i = codeOf lens j := by
      rw [heq] at h1 h2
      simp only [Nat.sub_self, Nat.pow_zero, Nat.mul_one] at h1 h2
      omega
    have hr : rank lens i = rank lens j := by
      unfold codeOf at hc; rw [heq] at hc; omega
    have := rank_inj lens i j hi hj heq hr
    subst this
    rfl

/-- with the acceptance test of the specification: any lengths the inflater accepts give a prefix-free code -/
theorem canonical_prefixFree_of_lensOK (mode : Mode) (lens : List Nat) (h : lensOK mode lens = true) :
    PrefixFree (canonical lens) := by
  unfold lensOK at h
  by_cases h1 : lens.any (· > 15) = true
  · simp [h1] at h
  · by_cases h2 : kraft lens 15 > 2 ^ 15
    · simp [h1, h2] at h
    · apply canonical_prefixFree lens 15
      · intro x hx
        have : ¬ (x > 15) := by
          intro hgt
          apply h1
          rw [List.any_eq_true]
          exact ⟨x, hx, by simpa using hgt⟩
        omega
      · omega

end Fastgo.Spec
