import FastgoModel.Writer.Tokens
/-
  What a passed `checkGen` means: the tokens, replayed the way an inflater executes them, reproduce the buffer
  bytes they were emitted for, and every match respects the window and the RFC length range.
-/
namespace Fastgo.Writer
open Fastgo.Spec

theorem take_succ_getD (l : List UInt8) (n : Nat) (h : n < l.length) : l.take (n + 1) = l.take n ++ [l.getD n 0] := by
  rw [List.take_add_one]
  simp [List.getD, List.getElem?_eq_getElem h]

theorem array_getD_toList (a : Array UInt8) (i : Nat) : a.getD i 0 = a.toList.getD i 0 := by
  unfold Array.getD
  by_cases h : i < a.size
  · rw [dif_pos h]
    simp [List.getD, h]
  · rw [dif_neg h]
    have : a.toList.length ≤ i := by simp only [Array.length_toList]; omega
    simp [List.getD, List.getElem?_eq_none this]

theorem copyBack_prefix (buf : Array UInt8) (dist : Nat) (hd : 1 ≤ dist) :
    ∀ (len pos : Nat) (out : Array UInt8), out.toList = buf.toList.take pos → dist ≤ pos → pos + len ≤ buf.size →
      (∀ i, i < len → buf.getD (pos + i) 0 = buf.getD (pos + i - dist) 0) →
      (copyBack out dist len).toList = buf.toList.take (pos + len) := by
  intro len
  induction len with
  | zero => intro pos out ho _ _ _; simpa [copyBack] using ho
  | succ n ih =>
    intro pos out ho hdp hle hall
    unfold copyBack
    have hsz : out.size = pos := by
      have := congrArg List.length ho
      simp only [Array.length_toList, List.length_take] at this
      omega
    have hx : out.getD (out.size - dist) 0 = buf.getD pos 0 := by
      have h0 := hall 0 (by omega)
      simp only [Nat.add_zero] at h0
      rw [h0, hsz, array_getD_toList, array_getD_toList, ho]
      simp only [List.getD, List.getElem?_take]
      have : pos - dist < pos := by omega
      simp [this]
    have ho' : (out.push (out.getD (out.size - dist) 0)).toList = buf.toList.take (pos + 1) := by
      rw [Array.toList_push, hx, ho, array_getD_toList, take_succ_getD _ _ (by simp only [Array.length_toList]; omega)]
    have := ih (pos + 1) _ ho' (by omega) (by omega) (fun i hi => by
      have := hall (i + 1) (by omega)
      have e1 : pos + 1 + i = pos + (i + 1) := by omega
      rw [e1]; exact this)
    rw [this]; congr 1; omega


/-- the window/length discipline of a token (C19) -/
def RTok.inWindow (window : Nat) : RTok → Prop
  | .mtch len dist => 1 ≤ dist ∧ dist ≤ window ∧ 3 ≤ len ∧ len ≤ 258
  | _ => True

/-- a call that passes `checkGen` meets the leaf contract: replaying its tokens on top of the first `pos` bytes
    of the buffer reproduces the first `stop` bytes, and every match stays within the window -/
theorem checkGen_sound (window : Nat) (buf : Array UInt8) (stop : Nat) (hs : stop ≤ buf.size) :
    ∀ (toks : List RTok) (pos : Nat) (out : Array UInt8), out.toList = buf.toList.take pos →
      checkGen window buf stop pos toks = true →
      (toks.foldl tokStep out).toList = buf.toList.take stop ∧ pos ≤ stop ∧ ∀ t ∈ toks, t.inWindow window := by
  intro toks
  induction toks with
  | nil =>
    intro pos out ho hc
    simp only [checkGen, beq_iff_eq] at hc
    subst hc
    exact ⟨ho, Nat.le_refl _, fun t ht => by cases ht⟩
  | cons t ts ih =>
    intro pos out ho hc
    cases t with
    | lit b =>
      simp only [checkGen, Bool.and_eq_true, decide_eq_true_eq, beq_iff_eq] at hc
      obtain ⟨⟨h1, h2⟩, h3⟩ := hc
      have ho' : (out.push b).toList = buf.toList.take (pos + 1) := by
        rw [Array.toList_push, ho, ← h2, array_getD_toList, take_succ_getD _ _ (by simp only [Array.length_toList]; omega)]
      obtain ⟨i1, i2, i3⟩ := ih (pos + 1) _ ho' h3
      refine ⟨i1, by omega, ?_⟩
      intro t ht
      cases ht with
      | head => trivial
      | tail _ h => exact i3 t h
    | lit2 a b =>
      simp only [checkGen, Bool.and_eq_true, decide_eq_true_eq, beq_iff_eq] at hc
      obtain ⟨⟨⟨h1, h2⟩, h2'⟩, h3⟩ := hc
      have ho1 : (out.push a).toList = buf.toList.take (pos + 1) := by
        rw [Array.toList_push, ho, ← h2, array_getD_toList, take_succ_getD _ _ (by simp only [Array.length_toList]; omega)]
      have ho2 : ((out.push a).push b).toList = buf.toList.take (pos + 2) := by
        have e2 : pos + 2 = (pos + 1) + 1 := rfl
        rw [Array.toList_push, ho1, ← h2', array_getD_toList, e2, take_succ_getD _ (pos + 1) (by simp only [Array.length_toList]; omega)]
      obtain ⟨i1, i2, i3⟩ := ih (pos + 2) _ ho2 h3
      refine ⟨i1, by omega, ?_⟩
      intro t ht
      cases ht with
      | head => trivial
      | tail _ h => exact i3 t h
    | mtch len dist =>
      simp only [checkGen, Bool.and_eq_true, decide_eq_true_eq, List.all_eq_true, List.mem_range, beq_iff_eq] at hc
      obtain ⟨⟨⟨⟨⟨⟨⟨h1, h2⟩, h3⟩, h4⟩, h5⟩, h6⟩, h7⟩, h8⟩ := hc
      have ho' := copyBack_prefix buf dist h3 len pos out ho h5 (by omega) h7
      obtain ⟨i1, i2, i3⟩ := ih (pos + len) _ ho' h8
      refine ⟨i1, by omega, ?_⟩
      intro t ht
      cases ht with
      | head => exact ⟨h3, h4, h1, h2⟩
      | tail _ h => exact i3 t h

/-! ### from the check to the contract `Sound.gen` -/

/-- the bytes a list of real tokens stands for, given everything decoded before them -/
def resolveR (h : List UInt8) (toks : List RTok) : List UInt8 :=
  ((toks.foldl tokStep h.toArray).toList).drop h.length

theorem copyBack_toList_prefix (out : Array UInt8) (d : Nat) : ∀ n, ∃ ext, (copyBack out d n).toList = out.toList ++ ext ∧ ext.length = n := by
  intro n
  induction n generalizing out with
  | zero => exact ⟨[], by simp [copyBack], rfl⟩
  | succ k ih =>
    unfold copyBack
    obtain ⟨ext, h1, h2⟩ := ih (out.push (out.getD (out.size - d) 0))
    refine ⟨out.getD (out.size - d) 0 :: ext, ?_, by simp [h2]⟩
    rw [h1, Array.toList_push, List.append_assoc]; rfl

theorem tokStep_prefix (out : Array UInt8) (t : RTok) : ∃ ext, (tokStep out t).toList = out.toList ++ ext := by
  cases t with
  | lit b => exact ⟨[b], by simp [tokStep]⟩
  | lit2 a b => exact ⟨[a, b], by simp [tokStep]⟩
  | mtch len dist =>
    obtain ⟨ext, h, _⟩ := copyBack_toList_prefix out dist len
    exact ⟨ext, h⟩

theorem foldl_tokStep_prefix (toks : List RTok) (out : Array UInt8) : ∃ ext, (toks.foldl tokStep out).toList = out.toList ++ ext := by
  induction toks generalizing out with
  | nil => exact ⟨[], by simp⟩
  | cons t ts ih =>
    obtain ⟨e1, h1⟩ := tokStep_prefix out t
    obtain ⟨e2, h2⟩ := ih (tokStep out t)
    exact ⟨e1 ++ e2, by rw [List.foldl_cons, h2, h1, List.append_assoc]⟩

theorem resolveR_spec (h : List UInt8) (toks : List RTok) :
    (toks.foldl tokStep h.toArray).toList = h ++ resolveR h toks := by
  obtain ⟨ext, he⟩ := foldl_tokStep_prefix toks h.toArray
  unfold resolveR
  rw [he]
  simp

theorem resolveR_nil (h : List UInt8) : resolveR h [] = [] := by simp [resolveR]

theorem resolveR_app (h : List UInt8) (a b : List RTok) :
    resolveR h (a ++ b) = resolveR h a ++ resolveR (h ++ resolveR h a) b := by
  have h1 := resolveR_spec h a
  have h2 := resolveR_spec (h ++ resolveR h a) b
  have h3 : (a ++ b).foldl tokStep h.toArray = b.foldl tokStep (h ++ resolveR h a).toArray := by
    rw [List.foldl_append]
    congr 1
    apply Array.ext'
    rw [h1]
  unfold resolveR at *
  rw [h3]
  generalize hx : (List.foldl tokStep (h ++ List.drop h.length (List.foldl tokStep h.toArray a).toList).toArray b).toList = x at h2 ⊢
  rw [h2]
  simp [List.drop_append]


theorem getD_shift (pre : List UInt8) (buf : Array UInt8) (i : Nat) :
    (pre ++ buf.toList).toArray.getD (pre.length + i) 0 = buf.getD i 0 := by
  rw [array_getD_toList, array_getD_toList]
  simp [List.getD, List.getElem?_append_right]

/-- the check is insensitive to bytes in front of the buffer -/
theorem checkGen_shift (window : Nat) (pre : List UInt8) (buf : Array UInt8) (stop : Nat) :
    ∀ (toks : List RTok) (pos : Nat), checkGen window buf stop pos toks = true →
      checkGen window (pre ++ buf.toList).toArray (pre.length + stop) (pre.length + pos) toks = true := by
  intro toks
  induction toks with
  | nil =>
    intro pos h
    simp only [checkGen, beq_iff_eq] at h ⊢
    omega
  | cons t ts ih =>
    intro pos h
    cases t with
    | lit b =>
      simp only [checkGen, Bool.and_eq_true, decide_eq_true_eq, beq_iff_eq] at h ⊢
      obtain ⟨⟨h1, h2⟩, h3⟩ := h
      refine ⟨⟨by omega, by rw [getD_shift]; exact h2⟩, ?_⟩
      have := ih (pos + 1) h3
      rw [← Nat.add_assoc] at this; exact this
    | lit2 a b =>
      simp only [checkGen, Bool.and_eq_true, decide_eq_true_eq, beq_iff_eq] at h ⊢
      obtain ⟨⟨⟨h1, h2⟩, h2'⟩, h3⟩ := h
      refine ⟨⟨⟨by omega, by rw [getD_shift]; exact h2⟩, ?_⟩, ?_⟩
      · rw [Nat.add_assoc, getD_shift]; exact h2'
      · have := ih (pos + 2) h3
        rw [← Nat.add_assoc] at this; exact this
    | mtch len dist =>
      simp only [checkGen, Bool.and_eq_true, decide_eq_true_eq, List.all_eq_true, List.mem_range, beq_iff_eq] at h ⊢
      obtain ⟨⟨⟨⟨⟨⟨⟨h1, h2⟩, h3⟩, h4⟩, h5⟩, h6⟩, h7⟩, h8⟩ := h
      refine ⟨⟨⟨⟨⟨⟨⟨h1, h2⟩, h3⟩, h4⟩, by omega⟩, by omega⟩, ?_⟩, ?_⟩
      · intro i hi
        have e1 : pre.length + pos + i = pre.length + (pos + i) := by omega
        have e2 : pre.length + (pos + i) - dist = pre.length + (pos + i - dist) := by omega
        rw [e1, e2, getD_shift, getD_shift]
        exact h7 i hi
      · have := ih (pos + len) h8
        rw [← Nat.add_assoc] at this; exact this

/-- **the recorded-call check implies the match-finder contract for that call**: with any history `pre` in front
    of the buffer, the new tokens resolve to exactly the bytes the call consumed -/
theorem checkGen_gives_gen (window : Nat) (pre buf : List UInt8) (idx nIdx : Nat) (toks : List RTok)
    (hn : nIdx ≤ buf.length) (hc : checkGen window buf.toArray nIdx idx toks = true) :
    resolveR (pre ++ buf.take idx) toks = (buf.drop idx).take (nIdx - idx) ∧ idx ≤ nIdx ∧
    ∀ t ∈ toks, t.inWindow window := by
  have hs := checkGen_shift window pre buf.toArray nIdx toks idx hc
  have hsz : pre.length + nIdx ≤ (pre ++ buf.toArray.toList).toArray.size := by simp; omega
  have hout : (pre ++ buf.take idx).toArray.toList = (pre ++ buf.toArray.toList).toArray.toList.take (pre.length + idx) := by
    simp [List.take_length_add_append]
  obtain ⟨g1, g2, g3⟩ := checkGen_sound window (pre ++ buf.toArray.toList).toArray (pre.length + nIdx) hsz toks
    (pre.length + idx) (pre ++ buf.take idx).toArray hout hs
  have hle : idx ≤ nIdx := by omega
  refine ⟨?_, hle, g3⟩
  have hspec := resolveR_spec (pre ++ buf.take idx) toks
  rw [g1] at hspec
  have htk : (pre ++ buf.toArray.toList).toArray.toList.take (pre.length + nIdx) = pre ++ buf.take nIdx := by
    simp [List.take_length_add_append]
  have hsplit : List.take nIdx buf = List.take idx buf ++ (buf.drop idx).take (nIdx - idx) := by
    have e : nIdx = idx + (nIdx - idx) := by omega
    conv => lhs; rw [e, List.take_add]
  rw [htk, hsplit, ← List.append_assoc] at hspec
  exact (List.append_cancel_left hspec).symm

end Fastgo.Writer
