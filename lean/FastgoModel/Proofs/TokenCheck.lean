import FastgoModel.Writer.Tokens
/-
  What a passed `checkGen` means: the tokens, replayed the way an inflater executes them, reproduce the buffer
  bytes they were emitted for, and every match respects the window and the RFC length range.
-/
namespace Fastgo.Writer
open Fastgo.Spec

theorem take_succ_getD (l : List UInt8) (n : Nat) (h : n < l.length) : l.take (n + 1) = l.take n ++ [l.getD n 0] := by
  rw [List.take_add_one]
  simp [List.getD, List.getElem?_eq_getElem h]

theorem array_getD_toList (a : Array UInt8) (i : Nat) : a.getD i 0 = a.toList.getD i 0 := by
  unfold Array.getD
  by_cases h : i < a.size
  · rw [dif_pos h]
    simp [List.getD, h]
  · rw [dif_neg h]
    have : a.toList.length ≤ i := by simp only [Array.length_toList]; omega
    simp [List.getD, List.getElem?_eq_none this]

theorem copyBack_prefix (buf : Array UInt8) (dist : Nat) (hd : 1 ≤ dist) :
    ∀ (len pos : Nat) (out : Array UInt8), out.toList = buf.toList.take pos → dist ≤ pos → pos + len ≤ buf.size →
      (∀ i, i < len → buf.getD (pos + i) 0 = buf.getD (pos + i - dist) 0) →
      (copyBack out dist len).toList = buf.toList.take (pos + len) := by
  intro len
  induction len with
  | zero => intro pos out ho _ _ _; simpa [copyBack] using ho
  | succ n ih =>
    intro pos out ho hdp hle hall
    unfold copyBack
    have hsz : out.size = pos := by
      have := congrArg List.length ho
      simp only [Array.length_toList, List.length_take] at this
      omega
    have hx : out.getD (out.size - dist) 0 = buf.getD pos 0 := by
      have h0 := hall 0 (by omega)
      simp only [Nat.add_zero] at h0
      rw [h0, hsz, array_getD_toList, array_getD_toList, ho]
      simp only [List.getD, List.getElem?_take]
      have : pos - dist < pos := by omega
      simp [this]
    have ho' : (out.push (out.getD (out.size - dist) 0)).toList = buf.toList.take (pos + 1) := by
      rw [Array.toList_push, hx, ho, array_getD_toList, take_succ_getD _ _ (by simp only [Array.length_toList]; omega)]
    have := ih (pos + 1) _ ho' (by omega) (by omega) (fun i hi => by
      have := hall (i + 1) (by omega)
      have e1 : pos + 1 + i = pos + (i + 1) := by omega
      rw [e1]; exact this)
    rw [this]; congr 1; omega


/-- the window/length discipline of a token (C19) -/
def RTok.inWindow (window : Nat) : RTok → Prop
  | .mtch len dist => 1 ≤ dist ∧ dist ≤ window ∧ 3 ≤ len ∧ len ≤ 258
  | _ => True

/-- a call that passes `checkGen` meets the leaf contract: replaying its tokens on top of the first `pos` bytes
    of the buffer reproduces the first `stop` bytes, and every match stays within the window -/
theorem checkGen_sound (window : Nat) (buf : Array UInt8) (stop : Nat) (hs : stop ≤ buf.size) :
    ∀ (toks : List RTok) (pos : Nat) (out : Array UInt8), out.toList = buf.toList.take pos →
      checkGen window buf stop pos toks = true →
      (toks.foldl tokStep out).toList = buf.toList.take stop ∧ pos ≤ stop ∧ ∀ t ∈ toks, t.inWindow window := by
  intro toks
  induction toks with
  | nil =>
    intro pos out ho hc
    simp only [checkGen, beq_iff_eq] at hc
    subst hc
    exact ⟨ho, Nat.le_refl _, fun t ht => by cases ht⟩
  | cons t ts ih =>
    intro pos out ho hc
    cases t with
    | lit b =>
      simp only [checkGen, Bool.and_eq_true, decide_eq_true_eq, beq_iff_eq] at hc
      obtain ⟨⟨h1, h2⟩, h3⟩ := hc
      have ho' : (out.push b).toList = buf.toList.take (pos + 1) := by
        rw [Array.toList_push, ho, ← h2, array_getD_toList, take_succ_getD _ _ (by simp only [Array.length_toList]; omega)]
      obtain ⟨i1, i2, i3⟩ := ih (pos + 1) _ ho' h3
      refine ⟨i1, by omega, ?_⟩
      intro t ht
      cases ht with
      | head => trivial
      | tail _ h => exact i3 t h
    | lit2 a b =>
      simp only [checkGen, Bool.and_eq_true, decide_eq_true_eq, beq_iff_eq] at hc
      obtain ⟨⟨⟨h1, h2⟩, h2'⟩, h3⟩ := hc
      have ho1 : (out.push a).toList = buf.toList.take (pos + 1) := by
        rw [Array.toList_push, ho, ← h2, array_getD_toList, take_succ_getD _ _ (by simp only [Array.length_toList]; omega)]
      have ho2 : ((out.push a).push b).toList = buf.toList.take (pos + 2) := by
        have e2 : pos + 2 = (pos + 1) + 1 := rfl
        rw [Array.toList_push, ho1, ← h2', array_getD_toList, e2, take_succ_getD _ (pos + 1) (by simp only [Array.length_toList]; omega)]
      obtain ⟨i1, i2, i3⟩ := ih (pos + 2) _ ho2 h3
      refine ⟨i1, by omega, ?_⟩
      intro t ht
      cases ht with
      | head => trivial
      | tail _ h => exact i3 t h
    | mtch len dist =>
      simp only [checkGen, Bool.and_eq_true, decide_eq_true_eq, List.all_eq_true, List.mem_range, beq_iff_eq] at hc
      obtain ⟨⟨⟨⟨⟨⟨⟨h1, h2⟩, h3⟩, h4⟩, h5⟩, h6⟩, h7⟩, h8⟩ := hc
      have ho' := copyBack_prefix buf dist h3 len pos out ho h5 (by omega) h7
      obtain ⟨i1, i2, i3⟩ := ih (pos + len) _ ho' h8
      refine ⟨i1, by omega, ?_⟩
      intro t ht
      cases ht with
      | head => exact ⟨h3, h4, h1, h2⟩
      | tail _ h => exact i3 t h

end Fastgo.Writer
