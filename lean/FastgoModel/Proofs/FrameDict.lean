import FastgoModel.Proofs.FrameUncond
/-
  The stream frame theorem with a preset dictionary (zlib FDICT, flate.NewReaderDict): whatever history the inflater
  starts from, a byte string it decodes to the end decodes to the same output when any bytes follow, and the bits left are
  the old rest followed by exactly those bytes. (No condition on the rest: it need not be padding.)
-/
namespace Fastgo.Spec

theorem inflate_prefix_stable_dict (mode : Mode) (dict bytes more : List UInt8) (out : Array UInt8) (rest : Bits) (st : Stats)
    (h : inflate mode dict bytes = .done out rest st) :
    ∃ st', inflate mode dict (bytes ++ more) = .done out (rest ++ bytesToBits more) st' := by
  unfold inflate at h ⊢
  simp only at h ⊢
  have hpf := streamPF_of_done mode _ 0 (bytesToBits bytes) dict.toArray {} out rest st h
  obtain ⟨S', h'⟩ := inflateBlocks_frame mode _ 0 (bytesToBits bytes) dict.toArray {} out rest st hpf h (bytesToBits more) {}
    ((bytesToBits (bytes ++ more)).length + 1) (by rw [bytesToBits_append, List.length_append]; omega)
  refine ⟨S', ?_⟩
  rw [bytesToBits_append] at h' ⊢
  exact h'

/-- in particular the decoded data never depends on what follows the stream -/
theorem inflate_output_independent_of_suffix (mode : Mode) (dict bytes m1 m2 : List UInt8) (out : Array UInt8) (rest : Bits)
    (st : Stats) (h : inflate mode dict bytes = .done out rest st) :
    ∃ s1 s2, inflate mode dict (bytes ++ m1) = .done out (rest ++ bytesToBits m1) s1 ∧
             inflate mode dict (bytes ++ m2) = .done out (rest ++ bytesToBits m2) s2 := by
  obtain ⟨s1, h1⟩ := inflate_prefix_stable_dict mode dict bytes m1 out rest st h
  obtain ⟨s2, h2⟩ := inflate_prefix_stable_dict mode dict bytes m2 out rest st h
  exact ⟨s1, s2, h1, h2⟩

end Fastgo.Spec
