import FastgoModel.Reader.Control
/-
  Facts about the bufio.Reader model: fills only append, Peek reports an error only when it cannot satisfy
  the request, the byte stream (what was buffered ++ what the source will still deliver) is never reordered.
-/
namespace Fastgo.Reader

/-- a bufio.Reader state reachable from `b` by fills only: more buffered at the end, nothing consumed -/
def Bufio.Grew (b b1 : Bufio) : Prop :=
  (∃ x, b1.buf = b.buf ++ x) ∧ b1.taken = b.taken ∧ b1.size = b.size

theorem Bufio.Grew.refl (b : Bufio) : b.Grew b := ⟨⟨[], by simp⟩, rfl, rfl⟩

theorem Bufio.Grew.trans {a b c : Bufio} (h1 : a.Grew b) (h2 : b.Grew c) : a.Grew c := by
  obtain ⟨⟨x, hx⟩, ht, hs⟩ := h1
  obtain ⟨⟨y, hy⟩, ht2, hs2⟩ := h2
  exact ⟨⟨x ++ y, by rw [hy, hx, List.append_assoc]⟩, ht2.trans ht, hs2.trans hs⟩

theorem fill_grew (b b1 : Bufio) (h : b.fill = some b1) : b.Grew b1 := by
  unfold Bufio.fill at h
  split at h
  · cases h
  · dsimp only at h
    split at h
    · injection h with h; subst h; exact ⟨⟨_, rfl⟩, rfl, rfl⟩
    · injection h with h; subst h; exact ⟨⟨_, rfl⟩, rfl, rfl⟩

/-- what Peek(n) returns: the reader only grew; an error is reported only when fewer than n bytes are there -/
theorem peek_spec (n fuel : Nat) (b b1 : Bufio) (e : Option SErr) (f : Bool)
    (h : Bufio.peek n fuel b = .got b1 e f) :
    b.Grew b1 ∧ (e ≠ none → b1.buf.length < n) := by
  induction fuel generalizing b with
  | zero =>
    simp only [Bufio.peek] at h
    injection h with h1 h2 h3
    subst h1 h2
    exact ⟨Bufio.Grew.refl _, fun h => absurd rfl h⟩
  | succ k ih =>
    unfold Bufio.peek at h
    split at h
    · split at h
      · cases h
      · rename_i b2 hf
        have := ih b2 h
        exact ⟨(fill_grew b b2 hf).trans this.1, this.2⟩
    · split at h
      · rename_i hlt
        split at h
        · injection h with h1 h2 h3
          subst h1 h2
          exact ⟨⟨⟨[], by simp⟩, rfl, rfl⟩, fun _ => hlt⟩
        · injection h with h1 h2 h3
          subst h1 h2
          exact ⟨Bufio.Grew.refl _, fun h => absurd rfl h⟩
      · injection h with h1 h2 h3
        subst h1 h2
        exact ⟨Bufio.Grew.refl _, fun h => absurd rfl h⟩


theorem fill_stream (b b1 : Bufio) (h : b.fill = some b1) : b1.stream = b.stream := by
  unfold Bufio.fill at h
  split at h
  · cases h
  · rename_i c rest hs
    dsimp only at h
    split at h
    · injection h with h; subst h
      simp [Bufio.stream, hs]
    · injection h with h; subst h
      simp only [Bufio.stream, hs, List.map_cons, List.flatten_cons, List.append_assoc]
      rw [← List.append_assoc (List.take _ c.bytes), List.take_append_drop]

theorem peek_stream (n fuel : Nat) (b b1 : Bufio) (e : Option SErr) (f : Bool)
    (h : Bufio.peek n fuel b = .got b1 e f) : b1.stream = b.stream := by
  induction fuel generalizing b with
  | zero =>
    simp only [Bufio.peek] at h
    injection h with h1 _ _
    subst h1; rfl
  | succ k ih =>
    unfold Bufio.peek at h
    split at h
    · split at h
      · cases h
      · rename_i b2 hf
        rw [ih b2 h, fill_stream b b2 hf]
    · split at h
      · split at h
        · injection h with h1 _ _
          subst h1; rfl
        · injection h with h1 _ _
          subst h1; rfl
      · injection h with h1 _ _
        subst h1; rfl

/-- Peek blocks only when the source has nothing more to give and fewer than n bytes are buffered -/
theorem peek_blocked (n fuel : Nat) (b : Bufio) (h : Bufio.peek n fuel b = .blocked) :
    ∃ b1, b.Grew b1 ∧ b1.src = [] ∧ b1.buf.length < n ∧ b1.stream = b.stream := by
  induction fuel generalizing b with
  | zero => simp [Bufio.peek] at h
  | succ k ih =>
    unfold Bufio.peek at h
    split at h
    · rename_i hc
      split at h
      · rename_i hf
        refine ⟨b, Bufio.Grew.refl _, ?_, hc.1, rfl⟩
        unfold Bufio.fill at hf
        split at hf
        · assumption
        · dsimp only at hf; split at hf <;> cases hf
      · rename_i b2 hf
        obtain ⟨b1, hg, hs, hl, hst⟩ := ih b2 h
        exact ⟨b1, (fill_grew b b2 hf).trans hg, hs, hl, hst.trans (fill_stream b b2 hf)⟩
    · split at h
      · split at h <;> cases h
      · cases h

end Fastgo.Reader
