import FastgoModel.Proofs.WriterStream
import FastgoModel.Proofs.FixedCode
namespace Fastgo.Writer
open Fastgo.Spec

def litBits (xs : List UInt8) : Bits := xs.flatMap fun b => cw b.toNat

theorem bodyStep_lit (dist : List (Nat × Bits)) (x : UInt8) (r : Bits) (out : Array UInt8) (st : Stats) :
    bodyStep fixLit dist (cw x.toNat ++ r) out st = .cont (out.push x) r { st with lits := st.lits + 1 } := by
  have hx : x.toNat < 256 := x.toNat_lt
  unfold bodyStep
  rw [decodeSym_cw x.toNat (by omega) r]
  simp only [hx, if_true]
  have : UInt8.ofNat x.toNat = x := by simp
  rw [this]

theorem bodyStep_eob (dist : List (Nat × Bits)) (r : Bits) (out : Array UInt8) (st : Stats) :
    bodyStep fixLit dist (cw 256 ++ r) out st = .eob out r st := by
  unfold bodyStep
  rw [decodeSym_cw 256 (by omega) r]
  simp

theorem decodeBody_lits (dist : List (Nat × Bits)) (xs : List UInt8) (t : Bits) (out : Array UInt8) (st : Stats) (fuel : Nat) (hf : xs.length < fuel) :
    ∃ st', decodeBody fixLit dist fuel (litBits xs ++ (cw 256 ++ t)) out st = .eob (out ++ xs.toArray) t st' := by
  induction xs generalizing out st fuel with
  | nil =>
    obtain ⟨f, rfl⟩ : ∃ f, fuel = f + 1 := ⟨fuel - 1, by simp at hf; omega⟩
    refine ⟨st, ?_⟩
    simp only [litBits, List.flatMap_nil, List.nil_append]
    rw [decodeBody, bodyStep_eob]
    simp
  | cons x xs ih =>
    obtain ⟨f, rfl⟩ : ∃ f, fuel = f + 1 := ⟨fuel - 1, by simp at hf; omega⟩
    obtain ⟨st', h⟩ := ih (out.push x) { st with lits := st.lits + 1 } f (by simp at hf; omega)
    refine ⟨st', ?_⟩
    have e : litBits (x :: xs) ++ (cw 256 ++ t) = cw x.toNat ++ (litBits xs ++ (cw 256 ++ t)) := by
      simp [litBits, List.flatMap_cons, List.append_assoc]
    rw [e, decodeBody, bodyStep_lit]
    simp only
    rw [h]
    simp


theorem cw_length_pos (s : Nat) (hs : s < 257) : 0 < (cw s).length := List.length_pos_iff.mpr (cw_mem s hs).2

theorem litBits_length_ge (xs : List UInt8) : xs.length ≤ (litBits xs).length := by
  induction xs with
  | nil => simp [litBits]
  | cons x xs ih =>
    have hx : x.toNat < 256 := x.toNat_lt
    have := cw_length_pos x.toNat (by omega)
    simp only [litBits, List.flatMap_cons, List.length_append, List.length_cons] at ih ⊢
    omega

/-- one fixed-Huffman block holding the literals `xs` -/
def fixBlockBits (final : Bool) (xs : List UInt8) : Bits := [final, true, false] ++ (litBits xs ++ cw 256)

theorem fixBlock_isBlock (mode : Mode) (pos : Nat) (final : Bool) (h : Array UInt8) (xs : List UInt8) :
    IsBlock mode pos (fixBlockBits final xs) final h xs := by
  intro t st
  obtain ⟨st', hd⟩ := decodeBody_lits fixDist xs t h { st with blocks := st.blocks + 1 }
    ((litBits xs ++ (cw 256 ++ t)).length + 1) (by have := litBits_length_ge xs; simp only [List.length_append]; omega)
  refine ⟨{ st' with fixed := st'.fixed + 1 }, ?_⟩
  unfold inflateBlock fixBlockBits
  have e1 : ([final, true, false] ++ (litBits xs ++ cw 256)) ++ t = [final] ++ ([true, false] ++ (litBits xs ++ (cw 256 ++ t))) := by
    simp [List.append_assoc]
  rw [e1, takeField_append 1 [final] _ rfl]
  simp only
  rw [takeField_append 2 [true, false] _ rfl]
  have hb : bitsToNat [true, false] = 1 := by decide
  simp only [hb]
  rw [← fixLit_eq, ← fixDist_eq, hd]
  cases final <;> simp [bitsToNat]


/-- A complete, sound instance of the leaves: every byte becomes a literal token (the last 8 bytes are held back
    until a flush, like the real match finder's look-ahead), every block is a fixed-Huffman block. -/
def fixLeaves : DynLeaves Unit UInt8 where
  mfInit := ()
  generate := fun flush buf _ idx _ toks =>
    let stop := if flush then buf.length else buf.length - 8
    if idx < stop then (stop, toks ++ (buf.drop idx).take (stop - idx), ()) else (idx, toks, ())
  eob := 0
  encode := fun _ toksEob final carry =>
    let bits := carry ++ fixBlockBits final toksEob.dropLast
    if final then ([padToBytes bits], [])
    else ([packBytes (bits.length / 8) (bits.take (8 * (bits.length / 8)))], bits.drop (8 * (bits.length / 8)))
  afterBlock := fun _ => ()
  mfReset := fun _ => ()

def fixSound (mode : Mode) : Sound fixLeaves mode where
  resolve := fun _ toks => toks
  resolve_nil := fun _ => rfl
  resolve_app := fun _ _ _ => rfl
  gen := by
    intro flush buf processed idx mf toks hist hidx _ _
    show idx ≤ (if idx < (if flush then buf.length else buf.length - 8) then _ else _ : Nat × List UInt8 × Unit).1 ∧ _
    by_cases h : idx < (if flush then buf.length else buf.length - 8)
    · simp only [fixLeaves, h, if_true]
      refine ⟨by omega, by split <;> omega, (fun hf => Or.inl (by simp [hf])), _, rfl, rfl⟩
    · simp only [fixLeaves, h, if_false]
      refine ⟨Nat.le_refl _, hidx, fun hf => Or.inl ?_, [], by simp, by simp⟩
      rw [hf] at h; simp at h; omega
  enc := by
    intro mf toks final carry h pos
    refine ⟨fixBlockBits final toks, fixBlock_isBlock mode pos final h.toArray toks, ?_, ?_⟩
    · intro hf
      subst hf
      simp only [fixLeaves, List.dropLast_concat, Bool.false_eq_true, if_false, List.flatten_cons, List.flatten_nil, List.append_nil]
      rw [bytesToBits_packBytes _ _ (by rw [List.length_take]; omega), List.take_append_drop]
    · intro hf
      subst hf
      simp only [fixLeaves, List.dropLast_concat, if_true, List.flatten_cons, List.flatten_nil, List.append_nil]
      exact ⟨trivial, bytesToBits_padToBytes _⟩

end Fastgo.Writer
