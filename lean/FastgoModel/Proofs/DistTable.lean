import FastgoModel.Spec.Inflate
/-
  getDistSymbol (lz77.go) against the RFC 1951 distance table: for every distance 1..32768 the (symbol, extra)
  pair the writer emits is decoded back to the same distance. The quantifier is the finite table: `decide +kernel`
  over all 32768 entries is a proof.
-/
namespace Fastgo.Spec

/-- port of getDistSymbol (uint32 arithmetic; no overflow in range) -/
def getDistSymbol (dist : Nat) : Nat × Nat :=
  if dist ≤ 2 then (dist - 1, 0) else
  let d := dist - 1
  let msb := Nat.log2 d + 1
  let nx := msb - 2
  (d / 2 ^ nx + 2 * nx, d % 2 ^ nx)

def distOK (dist : Nat) : Bool :=
  let (s, e) := getDistSymbol dist
  s < 30 && (distBase.getD s 0 + e == dist) && (e < 2 ^ (distExtra.getD s 0))

theorem all_dists_ok : (List.range 32768).all (fun i => distOK (i + 1)) = true := by decide +kernel

theorem dist_symbol_roundtrip (d : Nat) (h1 : 1 ≤ d) (h2 : d ≤ 32768) : distOK d = true := by
  have h := all_dists_ok
  rw [List.all_eq_true] at h
  have := h (d - 1) (by simp; omega)
  simpa [show d - 1 + 1 = d by omega] using this

/-- length symbols: lengthSymbol = matchLength + 254 is expanded to (RFC symbol, extra bits); for every length
    3..258 the RFC table gives it back -/
def lenOK (len : Nat) : Bool :=
  (List.range 29).any fun i => lenBase.getD i 0 ≤ len && len < lenBase.getD i 0 + 2 ^ (lenExtra.getD i 0) &&
    (i < 28 || len = 258) && (len = 258 → i = 28)

theorem all_lens_ok : (List.range 256).all (fun i => lenOK (i + 3)) = true := by decide +kernel

end Fastgo.Spec
