import FastgoModel.Proofs.ReaderProps
import FastgoModel.Spec.Inflate
/-
  Lossless, in-order delivery by decompressor.Read for any destination sizes, and what io.EOF means, relative to
  the specification inflater under the decoder's leaf contract `Faithful`.
-/
namespace Fastgo.Reader
variable {δ : Type}

/-- what a decoder run leaves in the Reader state, whatever bookkeeping branch follows it -/
theorem afterDecode_core (D : Decoder δ) (r1 : RState δ) :
    (afterDecode D r1).1.dec = (D.run r1.dec r1.inBytes r1.bitsLen r1.ended).st ∧
    (afterDecode D r1).1.pending = (D.run r1.dec r1.inBytes r1.bitsLen r1.ended).out ∧
    (afterDecode D r1).1.ended = (D.run r1.dec r1.inBytes r1.bitsLen r1.ended).ended ∧
    (afterDecode D r1).1.fed = r1.fed ++ r1.inBytes.take (D.run r1.dec r1.inBytes r1.bitsLen r1.ended).k ∧
    (afterDecode D r1).1.err = r1.err ∧
    ((afterDecode D r1).1.finished = true → r1.finished = true ∨
      ((D.run r1.dec r1.inBytes r1.bitsLen r1.ended).ended = true ∧ (D.run r1.dec r1.inBytes r1.bitsLen r1.ended).out = [])) ∧
    ((afterDecode D r1).2 = some .eof → (afterDecode D r1).1.finished = true) := by
  unfold afterDecode
  dsimp only
  generalize D.run r1.dec r1.inBytes r1.bitsLen r1.ended = o
  by_cases herr : o.status = DStatus.invalid ∨ (o.status = DStatus.needInput ∧ r1.eof = true)
  · rw [if_pos herr]
    refine ⟨rfl, rfl, rfl, rfl, rfl, fun h => Or.inl h, ?_⟩
    intro h
    simp only [Option.some.injEq] at h
    split at h <;> cases h
  · rw [if_neg herr]
    by_cases hfn : o.ended = true ∧ o.out = []
    · simp only [hfn, and_self, if_true]
      split
      · split
        · exact ⟨rfl, rfl, rfl, rfl, rfl, fun _ => Or.inr (by simp), fun _ => rfl⟩
        · exact ⟨rfl, rfl, rfl, rfl, rfl, fun _ => Or.inr (by simp), fun _ => rfl⟩
      · exact ⟨rfl, rfl, rfl, rfl, rfl, fun _ => Or.inr (by simp), fun _ => rfl⟩
    · simp only [hfn, if_false]
      split
      · split
        · exact ⟨rfl, rfl, rfl, rfl, rfl, fun h => Or.inl h, fun h => by cases h⟩
        · exact ⟨rfl, rfl, rfl, rfl, rfl, fun h => Or.inl h, fun h => by cases h⟩
      · exact ⟨rfl, rfl, rfl, rfl, rfl, fun h => Or.inl h, fun h => by cases h⟩


/-- input acquisition touches neither the decoder, nor the output, nor the error state -/
theorem acquire_frame (r r1 : RState δ) (h : acquire r = .ready r1) :
    r1.dec = r.dec ∧ r1.pending = r.pending ∧ r1.ended = r.ended ∧ r1.fed = r.fed ∧ r1.err = r.err ∧
    r1.finished = r.finished := by
  unfold acquire at h
  split at h
  · split at h
    · cases h
    · split at h
      · cases h
      · injection h with h; subst h; exact ⟨rfl, rfl, rfl, rfl, rfl, rfl⟩
  · injection h with h; subst h; exact ⟨rfl, rfl, rfl, rfl, rfl, rfl⟩

theorem acquire_failed_frame (r r0 : RState δ) (e : RE) (h : acquire r = .failed r0 e) :
    r0.dec = r.dec ∧ r0.pending = r.pending ∧ r0.ended = r.ended ∧ r0.fed = r.fed ∧ r0.finished = r.finished ∧
    e ≠ .eof := by
  unfold acquire at h
  split at h
  · split at h
    · cases h
    · split at h
      · injection h with h1 h2; subst h1 h2; exact ⟨rfl, rfl, rfl, rfl, rfl, by simp⟩
      · cases h
  · cases h


open Fastgo.Spec in
/-- output of the specification inflater, however it stopped -/
def specOut : Spec.Result → List UInt8
  | .done out _ _ => out.toList
  | .needMore out _ _ _ => out.toList
  | .corrupt out _ _ => out.toList

open Fastgo.Spec in
/-- Leaf contract of the decoder proper (inflate.go, header.go, huffcode.go, decode*.go/.s) relative to the
    specification inflater, as an invariant `R st fed out ended` over its runs: `fed` = the bytes it has taken so
    far, `out` = everything it has produced so far. -/
structure Faithful (D : Decoder δ) (mode : Mode) where
  R : δ → List UInt8 → List UInt8 → Bool → Prop
  init : R D.init [] [] false
  step : ∀ st fed out e input bl, R st fed out e →
    R (D.run st input bl e).st (fed ++ input.take (D.run st input bl e).k) (out ++ (D.run st input bl e).out)
      (D.run st input bl e).ended
  /-- nothing fabricated: what was produced is what the specification inflater produces from the same bytes -/
  pre : ∀ st fed out e, R st fed out e → out <+: specOut (inflate mode [] fed)
  /-- "stream ended" is only reported when the bytes taken begin with a complete stream, fully decoded -/
  fin : ∀ st fed out, R st fed out true → ∃ rest s, inflate mode [] fed = .done out.toArray rest s

open Fastgo.Spec in
/-- delivery invariant: `given` is everything Read has handed to the caller since NewReader/Reset -/
structure Deliv {D : Decoder δ} {mode : Mode} (F : Faithful D mode) (given : List UInt8) (r : RState δ) : Prop where
  made : ∃ m, given ++ r.pending = m ∧ F.R r.dec r.fed m r.ended
  eofFin : r.err = some .eof → r.finished = true
  finEnd : r.finished = true → r.ended = true

def ReadRes.bytes : ReadRes → List UInt8
  | .data bs _ => bs
  | _ => []

def ReadRes.err : ReadRes → Option RE
  | .data _ e => e
  | _ => none

open Fastgo.Spec in
theorem deliv_init {D : Decoder δ} {mode : Mode} (F : Faithful D mode) (bio : Bufio) :
    Deliv F [] (RState.init D bio) :=
  ⟨⟨[], rfl, F.init⟩, (fun h => by cases h), (fun h => by cases h)⟩

open Fastgo.Spec in
theorem deliv_reset {D : Decoder δ} {mode : Mode} (F : Faithful D mode) (r : RState δ) (bio : Bufio) :
    Deliv F [] (RState.reset D r bio) :=
  ⟨⟨[], rfl, F.init⟩, (fun h => by cases h), (fun h => by cases h)⟩

open Fastgo.Spec in
/-- one step() with nothing pending and no stored error -/
theorem step_deliv {D : Decoder δ} {mode : Mode} (F : Faithful D mode) (r : RState δ) (given : List UInt8)
    (hd : Deliv F given r) (hp0 : r.pending = []) (r1 : RState δ) (res : StepRes) (hs : step D r = (r1, res)) :
    (res = .blocked → r1 = r) ∧
    (∀ e, res = .err e → Deliv F given { r1 with err := e } ∧ (e = some .eof → r1.finished = true)) := by
  obtain ⟨m, hm, hR⟩ := hd.made
  rw [hp0, List.append_nil] at hm
  subst hm
  unfold step at hs
  by_cases hf : r.finished = true
  · rw [if_pos hf] at hs
    injection hs with h1 h2
    subst h1 h2
    refine ⟨(fun h => by cases h), ?_⟩
    intro e he
    injection he with he
    subst he
    exact ⟨⟨⟨given, by show given ++ r.pending = given; rw [hp0, List.append_nil], hR⟩, (fun _ => hf), hd.finEnd⟩, fun _ => hf⟩
  · have hnf : r.finished = false := by simpa using hf
    rw [if_neg hf] at hs
    cases ha : acquire r with
    | blocked =>
      rw [ha] at hs
      injection hs with h1 h2
      subst h1 h2
      exact ⟨fun _ => rfl, fun e he => by cases he⟩
    | failed r0 e0 =>
      rw [ha] at hs
      injection hs with h1 h2
      subst h1 h2
      obtain ⟨f1, f2, f3, f4, f5, f6⟩ := acquire_failed_frame r r0 e0 ha
      refine ⟨(fun h => by cases h), ?_⟩
      intro e he
      injection he with he
      subst he
      refine ⟨⟨⟨given, ?_, ?_⟩, ?_, ?_⟩, ?_⟩
      · show given ++ r0.pending = given
        rw [f2, hp0, List.append_nil]
      · show F.R r0.dec r0.fed given r0.ended
        rw [f1, f3, f4]; exact hR
      · intro h
        have h' : some e0 = some RE.eof := h
        injection h' with h'
        exact absurd h' f6
      · intro h
        have h' : r0.finished = true := h
        rw [f5, hnf] at h'; cases h'
      · intro h
        injection h with h
        exact absurd h f6
    | ready r1' =>
      rw [ha] at hs
      simp only at hs
      obtain ⟨f1, f2, f3, f4, f5, f6⟩ := acquire_frame r r1' ha
      obtain ⟨c1, c2, c3, c4, c5, c6, c7⟩ := afterDecode_core D r1'
      have hstep := F.step r1'.dec r1'.fed given r1'.ended r1'.inBytes r1'.bitsLen (by rw [f1, f3, f4]; exact hR)
      generalize hdo : D.run r1'.dec r1'.inBytes r1'.bitsLen r1'.ended = o at c1 c2 c3 c4 c6 hstep
      generalize had : afterDecode D r1' = ad at c1 c2 c3 c4 c5 c6 c7 hs
      obtain ⟨r2, e2⟩ := ad
      simp only at c1 c2 c3 c4 c5 c6 c7 hs
      injection hs with h1 h2
      subst h1 h2
      refine ⟨(fun h => by cases h), ?_⟩
      intro e he
      injection he with he
      subst he
      refine ⟨⟨⟨given ++ o.out, ?_, ?_⟩, ?_, ?_⟩, c7⟩
      · show given ++ r2.pending = given ++ o.out
        rw [c2]
      · show F.R r2.dec r2.fed (given ++ o.out) r2.ended
        rw [c1, c3, c4]; exact hstep
      · intro h; exact c7 h
      · intro h
        have hfin : r2.finished = true := h
        rcases c6 hfin with h1 | h1
        · rw [f6, hnf] at h1; cases h1
        · show r2.ended = true
          rw [c3]; exact h1.1

open Fastgo.Spec in
/-- decompressor.Read, any destination size: the bytes handed out extend `given` losslessly, in order, and
    io.EOF is returned only with nothing pending on a finished (hence ended) stream -/
theorem read_deliv {D : Decoder δ} {mode : Mode} (F : Faithful D mode) (fuel : Nat) (r : RState δ) (want : Nat)
    (given : List UInt8) (hd : Deliv F given r) :
    Deliv F (given ++ (read D fuel r want).2.bytes) (read D fuel r want).1 ∧
    ((read D fuel r want).2.err = some .eof → (read D fuel r want).1.pending = [] ∧ (read D fuel r want).1.finished = true) := by
  induction fuel generalizing r with
  | zero => simpa [read, ReadRes.bytes, ReadRes.err] using hd
  | succ k ih =>
    obtain ⟨m, hm, hR⟩ := hd.made
    unfold read
    by_cases hp : r.pending ≠ []
    · rw [if_pos hp]
      dsimp only
      have hsplit : given ++ r.pending.take (min want r.pending.length) ++ r.pending.drop (min want r.pending.length) = m := by
        rw [List.append_assoc, List.take_append_drop]; exact hm
      by_cases hp2 : r.pending.drop (min want r.pending.length) = []
      · rw [if_pos hp2]
        exact ⟨⟨⟨m, hsplit, hR⟩, hd.eofFin, hd.finEnd⟩, fun h => ⟨hp2, hd.eofFin h⟩⟩
      · rw [if_neg hp2]
        exact ⟨⟨⟨m, hsplit, hR⟩, hd.eofFin, hd.finEnd⟩, fun h => by cases h⟩
    · rw [if_neg hp]
      have hp0 : r.pending = [] := by simpa using hp
      cases he : r.err with
      | some e =>
        simp only [ReadRes.bytes, ReadRes.err, List.append_nil]
        exact ⟨hd, fun h => ⟨hp0, hd.eofFin (by rw [he, h])⟩⟩
      | none =>
        simp only
        have hsd := step_deliv F r given hd hp0
        generalize step D r = sr at hsd
        obtain ⟨r1, res⟩ := sr
        obtain ⟨s1, s2⟩ := hsd r1 res rfl
        cases res with
        | blocked =>
          simp only [ReadRes.bytes, ReadRes.err, List.append_nil]
          rw [s1 rfl]
          exact ⟨hd, fun h => by cases h⟩
        | err e =>
          obtain ⟨d2, d3⟩ := s2 e rfl
          simp only
          by_cases hret : e ≠ none ∧ ({ r1 with err := e } : RState δ).pending = []
          · rw [if_pos hret]
            simp only [ReadRes.bytes, ReadRes.err, List.append_nil]
            exact ⟨d2, fun h => ⟨hret.2, d3 h⟩⟩
          · rw [if_neg hret]
            exact ih _ d2


/-- all bytes handed out by a sequence of Read results -/
def delivered (rs : List ReadRes) : List UInt8 := (rs.map ReadRes.bytes).flatten

open Fastgo.Spec in
theorem readMany_deliv {D : Decoder δ} {mode : Mode} (F : Faithful D mode) (fuel : Nat) (r : RState δ) (ws : List Nat)
    (given : List UInt8) (hd : Deliv F given r) :
    Deliv F (given ++ delivered (readMany D fuel r ws).2) (readMany D fuel r ws).1 := by
  induction ws generalizing r given with
  | nil => simpa [readMany, delivered] using hd
  | cons w ws ih =>
    simp only [readMany]
    have h1 := (read_deliv F fuel r w given hd).1
    have h2 := ih _ _ h1
    simpa [delivered, List.append_assoc] using h2

/-- a Read that reports an error leaves it stored with nothing pending (so it is repeated: `read_sticky`) -/
theorem read_err_state (D : Decoder δ) (fuel : Nat) (r : RState δ) (want : Nat) (e : RE)
    (h : (read D fuel r want).2.err = some e) :
    (read D fuel r want).1.err = some e ∧ (read D fuel r want).1.pending = [] := by
  induction fuel generalizing r with
  | zero => simp [read, ReadRes.err] at h
  | succ k ih =>
    unfold read at h ⊢
    by_cases hp : r.pending ≠ []
    · rw [if_pos hp] at h ⊢
      dsimp only at h ⊢
      by_cases hp2 : r.pending.drop (min want r.pending.length) = []
      · rw [if_pos hp2] at h ⊢
        exact ⟨h, hp2⟩
      · rw [if_neg hp2] at h
        cases h
    · rw [if_neg hp] at h ⊢
      have hp0 : r.pending = [] := by simpa using hp
      cases he : r.err with
      | some e0 =>
        rw [he] at h
        simp only [ReadRes.err] at h ⊢
        exact ⟨by rw [he]; exact h, hp0⟩
      | none =>
        rw [he] at h
        simp only at h ⊢
        generalize step D r = sr at h ⊢
        obtain ⟨r1, res⟩ := sr
        cases res with
        | blocked => simp [ReadRes.err] at h
        | err e1 =>
          simp only at h ⊢
          by_cases hret : e1 ≠ none ∧ ({ r1 with err := e1 } : RState δ).pending = []
          · rw [if_pos hret] at h ⊢
            exact ⟨h, hret.2⟩
          · rw [if_neg hret] at h ⊢
            exact ih _ h

end Fastgo.Reader
