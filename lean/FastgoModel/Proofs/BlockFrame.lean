import FastgoModel.Proofs.BitsBytes
import FastgoModel.Proofs.FixedCode
/-
  Prefix stability ("frame") of the specification inflater: a block that decodes completely on its own bits
  decodes the same way whatever bits follow it, provided the Huffman codes the block uses are prefix-free
  (a decidable condition, `pfB`). This turns the *executable* check `checkBlock` — run the specification
  inflater on the bits one real block-encoder call produced — into the universally quantified statement
  `IsBlock` that the stream-composition proofs need (`checkBlock_sound`), and `checkEnc` into the `enc` clause of
  the leaf contract `Writer.Sound` for that call (`checkEnc_gives_enc`).
-/
namespace Fastgo.Spec
open Fastgo.Writer

/-! ### decidable prefix-freeness -/

def pfB (code : List (Nat × Bits)) : Bool :=
  code.all fun a => code.all fun b => a.2.isEmpty || b.2.isEmpty || !(a.2.isPrefixOf b.2) || decide (a = b)

theorem pfB_sound (code : List (Nat × Bits)) (h : pfB code = true) : PrefixFree code := by
  intro a ha b hb hna hnb hpre
  unfold pfB at h
  rw [List.all_eq_true] at h
  have h1 := h a ha
  rw [List.all_eq_true] at h1
  have h2 := h1 b hb
  simp only [Bool.or_eq_true, List.isEmpty_iff, Bool.not_eq_true', decide_eq_true_eq] at h2
  rcases h2 with ((h2 | h2) | h2) | h2
  · exact absurd h2 hna
  · exact absurd h2 hnb
  · have : a.2.isPrefixOf b.2 = true := List.isPrefixOf_iff_prefix.mpr hpre
    rw [this] at h2; cases h2
  · exact h2

/-! ### primitives -/

theorem takeField_frame (w : Nat) (bs t : Bits) (v : Nat) (r : Bits)
    (h : takeField w bs = some (v, r)) : takeField w (bs ++ t) = some (v, r ++ t) := by
  unfold takeField at h ⊢
  by_cases hl : bs.length < w
  · rw [if_pos hl] at h; cases h
  · rw [if_neg hl] at h
    simp only [Option.some.injEq, Prod.mk.injEq] at h
    have hl' : w ≤ bs.length := by omega
    have hn : ¬ (bs ++ t).length < w := by simp only [List.length_append]; omega
    rw [if_neg hn, List.take_append_of_le_length hl', List.drop_append_of_le_length hl', h.1, h.2]

theorem decodeWith_frame {α} (code : List (α × Bits)) (hpf : PrefixFree code) (bs t : Bits) (s : α) (r : Bits)
    (h : decodeWith code bs = some (s, r)) : decodeWith code (bs ++ t) = some (s, r ++ t) := by
  obtain ⟨cw, hm, hne, he⟩ := decodeWith_some code bs s r h
  subst he
  rw [List.append_assoc]
  exact decodeWith_encode code hpf s cw hm hne (r ++ t)

theorem decodeSym_frame (code : List (Nat × Bits)) (hpf : PrefixFree code) (bs t : Bits) (s : Nat) (r : Bits)
    (h : decodeSym code bs = .sym s r) : decodeSym code (bs ++ t) = .sym s (r ++ t) := by
  unfold decodeSym at h ⊢
  cases hd : decodeWith code bs with
  | none =>
    rw [hd] at h
    simp only at h
    split at h <;> cases h
  | some p =>
    obtain ⟨s', r'⟩ := p
    rw [hd] at h
    simp only [SymRes.sym.injEq] at h
    rw [decodeWith_frame code hpf bs t s' r' hd]
    simp only [h.1, h.2]

/-! ### the body of a Huffman-coded block -/

theorem bodyStep_cont_frame (lit dist : List (Nat × Bits)) (hl : PrefixFree lit) (hd : PrefixFree dist)
    (bs : Bits) (out : Array UInt8) (st : Stats) (o : Array UInt8) (r : Bits) (s : Stats)
    (h : bodyStep lit dist bs out st = .cont o r s) (t : Bits) (st' : Stats) :
    ∃ s', bodyStep lit dist (bs ++ t) out st' = .cont o (r ++ t) s' := by
  unfold bodyStep at h
  cases hs : decodeSym lit bs with
  | needMore => rw [hs] at h; cases h
  | invalid => rw [hs] at h; cases h
  | sym sy r0 =>
    rw [hs] at h
    simp only at h
    unfold bodyStep
    rw [decodeSym_frame lit hl bs t sy r0 hs]
    simp only
    by_cases h1 : sy < 256
    · simp only [h1, if_true, StepRes.cont.injEq] at h ⊢
      obtain ⟨ho, hr, _⟩ := h
      exact ⟨_, ho, by rw [hr], rfl⟩
    · simp only [h1, if_false] at h ⊢
      by_cases h2 : sy = 256
      · simp only [h2, if_true] at h; cases h
      · simp only [h2, if_false] at h ⊢
        by_cases h3 : sy > 285
        · simp only [h3, if_true] at h; cases h
        · simp only [h3, if_false] at h ⊢
          cases hf : takeField (lenExtra.getD (sy - 257) 0) r0 with
          | none => rw [hf] at h; cases h
          | some p =>
            obtain ⟨e, r1⟩ := p
            rw [hf] at h
            simp only at h
            rw [takeField_frame _ r0 t e r1 hf]
            simp only
            cases hds : decodeSym dist r1 with
            | needMore => rw [hds] at h; cases h
            | invalid => rw [hds] at h; cases h
            | sym ds r2 =>
              rw [hds] at h
              simp only at h
              rw [decodeSym_frame dist hd r1 t ds r2 hds]
              simp only
              by_cases h4 : ds > 29
              · simp only [h4, if_true] at h; cases h
              · simp only [h4, if_false] at h ⊢
                cases hf2 : takeField (distExtra.getD ds 0) r2 with
                | none => rw [hf2] at h; cases h
                | some p2 =>
                  obtain ⟨de, r3⟩ := p2
                  rw [hf2] at h
                  simp only at h
                  rw [takeField_frame _ r2 t de r3 hf2]
                  simp only
                  by_cases h5 : distBase.getD ds 0 + de > out.size
                  · simp only [h5, if_true] at h; cases h
                  · simp only [h5, if_false, StepRes.cont.injEq] at h ⊢
                    obtain ⟨ho, hr, _⟩ := h
                    exact ⟨_, ho, by rw [hr], rfl⟩

theorem bodyStep_eob_frame (lit dist : List (Nat × Bits)) (hl : PrefixFree lit)
    (bs : Bits) (out : Array UInt8) (st : Stats) (o : Array UInt8) (r : Bits) (s : Stats)
    (h : bodyStep lit dist bs out st = .eob o r s) (t : Bits) (st' : Stats) :
    bodyStep lit dist (bs ++ t) out st' = .eob o (r ++ t) st' := by
  unfold bodyStep at h
  cases hs : decodeSym lit bs with
  | needMore => rw [hs] at h; cases h
  | invalid => rw [hs] at h; cases h
  | sym sy r0 =>
    rw [hs] at h
    simp only at h
    unfold bodyStep
    rw [decodeSym_frame lit hl bs t sy r0 hs]
    simp only
    by_cases h1 : sy < 256
    · simp only [h1, if_true] at h; cases h
    · simp only [h1, if_false] at h ⊢
      by_cases h2 : sy = 256
      · simp only [h2, if_true, StepRes.eob.injEq] at h ⊢
        obtain ⟨ho, hr, _⟩ := h
        exact ⟨ho, by rw [hr], trivial⟩
      · simp only [h2, if_false] at h
        by_cases h3 : sy > 285
        · simp only [h3, if_true] at h; cases h
        · simp only [h3, if_false] at h
          cases hf : takeField (lenExtra.getD (sy - 257) 0) r0 with
          | none => rw [hf] at h; cases h
          | some p =>
            obtain ⟨e, r1⟩ := p
            rw [hf] at h
            simp only at h
            cases hds : decodeSym dist r1 with
            | needMore => rw [hds] at h; cases h
            | invalid => rw [hds] at h; cases h
            | sym ds r2 =>
              rw [hds] at h
              simp only at h
              by_cases h4 : ds > 29
              · simp only [h4, if_true] at h; cases h
              · simp only [h4, if_false] at h
                cases hf2 : takeField (distExtra.getD ds 0) r2 with
                | none => rw [hf2] at h; cases h
                | some p2 =>
                  obtain ⟨de, r3⟩ := p2
                  rw [hf2] at h
                  simp only at h
                  by_cases h5 : distBase.getD ds 0 + de > out.size
                  · simp only [h5, if_true] at h; cases h
                  · simp only [h5, if_false] at h; cases h

theorem decodeBody_frame (lit dist : List (Nat × Bits)) (hl : PrefixFree lit) (hd : PrefixFree dist) :
    ∀ (fuel : Nat) (bs : Bits) (out : Array UInt8) (st : Stats) (o : Array UInt8) (r : Bits) (s : Stats),
      decodeBody lit dist fuel bs out st = .eob o r s →
      ∀ (t : Bits) (st' : Stats) (fuel' : Nat), fuel ≤ fuel' →
        ∃ s', decodeBody lit dist fuel' (bs ++ t) out st' = .eob o (r ++ t) s' := by
  intro fuel
  induction fuel with
  | zero => intro bs out st o r s h; simp [decodeBody] at h
  | succ f ih =>
    intro bs out st o r s h t st' fuel' hf
    obtain ⟨f', rfl⟩ : ∃ f', fuel' = f' + 1 := ⟨fuel' - 1, by omega⟩
    rw [decodeBody] at h
    cases hb : bodyStep lit dist bs out st with
    | cont o1 r1 s1 =>
      rw [hb] at h
      simp only at h
      obtain ⟨s1', hb'⟩ := bodyStep_cont_frame lit dist hl hd bs out st o1 r1 s1 hb t st'
      obtain ⟨s', h'⟩ := ih r1 o1 s1 o r s h t s1' f' (by omega)
      refine ⟨s', ?_⟩
      rw [decodeBody, hb']
      exact h'
    | eob o1 r1 s1 =>
      rw [hb] at h
      simp only [BodyRes.eob.injEq] at h
      obtain ⟨ho, hr, _⟩ := h
      refine ⟨st', ?_⟩
      rw [decodeBody, bodyStep_eob_frame lit dist hl bs out st o1 r1 s1 hb t st', ho, hr]
    | needMore o1 r1 s1 => rw [hb] at h; cases h
    | corrupt o1 r1 s1 => rw [hb] at h; cases h

/-! ### the dynamic header -/

theorem readClLens_frame : ∀ (n : Nat) (os : List Nat) (bs : Bits) (acc : List Nat) (cl : List Nat) (r t : Bits),
    readClLens n os bs acc = some (cl, r) → readClLens n os (bs ++ t) acc = some (cl, r ++ t) := by
  intro n
  induction n with
  | zero =>
    intro os bs acc cl r t h
    simp only [readClLens, Option.some.injEq, Prod.mk.injEq] at h ⊢
    exact ⟨h.1, by rw [h.2]⟩
  | succ n ih =>
    intro os bs acc cl r t h
    cases os with
    | nil =>
      simp only [readClLens, Option.some.injEq, Prod.mk.injEq] at h ⊢
      exact ⟨h.1, by rw [h.2]⟩
    | cons o os =>
      rw [readClLens] at h ⊢
      cases hf : takeField 3 bs with
      | none => rw [hf] at h; cases h
      | some p =>
        obtain ⟨v, r1⟩ := p
        rw [hf] at h
        simp only at h
        rw [takeField_frame 3 bs t v r1 hf]
        exact ih os r1 (acc.set o v) cl r t h

theorem readLens_frame (cl : List (Nat × Bits)) (hpf : PrefixFree cl) (total : Nat) :
    ∀ (fuel : Nat) (bs : Bits) (acc lens : List Nat) (r t : Bits),
      readLens cl total fuel bs acc = .ok lens r → readLens cl total fuel (bs ++ t) acc = .ok lens (r ++ t) := by
  intro fuel
  induction fuel with
  | zero => intro bs acc lens r t h; simp [readLens] at h
  | succ f ih =>
    intro bs acc lens r t h
    rw [readLens] at h ⊢
    by_cases h0 : acc.length ≥ total
    · simp only [h0, if_true, LensRes.ok.injEq] at h ⊢
      exact ⟨h.1, by rw [h.2]⟩
    · simp only [h0, if_false] at h ⊢
      cases hs : decodeSym cl bs with
      | needMore => rw [hs] at h; cases h
      | invalid => rw [hs] at h; cases h
      | sym s r0 =>
        rw [hs] at h
        simp only at h
        rw [decodeSym_frame cl hpf bs t s r0 hs]
        simp only
        by_cases h1 : s < 16
        · simp only [h1, if_true] at h ⊢
          exact ih r0 _ lens r t h
        · simp only [h1, if_false] at h ⊢
          by_cases h2 : s = 16
          · simp only [h2, if_true] at h ⊢
            cases hg : acc.getLast? with
            | none => rw [hg] at h; cases h
            | some p =>
              rw [hg] at h
              simp only at h ⊢
              cases hf : takeField 2 r0 with
              | none => rw [hf] at h; cases h
              | some q =>
                obtain ⟨n, r1⟩ := q
                rw [hf] at h
                simp only at h
                rw [takeField_frame 2 r0 t n r1 hf]
                simp only
                by_cases h3 : acc.length + (n + 3) > total
                · simp only [h3, if_true] at h; cases h
                · simp only [h3, if_false] at h ⊢
                  exact ih r1 _ lens r t h
          · simp only [h2, if_false] at h ⊢
            by_cases h4 : s = 17
            · simp only [h4, if_true] at h ⊢
              cases hf : takeField 3 r0 with
              | none => rw [hf] at h; cases h
              | some q =>
                obtain ⟨n, r1⟩ := q
                rw [hf] at h
                simp only at h
                rw [takeField_frame 3 r0 t n r1 hf]
                simp only
                by_cases h3 : acc.length + (n + 3) > total
                · simp only [h3, if_true] at h; cases h
                · simp only [h3, if_false] at h ⊢
                  exact ih r1 _ lens r t h
            · simp only [h4, if_false] at h ⊢
              cases hf : takeField 7 r0 with
              | none => rw [hf] at h; cases h
              | some q =>
                obtain ⟨n, r1⟩ := q
                rw [hf] at h
                simp only at h
                rw [takeField_frame 7 r0 t n r1 hf]
                simp only
                by_cases h3 : acc.length + (n + 11) > total
                · simp only [h3, if_true] at h; cases h
                · simp only [h3, if_false] at h ⊢
                  exact ih r1 _ lens r t h

/-- the code-length-code lengths a dynamic header declares (`[]` when the header is too short to tell) -/
def headerCl (bs : Bits) : List Nat :=
  match takeField 5 bs with
  | none => []
  | some (_, r1) =>
  match takeField 5 r1 with
  | none => []
  | some (_, r2) =>
  match takeField 4 r2 with
  | none => []
  | some (hclen, r3) =>
    match readClLens (hclen + 4) clOrder r3 (List.replicate 19 0) with
    | none => []
    | some (cl, _) => cl

theorem readDynHeader_frame (mode : Mode) (bs t : Bits) (ll dl : List Nat) (r : Bits)
    (hpf : PrefixFree (canonical (headerCl bs)))
    (h : readDynHeader mode bs = .ok ll dl r) : readDynHeader mode (bs ++ t) = .ok ll dl (r ++ t) := by
  unfold readDynHeader at h ⊢
  unfold headerCl at hpf
  cases h1 : takeField 5 bs with
  | none => rw [h1] at h; cases h
  | some p1 =>
    obtain ⟨hlit, r1⟩ := p1
    rw [h1] at h hpf
    simp only at h hpf
    rw [takeField_frame 5 bs t hlit r1 h1]
    simp only
    cases h2 : takeField 5 r1 with
    | none => rw [h2] at h; cases h
    | some p2 =>
      obtain ⟨hdist, r2⟩ := p2
      rw [h2] at h hpf
      simp only at h hpf
      rw [takeField_frame 5 r1 t hdist r2 h2]
      simp only
      cases h3 : takeField 4 r2 with
      | none => rw [h3] at h; cases h
      | some p3 =>
        obtain ⟨hclen, r3⟩ := p3
        rw [h3] at h hpf
        simp only at h hpf
        rw [takeField_frame 4 r2 t hclen r3 h3]
        simp only
        by_cases hc : (hlit + 257 > 286 || hdist + 1 > 30) = true
        · rw [if_pos hc] at h; cases h
        · rw [if_neg hc] at h ⊢
          cases h4 : readClLens (hclen + 4) clOrder r3 (List.replicate 19 0) with
          | none => rw [h4] at h; cases h
          | some p4 =>
            obtain ⟨cl, r4⟩ := p4
            rw [h4] at h hpf
            simp only at h hpf
            rw [readClLens_frame _ _ r3 _ cl r4 t h4]
            simp only
            by_cases hk : (!lensOK mode cl) = true
            · rw [if_pos hk] at h; cases h
            · rw [if_neg hk] at h ⊢
              cases h5 : readLens (canonical cl) (hlit + 257 + (hdist + 1)) (hlit + 257 + (hdist + 1) + 1) r4 [] with
              | needMore => rw [h5] at h; cases h
              | corrupt => rw [h5] at h; cases h
              | ok lens r5 =>
                rw [h5] at h
                simp only at h
                rw [readLens_frame (canonical cl) hpf _ _ r4 [] lens r5 t h5]
                simp only
                by_cases hk2 : (!lensOK mode (lens.take (hlit + 257)) || !lensOK mode (lens.drop (hlit + 257))) = true
                · rw [if_pos hk2] at h; cases h
                · rw [if_neg hk2] at h ⊢
                  simp only [HdrRes.ok.injEq] at h ⊢
                  exact ⟨h.1, h.2.1, by rw [h.2.2]⟩

/-! ### one block -/

theorem fixDist_prefixFree : PrefixFree fixDist := by
  unfold PrefixFree
  decide +kernel

/-- the Huffman codes the block at the head of `bs` declares are prefix-free (fixed-code and stored blocks: nothing
    to check, the fixed code is prefix-free by `fixLit_prefixFree` / `fixDist_prefixFree`) -/
def blockCodesPF (mode : Mode) (bs : Bits) : Bool :=
  match takeField 1 bs with
  | none => false
  | some (_, r0) =>
  match takeField 2 r0 with
  | none => false
  | some (btype, r1) =>
    if btype = 2 then
      pfB (canonical (headerCl r1)) &&
        (match readDynHeader mode r1 with
         | .ok ll dl _ => pfB (canonical ll) && pfB (canonical dl)
         | _ => false)
    else true

theorem bytesOfBits_frame (bs t : Bits) (n : Nat) (h : 8 * n ≤ bs.length) : bytesOfBits (bs ++ t) n = bytesOfBits bs n := by
  unfold bytesOfBits
  apply List.map_congr_left
  intro i hi
  rw [List.mem_range] at hi
  have h1 : 8 * i ≤ bs.length := by omega
  rw [List.drop_append_of_le_length h1]
  have h2 : 8 ≤ (bs.drop (8 * i)).length := by rw [List.length_drop]; omega
  rw [List.take_append_of_le_length h2]

/-- **frame theorem for one block**: a block that decodes completely, leaving `r`, decodes to the same output
    leaving `r ++ t` whatever `t` follows, and whatever the statistics so far -/
theorem inflateBlock_frame (mode : Mode) (pos : Nat) (B : Bits) (h : Array UInt8) (st : Stats)
    (final : Bool) (o : Array UInt8) (r : Bits) (s : Stats)
    (hpf : blockCodesPF mode B = true)
    (hb : inflateBlock mode pos B h st = .next final o r s) (t : Bits) (st' : Stats) :
    ∃ s', inflateBlock mode pos (B ++ t) h st' = .next final o (r ++ t) s' := by
  unfold inflateBlock at hb ⊢
  unfold blockCodesPF at hpf
  cases h1 : takeField 1 B with
  | none => rw [h1] at hb; cases hb
  | some p1 =>
    obtain ⟨bfinal, r0⟩ := p1
    rw [h1] at hb hpf
    simp only at hb hpf
    rw [takeField_frame 1 B t bfinal r0 h1]
    simp only
    cases h2 : takeField 2 r0 with
    | none => rw [h2] at hb; cases hb
    | some p2 =>
      obtain ⟨btype, r1⟩ := p2
      rw [h2] at hb hpf
      simp only at hb hpf
      rw [takeField_frame 2 r0 t btype r1 h2]
      simp only
      by_cases hb0 : btype = 0
      · -- stored
        simp only [hb0, if_true] at hb ⊢
        by_cases hk : (8 - (pos + 3) % 8) % 8 ≤ r1.length
        · rw [List.drop_append_of_le_length hk]
          cases h3 : takeField 16 (r1.drop ((8 - (pos + 3) % 8) % 8)) with
          | none => rw [h3] at hb; cases hb
          | some p3 =>
            obtain ⟨len, r3⟩ := p3
            rw [h3] at hb
            simp only at hb
            rw [takeField_frame 16 _ t len r3 h3]
            simp only
            cases h4 : takeField 16 r3 with
            | none => rw [h4] at hb; cases hb
            | some p4 =>
              obtain ⟨nlen, r4⟩ := p4
              rw [h4] at hb
              simp only at hb
              rw [takeField_frame 16 r3 t nlen r4 h4]
              simp only
              by_cases hc : len + nlen ≠ 65535
              · rw [if_pos hc] at hb; cases hb
              · rw [if_neg hc] at hb ⊢
                by_cases hl : r4.length < 8 * len
                · rw [if_pos hl] at hb; cases hb
                · rw [if_neg hl] at hb
                  have hl' : 8 * len ≤ r4.length := by omega
                  have hn : ¬ (r4 ++ t).length < 8 * len := by simp only [List.length_append]; omega
                  rw [if_neg hn, bytesOfBits_frame r4 t len hl', List.drop_append_of_le_length hl']
                  simp only [BlockRes.next.injEq] at hb ⊢
                  exact ⟨_, hb.1, hb.2.1, by rw [hb.2.2.1], rfl⟩
        · have hd : r1.drop ((8 - (pos + 3) % 8) % 8) = [] := List.drop_eq_nil_of_le (by omega)
          rw [hd] at hb
          simp [takeField] at hb
      · simp only [hb0, if_false] at hb ⊢
        by_cases hb1 : btype = 1
        · simp only [hb1, if_true] at hb ⊢
          rw [← fixLit_eq, ← fixDist_eq] at hb ⊢
          cases hd : decodeBody fixLit fixDist (r1.length + 1) r1 h { st with blocks := st.blocks + 1 } with
          | needMore o1 r2 s1 => rw [hd] at hb; cases hb
          | corrupt o1 r2 s1 => rw [hd] at hb; cases hb
          | eob o1 r2 s1 =>
            rw [hd] at hb
            simp only [BlockRes.next.injEq] at hb
            obtain ⟨s', hd'⟩ := decodeBody_frame fixLit fixDist fixLit_prefixFree fixDist_prefixFree _ r1 h _ o1 r2 s1 hd t
              { st' with blocks := st'.blocks + 1 } ((r1 ++ t).length + 1) (by simp only [List.length_append]; omega)
            rw [hd']
            simp only [BlockRes.next.injEq]
            exact ⟨_, hb.1, hb.2.1, by rw [hb.2.2.1], rfl⟩
        · simp only [hb1, if_false] at hb ⊢
          by_cases hb2 : btype = 2
          · simp only [hb2, if_true] at hb hpf ⊢
            rw [Bool.and_eq_true] at hpf
            obtain ⟨hpcl, hpld⟩ := hpf
            cases hh : readDynHeader mode r1 with
            | needMore => rw [hh] at hb; cases hb
            | corrupt => rw [hh] at hb; cases hb
            | ok ll dl r2 =>
              rw [hh] at hb hpld
              simp only at hb hpld
              rw [Bool.and_eq_true] at hpld
              rw [readDynHeader_frame mode r1 t ll dl r2 (pfB_sound _ hpcl) hh]
              simp only
              cases hd : decodeBody (canonical ll) (canonical dl) (r2.length + 1) r2 h { st with blocks := st.blocks + 1 } with
              | needMore o1 r3 s1 => rw [hd] at hb; cases hb
              | corrupt o1 r3 s1 => rw [hd] at hb; cases hb
              | eob o1 r3 s1 =>
                rw [hd] at hb
                simp only [BlockRes.next.injEq] at hb
                obtain ⟨s', hd'⟩ := decodeBody_frame (canonical ll) (canonical dl) (pfB_sound _ hpld.1) (pfB_sound _ hpld.2) _ r2 h _ o1 r3 s1 hd t
                  { st' with blocks := st'.blocks + 1 } ((r2 ++ t).length + 1) (by simp only [List.length_append]; omega)
                rw [hd']
                simp only [BlockRes.next.injEq]
                exact ⟨_, hb.1, hb.2.1, by rw [hb.2.2.1], rfl⟩
          · simp only [hb2, if_false] at hb; cases hb

/-! ### the executable checks and what they mean -/

/-- run the specification inflater on the bits `B` alone: they must be exactly one block with the given BFINAL that
    extends `h` by `x`, and the codes it declares must be prefix-free -/
def checkBlock (mode : Mode) (pos : Nat) (B : Bits) (final : Bool) (h : Array UInt8) (x : List UInt8) : Bool :=
  blockCodesPF mode B &&
  match inflateBlock mode pos B h {} with
  | .next f o r _ => f == final && r.isEmpty && decide (o = h ++ x.toArray)
  | _ => false

theorem checkBlock_sound (mode : Mode) (pos : Nat) (B : Bits) (final : Bool) (h : Array UInt8) (x : List UInt8)
    (hc : checkBlock mode pos B final h x = true) : IsBlock mode pos B final h x := by
  unfold checkBlock at hc
  rw [Bool.and_eq_true] at hc
  obtain ⟨hpf, hc⟩ := hc
  cases hb : inflateBlock mode pos B h {} with
  | needMore o r s a => rw [hb] at hc; cases hc
  | corrupt o r s => rw [hb] at hc; cases hc
  | next f o r s =>
    rw [hb] at hc
    simp only [Bool.and_eq_true, beq_iff_eq, List.isEmpty_iff, decide_eq_true_eq] at hc
    obtain ⟨⟨hf, hr⟩, ho⟩ := hc
    subst hf hr ho
    intro t st
    obtain ⟨s', h'⟩ := inflateBlock_frame mode pos B h {} f _ [] s hpf hb t st
    exact ⟨s', by simpa using h'⟩

/-- the check applied to every recorded call of a real block encoder (correspondence kind E): `out` are the
    bytes it handed to the destination, `carry` / `carry'` the bits left in the bit buffer before / after; `h` is the
    data of the stream encoded before this block, `x` the data this block stands for. -/
def checkEnc (mode : Mode) (pos : Nat) (carry : Bits) (out : List UInt8) (carry' : Bits) (final : Bool)
    (h : Array UInt8) (x : List UInt8) : Bool :=
  let all := bytesToBits out ++ carry'
  decide (all.take carry.length = carry) && carry.length ≤ all.length &&
  (if final then
    carry'.isEmpty &&
      (match inflateBlock mode pos (all.drop carry.length) h {} with
       | .next _ _ r _ =>
          let B := (all.drop carry.length).take ((all.drop carry.length).length - r.length)
          decide (r.length ≤ (all.drop carry.length).length) &&
          decide (all.drop carry.length = B ++ List.replicate (padLen (carry ++ B).length) false) &&
          checkBlock mode pos B true h x
       | _ => false)
   else checkBlock mode pos (all.drop carry.length) false h x)

/-- **a passed check gives the `enc` clause of `Writer.Sound` for that call** -/
theorem checkEnc_gives_enc (mode : Mode) (pos : Nat) (carry : Bits) (out : List UInt8) (carry' : Bits) (final : Bool)
    (h : Array UInt8) (x : List UInt8) (hc : checkEnc mode pos carry out carry' final h x = true) :
    ∃ B, IsBlock mode pos B final h x ∧
      (final = false → bytesToBits out ++ carry' = carry ++ B) ∧
      (final = true → carry' = [] ∧
        bytesToBits out = carry ++ B ++ List.replicate (padLen (carry ++ B).length) false) := by
  unfold checkEnc at hc
  simp only [Bool.and_eq_true, decide_eq_true_eq] at hc
  obtain ⟨⟨hpre, _⟩, hc⟩ := hc
  have hsplit : bytesToBits out ++ carry' = carry ++ (bytesToBits out ++ carry').drop carry.length := by
    conv => lhs; rw [← List.take_append_drop carry.length (bytesToBits out ++ carry'), hpre]
  cases final with
  | false =>
    simp only [Bool.false_eq_true, if_false] at hc
    exact ⟨_, checkBlock_sound _ _ _ _ _ _ hc, fun _ => hsplit, fun hf => by cases hf⟩
  | true =>
    simp only [if_true, Bool.and_eq_true, List.isEmpty_iff] at hc
    obtain ⟨hc0, hc⟩ := hc
    cases hb : inflateBlock mode pos ((bytesToBits out ++ carry').drop carry.length) h {} with
    | needMore o r s a => rw [hb] at hc; cases hc
    | corrupt o r s => rw [hb] at hc; cases hc
    | next f o r s =>
      rw [hb] at hc
      simp only [Bool.and_eq_true, decide_eq_true_eq] at hc
      obtain ⟨⟨_, heq⟩, hck⟩ := hc
      refine ⟨_, checkBlock_sound _ _ _ _ _ _ hck, fun hf => (by cases hf), fun _ => ⟨hc0, ?_⟩⟩
      subst hc0
      simp only [List.append_nil] at heq hsplit ⊢
      rw [List.append_assoc, ← heq]
      exact hsplit

end Fastgo.Spec
