import FastgoModel.Proofs.Bufio
/-
  The bookkeeping invariant of the Reader control model and its preservation by step() and Read:
  bytes are handed to the decoder in stream order, each exactly once; what has been discarded from the
  bufio.Reader plus the whole bytes still in the bit buffer is exactly what the decoder has taken.
-/
namespace Fastgo.Reader
variable {δ : Type}

/-- The bookkeeping invariant of the Reader over a source whose complete byte stream is `S`. -/
structure Inv (S : List UInt8) (r : RState δ) : Prop where
  total    : r.gone ++ r.bio.stream = S
  goneLen  : r.gone.length = r.bio.taken
  fedPre   : r.fed = (r.gone ++ r.bio.buf).take r.fed.length
  fedGe    : r.bio.taken ≤ r.fed.length
  bits     : r.bitsLen / 8 ≤ r.fed.length - r.bio.taken
  acct     : match r.input with
             | some n => n ≤ r.peekSize ∧ r.peekSize ≤ r.bio.buf.length ∧ r.bio.taken + (r.peekSize - n) = r.fed.length
             | none => r.bio.taken + r.bitsLen / 8 = r.fed.length ∧ r.bitsLen / 8 ≤ r.bio.buf.length ∧ r.peekSize = 0
  finNone  : r.finished = true → r.input = none
  noneEnd  : True

theorem inv_init (D : Decoder δ) (bio : Bufio) : Inv (bio.stream) (RState.init D bio) := by
  refine ⟨?_, rfl, ?_, ?_, ?_, ?_, ?_, trivial⟩
  · simp [RState.init, Bufio.stream]
  · simp [RState.init]
  · simp [RState.init]
  · simp [RState.init]
  · simp [RState.init]
  · intro h; simp [RState.init] at h


theorem take_append_extra {α} (a x : List α) (k : Nat) (h : k ≤ a.length) : (a ++ x).take k = a.take k := by
  rw [List.take_append_of_le_length h]

/-- the invariant survives replacing the bufio.Reader by one that only grew (fills) while input is nil -/
theorem inv_grew (S : List UInt8) (r : RState δ) (hi : Inv S r) (hin : r.input = none) (b : Bufio)
    (hg : r.bio.Grew b) (hst : b.stream = r.bio.stream) :
    Inv S { r with bio := b } ∧ r.fed = (r.gone ++ b.buf).take r.fed.length ∧ r.bitsLen / 8 ≤ b.buf.length := by
  obtain ⟨⟨x, hx⟩, hbt, _⟩ := hg
  have hacct := hi.acct
  rw [hin] at hacct
  obtain ⟨ha1, ha2, ha3⟩ := hacct
  have hfedle : r.fed.length ≤ (r.gone ++ r.bio.buf).length := by
    rw [List.length_append, hi.goneLen]; omega
  have hpre : r.fed = (r.gone ++ b.buf).take r.fed.length := by
    rw [hx, ← List.append_assoc, take_append_extra _ _ _ hfedle]
    exact hi.fedPre
  have hbl : r.bitsLen / 8 ≤ b.buf.length := by rw [hx, List.length_append]; omega
  refine ⟨⟨?_, ?_, hpre, ?_, ?_, ?_, hi.finNone, trivial⟩, hpre, hbl⟩
  · show r.gone ++ b.stream = S
    rw [hst]; exact hi.total
  · show r.gone.length = b.taken
    rw [hbt]; exact hi.goneLen
  · show b.taken ≤ r.fed.length
    rw [hbt]; exact hi.fedGe
  · show r.bitsLen / 8 ≤ r.fed.length - b.taken
    rw [hbt]; exact hi.bits
  · show (match r.input with
        | some n => n ≤ r.peekSize ∧ r.peekSize ≤ b.buf.length ∧ b.taken + (r.peekSize - n) = r.fed.length
        | none => b.taken + r.bitsLen / 8 = r.fed.length ∧ r.bitsLen / 8 ≤ b.buf.length ∧ r.peekSize = 0)
    rw [hin, hbt]
    exact ⟨ha1, hbl, ha3⟩

theorem inv_ready (S : List UInt8) (r : RState δ) (hi : Inv S r) (hin : r.input = none) (hnf : r.finished = false)
    (b : Bufio) (hg : r.bio.Grew b) (hst : b.stream = r.bio.stream) (eofFlag : Bool) :
    Inv S { r with bio := b, eof := eofFlag, peekSize := b.buf.length, input := some (b.buf.length - r.bitsLen / 8) } := by
  obtain ⟨base, hpre, hbl⟩ := inv_grew S r hi hin b hg hst
  have hbt := hg.2.1
  have hacct := hi.acct
  rw [hin] at hacct
  refine ⟨base.total, base.goneLen, hpre, base.fedGe, base.bits, ?_, ?_, trivial⟩
  · show (b.buf.length - r.bitsLen / 8 ≤ b.buf.length ∧ b.buf.length ≤ b.buf.length ∧
        b.taken + (b.buf.length - (b.buf.length - r.bitsLen / 8)) = r.fed.length)
    rw [hbt]; omega
  · intro hf
    have : r.finished = true := hf
    rw [hnf] at this; cases this

theorem acquire_ready (S : List UInt8) (r r1 : RState δ) (hi : Inv S r) (hnf : r.finished = false)
    (h : acquire r = .ready r1) :
    Inv S r1 ∧ r1.pending = r.pending ∧ r1.dec = r.dec ∧ r1.ended = r.ended ∧ r1.finished = false ∧
      r1.bitsLen = r.bitsLen ∧ r1.fed = r.fed ∧ (r1.input = none → r1.ended = true) := by
  unfold acquire at h
  split at h
  · rename_i hc
    obtain ⟨hin, hne⟩ := hc
    split at h
    · cases h
    · rename_i b e f hp
      obtain ⟨hg, _⟩ := peek_spec _ _ _ _ _ _ hp
      have hst := peek_stream _ _ _ _ _ _ hp
      split at h
      · cases h
      · injection h with h
        subst h
        exact ⟨inv_ready S r hi hin hnf b hg hst _, rfl, rfl, rfl, hnf, rfl, rfl, fun h => by cases h⟩
  · rename_i hc
    injection h with h
    subst h
    refine ⟨hi, rfl, rfl, rfl, hnf, rfl, rfl, ?_⟩
    intro hn
    by_cases he : r.ended = true
    · exact he
    · exact absurd ⟨hn, he⟩ hc

theorem acquire_failed (S : List UInt8) (r r0 : RState δ) (e : RE) (hi : Inv S r) (h : acquire r = .failed r0 e) :
    Inv S r0 ∧ r0.input = none ∧ r0.pending = r.pending ∧ r0.finished = r.finished ∧
      (∃ id, e = .src (.fail id)) ∧ r0.fed.length = r0.gone.length + r0.bio.buf.length := by
  unfold acquire at h
  split at h
  · rename_i hc
    obtain ⟨hin, hne⟩ := hc
    split at h
    · cases h
    · rename_i b e' f hp
      obtain ⟨hg, herr⟩ := peek_spec _ _ _ _ _ _ hp
      have hst := peek_stream _ _ _ _ _ _ hp
      split at h
      · rename_i id
        injection h with h1 h2
        subst h1 h2
        obtain ⟨base, hpre, hbl⟩ := inv_grew S r hi hin b hg hst
        refine ⟨base, hin, rfl, rfl, ⟨id, rfl⟩, ?_⟩
        -- the error is reported only when fewer than retained+1 bytes are buffered: all delivered bytes were fed
        have hlt := herr (by simp)
        have hacct := base.acct
        simp only [hin] at hacct
        have hgl := base.goneLen
        show r.fed.length = r.gone.length + b.buf.length
        have h1 : b.taken + r.bitsLen / 8 = r.fed.length := hacct.1
        have h2 : r.gone.length = b.taken := hgl
        omega
      · cases h
  · cases h


/-- the part of the invariant that also holds in the intermediate states of step() -/
structure Pre (S : List UInt8) (r : RState δ) : Prop where
  total    : r.gone ++ r.bio.stream = S
  goneLen  : r.gone.length = r.bio.taken
  fedPre   : r.fed = (r.gone ++ r.bio.buf).take r.fed.length
  fedGe    : r.bio.taken ≤ r.fed.length
  bits     : r.bitsLen / 8 ≤ r.fed.length - r.bio.taken
  acct     : match r.input with
             | some n => n ≤ r.peekSize ∧ r.peekSize ≤ r.bio.buf.length ∧ r.bio.taken + (r.peekSize - n) = r.fed.length
             | none => r.bio.taken + r.bitsLen / 8 = r.fed.length ∧ r.bitsLen / 8 ≤ r.bio.buf.length ∧ r.peekSize = 0

theorem Inv.pre {S : List UInt8} {r : RState δ} (h : Inv S r) : Pre S r :=
  ⟨h.total, h.goneLen, h.fedPre, h.fedGe, h.bits, h.acct⟩

/-- the amount step() discards, in terms of the counters -/
theorem d_facts (S : List UInt8) (r : RState δ) (hp : Pre S r) :
    r.peekSize - r.inputLen - r.bitsLen / 8 ≤ r.bio.buf.length ∧
    r.bio.taken + (r.peekSize - r.inputLen - r.bitsLen / 8) + r.bitsLen / 8 = r.fed.length ∧
    r.bitsLen / 8 + r.inputLen ≤ r.bio.buf.length - (r.peekSize - r.inputLen - r.bitsLen / 8) := by
  have hacct := hp.acct
  have hbits := hp.bits
  have hge := hp.fedGe
  cases hin : r.input with
  | none =>
    rw [hin] at hacct
    obtain ⟨a1, a2, a3⟩ := hacct
    have : r.inputLen = 0 := by simp [RState.inputLen, hin]
    rw [this, a3]; omega
  | some n =>
    rw [hin] at hacct
    obtain ⟨a1, a2, a3⟩ := hacct
    have : r.inputLen = n := by simp [RState.inputLen, hin]
    rw [this]; omega

theorem discard_general (S : List UInt8) (r : RState δ) (hp : Pre S r) (d : Nat) (hd : d ≤ r.bio.buf.length) :
    (r.gone ++ r.bio.buf.take d) ++ (r.bio.discard d).stream = S ∧
    (r.gone ++ r.bio.buf.take d).length = (r.bio.discard d).taken ∧
    (r.gone ++ r.bio.buf.take d) ++ (r.bio.discard d).buf = r.gone ++ r.bio.buf ∧
    (r.bio.discard d).taken = r.bio.taken + d ∧ (r.bio.discard d).buf.length = r.bio.buf.length - d := by
  have hmin : min d r.bio.buf.length = d := by omega
  refine ⟨?_, ?_, ?_, ?_, ?_⟩
  · have := hp.total
    simp only [Bufio.stream, Bufio.discard] at this ⊢
    rw [List.append_assoc, ← List.append_assoc (List.take _ _), List.take_append_drop]
    exact this
  · simp only [Bufio.discard, List.length_append, List.length_take, hmin, hp.goneLen]
  · simp only [Bufio.discard]
    rw [List.append_assoc, List.take_append_drop]
  · simp only [Bufio.discard, hmin]
  · simp only [Bufio.discard, List.length_drop]

theorem discard_none (S : List UInt8) (r : RState δ) (hp : Pre S r) :
    Inv S { r.discardConsumed with input := none, peekSize := 0 } := by
  obtain ⟨d1, d2, d3⟩ := d_facts S r hp
  obtain ⟨g1, g2, g3, g4, g5⟩ := discard_general S r hp _ d1
  refine ⟨g1, g2, ?_, ?_, ?_, ?_, fun _ => rfl, trivial⟩
  · show r.fed = ((r.gone ++ r.bio.buf.take _) ++ (r.bio.discard _).buf).take r.fed.length
    rw [g3]; exact hp.fedPre
  · show (r.bio.discard _).taken ≤ r.fed.length
    rw [g4]; omega
  · show r.bitsLen / 8 ≤ r.fed.length - (r.bio.discard _).taken
    rw [g4]; omega
  · show (r.bio.discard _).taken + r.bitsLen / 8 = r.fed.length ∧ r.bitsLen / 8 ≤ (r.bio.discard _).buf.length ∧ 0 = 0
    rw [g4, g5]; omega

theorem discard_some0 (S : List UInt8) (r : RState δ) (hp : Pre S r) (hnf : r.finished = false) :
    Inv S { r.discardConsumed with input := some 0, peekSize := r.discardConsumed.bitsLen / 8 } := by
  obtain ⟨d1, d2, d3⟩ := d_facts S r hp
  obtain ⟨g1, g2, g3, g4, g5⟩ := discard_general S r hp _ d1
  refine ⟨g1, g2, ?_, ?_, ?_, ?_, ?_, trivial⟩
  · show r.fed = ((r.gone ++ r.bio.buf.take _) ++ (r.bio.discard _).buf).take r.fed.length
    rw [g3]; exact hp.fedPre
  · show (r.bio.discard _).taken ≤ r.fed.length
    rw [g4]; omega
  · show r.bitsLen / 8 ≤ r.fed.length - (r.bio.discard _).taken
    rw [g4]; omega
  · show 0 ≤ r.bitsLen / 8 ∧ r.bitsLen / 8 ≤ (r.bio.discard _).buf.length ∧
        (r.bio.discard _).taken + (r.bitsLen / 8 - 0) = r.fed.length
    rw [g4, g5]; omega
  · intro hf
    have : r.finished = true := hf
    rw [hnf] at this; cases this


/-- the state right after the decoder has run, before any discarding -/
def decoded (D : Decoder δ) (r1 : RState δ) : RState δ :=
  let o := D.run r1.dec r1.inBytes r1.bitsLen r1.ended
  { r1 with dec := o.st, pending := o.out, bitsLen := o.bitsLen, ended := o.ended,
            input := r1.input.map (· - o.k), fed := r1.fed ++ r1.inBytes.take o.k }

theorem decoded_pre (D : Decoder δ) (hs : D.Sane) (S : List UInt8) (r1 : RState δ) (hi : Inv S r1)
    (hne : r1.input = none → r1.ended = true) : Pre S (decoded D r1) := by
  obtain ⟨hk, hb, he⟩ := hs r1.dec r1.inBytes r1.bitsLen r1.ended
  have hacct := hi.acct
  have hgl := hi.goneLen
  have hbits := hi.bits
  have hge := hi.fedGe
  cases hin : r1.input with
  | none =>
    have hend := hne hin
    obtain ⟨hk0, hbl⟩ := he hend
    rw [hin] at hacct
    have hib : r1.inBytes = [] := by simp [RState.inBytes, hin]
    refine ⟨hi.total, hgl, ?_, ?_, ?_, ?_⟩
    · show r1.fed ++ r1.inBytes.take _ = (r1.gone ++ r1.bio.buf).take (r1.fed ++ r1.inBytes.take _).length
      rw [hib]; simp only [List.take_nil, List.append_nil]; exact hi.fedPre
    · show r1.bio.taken ≤ (r1.fed ++ r1.inBytes.take _).length
      rw [hib]; simpa using hge
    · show (D.run r1.dec r1.inBytes r1.bitsLen r1.ended).bitsLen / 8 ≤ (r1.fed ++ r1.inBytes.take _).length - r1.bio.taken
      rw [hbl, hib]; simpa using hbits
    · show (match r1.input.map (· - (D.run r1.dec r1.inBytes r1.bitsLen r1.ended).k) with
          | some n => n ≤ r1.peekSize ∧ r1.peekSize ≤ r1.bio.buf.length ∧ r1.bio.taken + (r1.peekSize - n) = (r1.fed ++ r1.inBytes.take _).length
          | none => r1.bio.taken + (D.run r1.dec r1.inBytes r1.bitsLen r1.ended).bitsLen / 8 = (r1.fed ++ r1.inBytes.take _).length ∧
                    (D.run r1.dec r1.inBytes r1.bitsLen r1.ended).bitsLen / 8 ≤ r1.bio.buf.length ∧ r1.peekSize = 0)
      rw [hin, hbl, hib]; simpa using hacct
  | some n =>
    rw [hin] at hacct
    obtain ⟨a1, a2, a3⟩ := hacct
    have hibl : r1.inBytes.length = n := by
      simp only [RState.inBytes, hin, List.length_take, List.length_drop]; omega
    rw [hibl] at hk
    have htl : (r1.inBytes.take (D.run r1.dec r1.inBytes r1.bitsLen r1.ended).k).length = (D.run r1.dec r1.inBytes r1.bitsLen r1.ended).k := by
      rw [List.length_take, hibl]; omega
    refine ⟨hi.total, hgl, ?_, ?_, ?_, ?_⟩
    · show r1.fed ++ r1.inBytes.take _ = (r1.gone ++ r1.bio.buf).take (r1.fed ++ r1.inBytes.take _).length
      rw [List.length_append, htl]
      -- (gone ++ buf).take (|fed| + k) = (gone ++ buf).take |fed| ++ ((gone ++ buf).drop |fed|).take k
      rw [List.take_add, ← hi.fedPre]
      congr 1
      have hdrop : (r1.gone ++ r1.bio.buf).drop r1.fed.length = r1.bio.buf.drop (r1.peekSize - n) := by
        rw [List.drop_append, hgl]
        have h1 : List.drop r1.fed.length r1.gone = [] := by
          apply List.drop_eq_nil_of_le; omega
        rw [h1, List.nil_append]
        congr 1; omega
      rw [hdrop]
      have hib : r1.inBytes = (r1.bio.buf.drop (r1.peekSize - n)).take n := by simp only [RState.inBytes, hin]
      generalize (D.run r1.dec r1.inBytes r1.bitsLen r1.ended).k = k at hk ⊢
      rw [hib, List.take_take]
      congr 1; omega
    · show r1.bio.taken ≤ (r1.fed ++ r1.inBytes.take _).length
      rw [List.length_append]; omega
    · show (D.run r1.dec r1.inBytes r1.bitsLen r1.ended).bitsLen / 8 ≤ (r1.fed ++ r1.inBytes.take _).length - r1.bio.taken
      rw [List.length_append, htl]; omega
    · show (match r1.input.map (· - (D.run r1.dec r1.inBytes r1.bitsLen r1.ended).k) with
          | some n => n ≤ r1.peekSize ∧ r1.peekSize ≤ r1.bio.buf.length ∧ r1.bio.taken + (r1.peekSize - n) = (r1.fed ++ r1.inBytes.take _).length
          | none => r1.bio.taken + (D.run r1.dec r1.inBytes r1.bitsLen r1.ended).bitsLen / 8 = (r1.fed ++ r1.inBytes.take _).length ∧
                    (D.run r1.dec r1.inBytes r1.bitsLen r1.ended).bitsLen / 8 ≤ r1.bio.buf.length ∧ r1.peekSize = 0)
      rw [hin]
      simp only [Option.map_some, List.length_append, htl]
      omega


theorem pre_finished (S : List UInt8) (r : RState δ) (h : Pre S r) : Pre S { r with finished := true } :=
  ⟨h.total, h.goneLen, h.fedPre, h.fedGe, h.bits, h.acct⟩

theorem afterDecode_inv (D : Decoder δ) (hs : D.Sane) (S : List UInt8) (r1 : RState δ) (hi : Inv S r1)
    (hnf : r1.finished = false) (hne : r1.input = none → r1.ended = true) :
    Inv S (afterDecode D r1).1 := by
  have hp := decoded_pre D hs S r1 hi hne
  have hfin : (decoded D r1).finished = false := hnf
  unfold afterDecode
  dsimp only
  by_cases herr : (D.run r1.dec r1.inBytes r1.bitsLen r1.ended).status = DStatus.invalid ∨
      ((D.run r1.dec r1.inBytes r1.bitsLen r1.ended).status = DStatus.needInput ∧ r1.eof = true)
  · rw [if_pos herr]
    exact discard_none S (decoded D r1) hp
  · rw [if_neg herr]
    by_cases hfn : (D.run r1.dec r1.inBytes r1.bitsLen r1.ended).ended = true ∧ (D.run r1.dec r1.inBytes r1.bitsLen r1.ended).out = []
    · rw [if_pos hfn, if_pos hfn]
      rw [if_pos (Or.inr rfl)]
      split
      · rename_i hof
        exact absurd rfl hof.2
      · exact discard_none S { decoded D r1 with finished := true } (pre_finished S _ hp)
    · rw [if_neg hfn, if_neg hfn]
      split
      · split
        · exact discard_some0 S (decoded D r1) hp hfin
        · exact discard_none S (decoded D r1) hp
      · have hfn' : (decoded D r1).finished = true → (decoded D r1).input = none := by
          intro h; rw [hfin] at h; cases h
        exact ⟨hp.total, hp.goneLen, hp.fedPre, hp.fedGe, hp.bits, hp.acct, hfn', trivial⟩


/-! ### step and Read preserve the invariant -/

theorem step_inv (D : Decoder δ) (hs : D.Sane) (S : List UInt8) (r : RState δ) (hi : Inv S r) :
    Inv S (step D r).1 := by
  unfold step
  by_cases hf : r.finished = true
  · simp [hf]; exact hi
  · have hnf : r.finished = false := by simpa using hf
    simp only [hnf, Bool.false_eq_true, if_false]
    cases ha : acquire r with
    | blocked => exact hi
    | failed r0 e => exact (acquire_failed S r r0 e hi ha).1
    | ready r1 =>
      obtain ⟨hi1, _, _, _, hnf1, _, _, hne1⟩ := acquire_ready S r r1 hi hnf ha
      exact afterDecode_inv D hs S r1 hi1 hnf1 hne1

/-- the invariant does not mention the undelivered output or the sticky error -/
theorem inv_pending_err (S : List UInt8) (r : RState δ) (hi : Inv S r) (p : List UInt8) (e : Option RE) :
    Inv S { r with pending := p, err := e } :=
  ⟨hi.total, hi.goneLen, hi.fedPre, hi.fedGe, hi.bits, hi.acct, hi.finNone, trivial⟩

theorem read_inv (D : Decoder δ) (hs : D.Sane) (S : List UInt8) (fuel : Nat) (r : RState δ) (want : Nat)
    (hi : Inv S r) : Inv S (read D fuel r want).1 := by
  induction fuel generalizing r with
  | zero => exact hi
  | succ k ih =>
    unfold read
    split
    · dsimp only
      split
      · exact inv_pending_err S r hi _ _
      · exact inv_pending_err S r hi _ _
    · split
      · exact hi
      · have hst := step_inv D hs S r hi
        generalize step D r = sr at hst
        obtain ⟨r1, res⟩ := sr
        cases res with
        | blocked => exact hst
        | err e =>
          dsimp only
          split
          · exact inv_pending_err S r1 hst _ _
          · exact ih _ (inv_pending_err S r1 hst _ _)

end Fastgo.Reader
