import FastgoModel.Proofs.WriterControl
/-
  Write (a ++ b) behaves like Write a; Write b  (the mechanism behind C09): `Accumulate` only copies,
  compression happens exactly when the buffer is full, the slide is decided by `idx` which only
  compression changes.
-/
namespace Fastgo.Writer
open Fastgo.Spec
variable {MF Tok : Type}

/-- the buffer after Accumulate's optional slide -/
def slid (c : Cfg) (s : Dyn MF Tok) : Dyn MF Tok :=
  if s.idx ≥ 2 * c.window then
    { s with buf := s.buf.drop (s.idx - c.window), idx := s.idx - (s.idx - c.window) }
  else s

def accN (c : Cfg) (s : Dyn MF Tok) (data : List UInt8) : Nat :=
  min (c.cap - (slid c s).buf.length) data.length

def accS (c : Cfg) (s : Dyn MF Tok) (data : List UInt8) : Dyn MF Tok :=
  { slid c s with buf := (slid c s).buf ++ data.take (accN c s data) }

theorem accumulate_eq (c : Cfg) (s : Dyn MF Tok) (data : List UInt8) :
    accumulate c s data = (accS c s data, accN c s data, decide ((accS c s data).buf.length ≥ c.cap)) := by
  unfold accumulate accS accN slid
  split <;> rfl

theorem accN_le (c : Cfg) (s : Dyn MF Tok) (data : List UInt8) : accN c s data ≤ data.length := by
  unfold accN; omega

theorem accS_len (c : Cfg) (s : Dyn MF Tok) (data : List UInt8) :
    (accS c s data).buf.length = (slid c s).buf.length + accN c s data := by
  simp [accS, List.length_take, accN]

theorem acc_notrig_all (c : Cfg) (s : Dyn MF Tok) (data : List UInt8)
    (h : ¬ (accS c s data).buf.length ≥ c.cap) : accN c s data = data.length := by
  rw [accS_len] at h
  unfold accN at *
  omega

/-- one loop iteration, with `accumulate` in normal form -/
theorem writeLoop_succ (L : DynLeaves MF Tok) (c : Cfg) (fuel : Nat) (w : WState MF Tok) (data : List UInt8) (num : Nat)
    (hd : data ≠ []) :
    writeLoop L c (fuel + 1) w data num =
      if (accS c w.dyn data).buf.length ≥ c.cap then
        match compressBlock L c false false (fuelFor (accS c w.dyn data)) (accS c w.dyn data) w.dst with
        | (s2, d2, .ok) =>
          if accN c w.dyn data = 0 then ({ w with dyn := s2, dst := d2 }, { n := num })
          else writeLoop L c fuel { w with dyn := s2, dst := d2 } (data.drop (accN c w.dyn data)) (num + accN c w.dyn data)
        | (s2, d2, _) => ({ w with dyn := s2, dst := d2, err := some .injected }, { n := num, err := some .injected })
      else writeLoop L c fuel { w with dyn := accS c w.dyn data } (data.drop (accN c w.dyn data)) (num + accN c w.dyn data) := by
  rw [writeLoop]
  simp only [hd, if_false, accumulate_eq]
  by_cases h : (accS c w.dyn data).buf.length ≥ c.cap
  · simp only [h, decide_true, if_true]
    generalize compressBlock L c false false (fuelFor (accS c w.dyn data)) (accS c w.dyn data) w.dst = cb
    obtain ⟨s2, d2, o⟩ := cb
    cases o <;> rfl
  · simp only [h, decide_false, Bool.false_eq_true, if_false]

theorem writeLoop_nil (L : DynLeaves MF Tok) (c : Cfg) (fuel : Nat) (w : WState MF Tok) (num : Nat) :
    writeLoop L c fuel w [] num = (w, { n := num }) := by
  cases fuel <;> simp [writeLoop]

theorem writeLoop_fuel (L : DynLeaves MF Tok) (c : Cfg) (f1 f2 : Nat) (w : WState MF Tok) (data : List UInt8) (num : Nat)
    (h1 : data.length < f1) (h2 : data.length < f2) :
    writeLoop L c f1 w data num = writeLoop L c f2 w data num := by
  induction f1 generalizing f2 w data num with
  | zero => omega
  | succ k ih =>
    cases f2 with
    | zero => omega
    | succ m =>
      by_cases hd : data = []
      · subst hd; simp [writeLoop_nil]
      · have hpos : 0 < data.length := List.length_pos_iff.mpr hd
        rw [writeLoop_succ L c k w data num hd, writeLoop_succ L c m w data num hd]
        by_cases ht : (accS c w.dyn data).buf.length ≥ c.cap
        · simp only [ht, if_true]
          split
          · rename_i s2 d2 hcb
            by_cases hn : accN c w.dyn data = 0
            · simp [hn]
            · simp only [hn, if_false]
              apply ih
              · simp [List.length_drop]; omega
              · simp [List.length_drop]; omega
          · rfl
        · simp only [ht, if_false]
          have hn := acc_notrig_all c w.dyn data ht
          apply ih
          · simp [List.length_drop]; omega
          · simp [List.length_drop]; omega


theorem slid_idem (c : Cfg) (hW : 0 < c.window) (s : Dyn MF Tok) : slid c (slid c s) = slid c s := by
  unfold slid
  by_cases h : s.idx ≥ 2 * c.window
  · simp only [h, if_true]
    have : ¬ (s.idx - (s.idx - c.window) ≥ 2 * c.window) := by omega
    simp [this]
  · simp [h]

/-- after Accumulate the slide has been done: sliding again changes nothing -/
theorem slid_accS (c : Cfg) (hW : 0 < c.window) (s : Dyn MF Tok) (data : List UInt8) :
    slid c (accS c s data) = accS c s data := by
  have h1 : (accS c s data).idx = (slid c s).idx := rfl
  have h2 : ¬ ((slid c s).idx ≥ 2 * c.window) := by
    unfold slid
    by_cases h : s.idx ≥ 2 * c.window
    · simp only [h, if_true]; omega
    · simp [h]
  unfold slid
  rw [h1]
  simp [h2]

/-- Accumulate of `a ++ b` when `a` alone does not fill the buffer = Accumulate `a`, then Accumulate `b` -/
theorem acc_append_small (c : Cfg) (hW : 0 < c.window) (s : Dyn MF Tok) (a b : List UInt8)
    (ha : ¬ (accS c s a).buf.length ≥ c.cap) :
    accS c s (a ++ b) = accS c (accS c s a) b ∧ accN c s (a ++ b) = a.length + accN c (accS c s a) b := by
  have hna := acc_notrig_all c s a ha
  have hlen := accS_len c s a
  rw [hna] at hlen
  rw [hlen] at ha
  have hN : accN c s (a ++ b) = a.length + accN c (accS c s a) b := by
    unfold accN
    rw [slid_accS c hW s a, hlen]
    simp only [List.length_append]
    omega
  refine ⟨?_, hN⟩
  have hA : accS c s a = { slid c s with buf := (slid c s).buf ++ a } := by
    show ({ slid c s with buf := (slid c s).buf ++ a.take (accN c s a) } : Dyn MF Tok) = _
    rw [hna, List.take_length]
  have ht : List.take (a.length + accN c (accS c s a) b) (a ++ b) = a ++ List.take (accN c (accS c s a) b) b := by
    rw [List.take_append]
    simp only [Nat.add_sub_cancel_left]
    rw [List.take_of_length_le (by omega)]
  calc accS c s (a ++ b)
      = { slid c s with buf := (slid c s).buf ++ (a ++ b).take (accN c s (a ++ b)) } := rfl
    _ = { slid c s with buf := ((slid c s).buf ++ a) ++ b.take (accN c (accS c s a) b) } := by
        rw [hN, ht, List.append_assoc]
    _ = { accS c s a with buf := (accS c s a).buf ++ b.take (accN c (accS c s a) b) } := by
        rw [hA]
    _ = { slid c (accS c s a) with buf := (slid c (accS c s a)).buf ++ b.take (accN c (accS c s a) b) } := by
        rw [slid_accS c hW s a]
    _ = accS c (accS c s a) b := rfl

theorem acc_append_big (c : Cfg) (s : Dyn MF Tok) (a b : List UInt8)
    (ha : (accS c s a).buf.length ≥ c.cap) :
    accS c s (a ++ b) = accS c s a ∧ accN c s (a ++ b) = accN c s a := by
  have hlen := accS_len c s a
  have hN : accN c s (a ++ b) = accN c s a := by
    unfold accN at *
    simp only [List.length_append]
    omega
  refine ⟨?_, hN⟩
  unfold accS
  rw [hN]
  have hle : accN c s a ≤ a.length := accN_le c s a
  rw [List.take_append_of_le_length hle]


theorem accN_pos_after (c : Cfg) (hW : 0 < c.window) (s : Dyn MF Tok) (a b : List UInt8)
    (ha : ¬ (accS c s a).buf.length ≥ c.cap) (hb : b ≠ []) : 0 < accN c (accS c s a) b := by
  have hlen := accS_len c s a
  have hna := acc_notrig_all c s a ha
  have hbl : 0 < b.length := List.length_pos_iff.mpr hb
  unfold accN
  rw [slid_accS c hW s a, hlen, hna]
  rw [hlen, hna] at ha
  omega

/-- same final state (including the destination), same error; same byte count when there is no error -/
def SameOutcome (x y : WState MF Tok × OpRes) : Prop :=
  x.1 = y.1 ∧ x.2.err = y.2.err ∧ (x.2.err = none → x.2.n = y.2.n)

theorem SameOutcome.of_eq {x y : WState MF Tok × OpRes} (h : x = y) : SameOutcome x y := by
  subst h; exact ⟨rfl, rfl, fun _ => rfl⟩

theorem writeLoop_append (L : DynLeaves MF Tok) (c : Cfg) (hW : 0 < c.window) (n : Nat) :
    ∀ (a b : List UInt8) (w w1 : WState MF Tok) (num f1 f2 f3 : Nat), a.length = n →
      (a ++ b).length < f1 → a.length < f2 → b.length < f3 →
      writeLoop L c f2 w a num = (w1, { n := num + a.length, err := none }) →
      SameOutcome (writeLoop L c f1 w (a ++ b) num) (writeLoop L c f3 w1 b (num + a.length)) := by
  induction n using Nat.strongRecOn with
  | _ n ih =>
    intro a b w w1 num f1 f2 f3 hlen h1 h2 h3 hr
    by_cases ha0 : a = []
    · subst ha0
      rw [writeLoop_nil] at hr
      have hw : w1 = w := by injection hr with h _; exact h.symm
      subst hw
      simp only [List.nil_append, List.length_nil, Nat.add_zero]
      exact .of_eq (writeLoop_fuel L c f1 f3 _ b num (by simpa using h1) h3)
    · have hapos : 0 < a.length := List.length_pos_iff.mpr ha0
      obtain ⟨k, rfl⟩ : ∃ k, f2 = k + 1 := ⟨f2 - 1, by omega⟩
      obtain ⟨m, rfl⟩ : ∃ m, f1 = m + 1 := ⟨f1 - 1, by omega⟩
      have hab0 : a ++ b ≠ [] := by simp [ha0]
      rw [writeLoop_succ L c k w a num ha0] at hr
      rw [writeLoop_succ L c m w (a ++ b) num hab0]
      by_cases hta : (accS c w.dyn a).buf.length ≥ c.cap
      · -- `a` alone fills the buffer
        obtain ⟨hS, hN⟩ := acc_append_big c w.dyn a b hta
        simp only [hta, if_true] at hr
        rw [hS, hN]
        simp only [hta, if_true]
        generalize hcb : compressBlock L c false false (fuelFor (accS c w.dyn a)) (accS c w.dyn a) w.dst = cb at hr ⊢
        obtain ⟨s2, d2, o⟩ := cb
        cases o with
        | ok =>
          try simp only at hr ⊢
          by_cases hn : accN c w.dyn a = 0
          · simp only [hn, if_true] at hr
            injection hr with _ hr2
            injection hr2 with hr3 _
            omega
          · simp only [hn, if_false] at hr ⊢
            have hle := accN_le c w.dyn a
            have hd : List.drop (accN c w.dyn a) (a ++ b) = List.drop (accN c w.dyn a) a ++ b :=
              List.drop_append_of_le_length hle
            rw [hd]
            have hl' : (List.drop (accN c w.dyn a) a).length = a.length - accN c w.dyn a := List.length_drop
            have hnum : num + a.length = num + accN c w.dyn a + (List.drop (accN c w.dyn a) a).length := by
              rw [hl']; omega
            rw [hnum] at hr ⊢
            refine ih (a.length - accN c w.dyn a) (by omega) _ b _ w1 _ m k f3 hl' ?_ ?_ h3 hr
            · simp only [List.length_append] at h1 ⊢; omega
            · rw [hl']; omega
        | failed =>
          simp only at hr
          injection hr with _ hr2
          injection hr2 with _ hr3
          cases hr3
        | stuck =>
          simp only at hr
          injection hr with _ hr2
          injection hr2 with _ hr3
          cases hr3
      · -- `a` fits with room to spare: the second Write continues in the same buffer
        obtain ⟨hS, hN⟩ := acc_append_small c hW w.dyn a b hta
        have hna := acc_notrig_all c w.dyn a hta
        simp only [hta, if_false] at hr
        rw [hna, List.drop_length, writeLoop_nil] at hr
        have hw : w1 = { w with dyn := accS c w.dyn a } := by injection hr with h _; exact h.symm
        subst hw
        by_cases hb0 : b = []
        · subst hb0
          rw [writeLoop_nil]
          have := writeLoop_succ L c m w (a ++ []) num hab0
          rw [← this]
          simp only [List.append_nil]
          rw [writeLoop_fuel L c (m + 1) (k + 1) w a num (by simpa using h1) h2, writeLoop_succ L c k w a num ha0]
          simp only [hta, if_false]
          rw [hna, List.drop_length, writeLoop_nil]
          exact .of_eq rfl
        · obtain ⟨j, rfl⟩ : ∃ j, f3 = j + 1 := ⟨f3 - 1, by omega⟩
          rw [writeLoop_succ L c j _ b (num + a.length) hb0]
          have hnb := accN_pos_after c hW w.dyn a b hta hb0
          have hdrop : List.drop (accN c w.dyn (a ++ b)) (a ++ b) = List.drop (accN c (accS c w.dyn a) b) b := by
            rw [hN, List.drop_append]
            simp
          have hnum : num + accN c w.dyn (a ++ b) = num + a.length + accN c (accS c w.dyn a) b := by
            rw [hN]; omega
          have hlb := accN_le c (accS c w.dyn a) b
          rw [hS, hdrop, hnum]
          by_cases htb : (accS c (accS c w.dyn a) b).buf.length ≥ c.cap
          · simp only [htb, if_true]
            generalize compressBlock L c false false (fuelFor (accS c (accS c w.dyn a) b)) (accS c (accS c w.dyn a) b) w.dst = cb
            obtain ⟨s2, d2, o⟩ := cb
            cases o with
            | ok =>
              simp only
              have hne1 : ¬ accN c w.dyn (a ++ b) = 0 := by rw [hN]; omega
              have hne2 : ¬ accN c (accS c w.dyn a) b = 0 := by omega
              simp only [hne1, hne2, if_false]
              apply SameOutcome.of_eq
              apply writeLoop_fuel
              · simp only [List.length_drop, List.length_append] at h1 ⊢; omega
              · simp only [List.length_drop]; omega
            | failed => exact ⟨rfl, rfl, fun h => by cases h⟩
            | stuck => exact ⟨rfl, rfl, fun h => by cases h⟩
          · simp only [htb, if_false]
            apply SameOutcome.of_eq
            apply writeLoop_fuel
            · simp only [List.length_drop, List.length_append] at h1 ⊢; omega
            · simp only [List.length_drop]; omega


/-- the state reached and the error do not depend on the running byte count -/
theorem writeLoop_num (L : DynLeaves MF Tok) (c : Cfg) (fuel : Nat) (w : WState MF Tok) (data : List UInt8) (n1 n2 : Nat) :
    (writeLoop L c fuel w data n1).1 = (writeLoop L c fuel w data n2).1 ∧
    (writeLoop L c fuel w data n1).2.err = (writeLoop L c fuel w data n2).2.err ∧
    (writeLoop L c fuel w data n1).2.n + n2 = (writeLoop L c fuel w data n2).2.n + n1 := by
  induction fuel generalizing w data n1 n2 with
  | zero => simp [writeLoop]; omega
  | succ k ih =>
    by_cases hd : data = []
    · subst hd; simp [writeLoop_nil]; omega
    · rw [writeLoop_succ L c k w data n1 hd, writeLoop_succ L c k w data n2 hd]
      by_cases ht : (accS c w.dyn data).buf.length ≥ c.cap
      · simp only [ht, if_true]
        generalize compressBlock L c false false (fuelFor (accS c w.dyn data)) (accS c w.dyn data) w.dst = cb
        obtain ⟨s2, d2, o⟩ := cb
        cases o with
        | ok =>
          by_cases hn : accN c w.dyn data = 0
          · simp [hn]; omega
          · simp only [hn, if_false]
            have := ih { err := w.err, dyn := s2, dst := d2 } (List.drop (accN c w.dyn data) data) (n1 + accN c w.dyn data) (n2 + accN c w.dyn data)
            refine ⟨this.1, this.2.1, ?_⟩
            omega
        | failed => simp; omega
        | stuck => simp; omega
      · simp only [ht, if_false]
        have := ih { err := w.err, dyn := accS c w.dyn data, dst := w.dst } (List.drop (accN c w.dyn data) data) (n1 + accN c w.dyn data) (n2 + accN c w.dyn data)
        refine ⟨this.1, this.2.1, ?_⟩
        omega

/-- a Write "goes through": it accepts all its bytes and returns nil -/
def WriteOK (L : DynLeaves MF Tok) (c : Cfg) (w : WState MF Tok) (a : List UInt8) : Prop :=
  (write L c w a).2 = { n := a.length, err := none }

theorem write_append (L : DynLeaves MF Tok) (c : Cfg) (hW : 0 < c.window) (w : WState MF Tok) (a b : List UInt8)
    (hopen : w.err = none) (hok : WriteOK L c w a) :
    (write L c w (a ++ b)).1 = (write L c (write L c w a).1 b).1 ∧
    (write L c w (a ++ b)).2.err = (write L c (write L c w a).1 b).2.err ∧
    ((write L c w (a ++ b)).2.err = none → (write L c w (a ++ b)).2.n = a.length + (write L c (write L c w a).1 b).2.n) := by
  unfold WriteOK at hok
  have hopen1 : (write L c w a).1.err = none := by
    rcases write_open L c w a hopen with ⟨_, h2⟩ | ⟨h1, _⟩
    · revert h2; unfold absState; split <;> simp_all
    · rw [hok] at h1; cases h1
  unfold write at hok hopen1 ⊢
  simp only [hopen] at hok hopen1 ⊢
  simp only [hopen1]
  have hr : writeLoop L c (a.length + 1) w a 0 = ((writeLoop L c (a.length + 1) w a 0).1, { n := 0 + a.length, err := none }) := by
    rw [Nat.zero_add, ← hok]
  have h := writeLoop_append L c hW a.length a b w _ 0 ((a ++ b).length + 1) (a.length + 1) (b.length + 1) rfl
    (Nat.lt_succ_self _) (Nat.lt_succ_self _) (Nat.lt_succ_self _) hr
  have hn := writeLoop_num L c (b.length + 1) (writeLoop L c (a.length + 1) w a 0).1 b (0 + a.length) 0
  obtain ⟨h1, h2, h3⟩ := h
  refine ⟨h1.trans hn.1, h2.trans hn.2.1, fun he => ?_⟩
  have := h3 he
  omega

end Fastgo.Writer
