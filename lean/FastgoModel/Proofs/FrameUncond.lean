import FastgoModel.Proofs.StreamFrame
import FastgoModel.Proofs.CanonicalPF
/-
  The frame theorems without side condition. Every code a block accepted by the specification inflater declares has
  passed `lensOK`, hence is prefix-free (`canonical_prefixFree_of_lensOK`), hence the decidable checks `blockCodesPF` /
  `streamPF` hold automatically (`blockCodesPF_of_next`, `streamPF_of_done`):

  * `inflateBlock_prefix_stable` — a block that decodes completely decodes identically whatever follows;
  * `inflate_prefix_stable`      — a byte string the specification decodes to the end decodes to the same data whatever
                                   bytes follow, and exactly those bytes (after the < 8 padding bits) are left;
  * `specInflater_exact_of_done` — the specification inflater meets the containers' `Inflater.Exact` on EVERY complete stream.
-/
namespace Fastgo.Spec

theorem pfB_complete (code : List (Nat × Bits)) (h : PrefixFree code) : pfB code = true := by
  unfold pfB
  rw [List.all_eq_true]
  intro a ha
  rw [List.all_eq_true]
  intro b hb
  by_cases h1 : a.2 = []
  · simp [h1]
  · by_cases h2 : b.2 = []
    · simp [h2]
    · by_cases h3 : a.2.isPrefixOf b.2 = true
      · have := h a ha b hb h1 h2 (List.isPrefixOf_iff_prefix.mp h3)
        simp [this]
      · simp [h3]

/-- a dynamic header the specification accepts declared three sets of lengths that passed `lensOK` -/
theorem readDynHeader_ok_lens (mode : Mode) (bs : Bits) (ll dl : List Nat) (r : Bits)
    (h : readDynHeader mode bs = .ok ll dl r) :
    lensOK mode (headerCl bs) = true ∧ lensOK mode ll = true ∧ lensOK mode dl = true := by
  unfold readDynHeader at h
  unfold headerCl
  cases h1 : takeField 5 bs with
  | none => rw [h1] at h; cases h
  | some p1 =>
    obtain ⟨hlit, r1⟩ := p1
    rw [h1] at h
    simp only at h ⊢
    cases h2 : takeField 5 r1 with
    | none => rw [h2] at h; cases h
    | some p2 =>
      obtain ⟨hdist, r2⟩ := p2
      rw [h2] at h
      simp only at h ⊢
      cases h3 : takeField 4 r2 with
      | none => rw [h3] at h; cases h
      | some p3 =>
        obtain ⟨hclen, r3⟩ := p3
        rw [h3] at h
        simp only at h ⊢
        by_cases hc : (hlit + 257 > 286 || hdist + 1 > 30) = true
        · rw [if_pos hc] at h; cases h
        · rw [if_neg hc] at h
          cases h4 : readClLens (hclen + 4) clOrder r3 (List.replicate 19 0) with
          | none => rw [h4] at h; cases h
          | some p4 =>
            obtain ⟨cl, r4⟩ := p4
            rw [h4] at h
            simp only at h ⊢
            by_cases hk : (!lensOK mode cl) = true
            · rw [if_pos hk] at h; cases h
            · rw [if_neg hk] at h
              cases h5 : readLens (canonical cl) (hlit + 257 + (hdist + 1)) (hlit + 257 + (hdist + 1) + 1) r4 [] with
              | needMore => rw [h5] at h; cases h
              | corrupt => rw [h5] at h; cases h
              | ok lens r5 =>
                rw [h5] at h
                simp only at h
                by_cases hk2 : (!lensOK mode (lens.take (hlit + 257)) || !lensOK mode (lens.drop (hlit + 257))) = true
                · rw [if_pos hk2] at h; cases h
                · rw [if_neg hk2] at h
                  simp only [HdrRes.ok.injEq] at h
                  obtain ⟨e1, e2, _⟩ := h
                  subst e1 e2
                  simp only [Bool.not_eq_true', Bool.not_eq_false, Bool.or_eq_true, not_or] at hk hk2
                  exact ⟨by simpa using hk, by simpa using hk2.1, by simpa using hk2.2⟩

/-- the side condition of the frame theorem holds for every block the specification decodes -/
theorem blockCodesPF_of_next (mode : Mode) (pos : Nat) (B : Bits) (h : Array UInt8) (st : Stats)
    (final : Bool) (o : Array UInt8) (r : Bits) (s : Stats)
    (hb : inflateBlock mode pos B h st = .next final o r s) : blockCodesPF mode B = true := by
  unfold inflateBlock at hb
  unfold blockCodesPF
  cases h1 : takeField 1 B with
  | none => rw [h1] at hb; cases hb
  | some p1 =>
    obtain ⟨bfinal, r0⟩ := p1
    rw [h1] at hb
    simp only at hb ⊢
    cases h2 : takeField 2 r0 with
    | none => rw [h2] at hb; cases hb
    | some p2 =>
      obtain ⟨btype, r1⟩ := p2
      rw [h2] at hb
      simp only at hb ⊢
      by_cases hb2 : btype = 2
      · have n0 : ¬ (2 = 0) := by decide
        have n1 : ¬ (2 = 1) := by decide
        simp only [hb2, n0, n1, if_true, if_false] at hb ⊢
        cases hh : readDynHeader mode r1 with
        | needMore => rw [hh] at hb; cases hb
        | corrupt => rw [hh] at hb; cases hb
        | ok ll dl r2 =>
          obtain ⟨k1, k2, k3⟩ := readDynHeader_ok_lens mode r1 ll dl r2 hh
          simp only [Bool.and_eq_true]
          exact ⟨pfB_complete _ (canonical_prefixFree_of_lensOK mode _ k1),
            pfB_complete _ (canonical_prefixFree_of_lensOK mode _ k2),
            pfB_complete _ (canonical_prefixFree_of_lensOK mode _ k3)⟩
      · simp [hb2]

/-- **the specification's block decoder is prefix-stable** (no side condition) -/
theorem inflateBlock_prefix_stable (mode : Mode) (pos : Nat) (B : Bits) (h : Array UInt8) (st : Stats)
    (final : Bool) (o : Array UInt8) (r : Bits) (s : Stats)
    (hb : inflateBlock mode pos B h st = .next final o r s) (t : Bits) (st' : Stats) :
    ∃ s', inflateBlock mode pos (B ++ t) h st' = .next final o (r ++ t) s' :=
  inflateBlock_frame mode pos B h st final o r s (blockCodesPF_of_next mode pos B h st final o r s hb) hb t st'

theorem streamPF_of_done (mode : Mode) : ∀ (fuel : Nat) (pos : Nat) (bs : Bits) (out : Array UInt8) (st : Stats)
    (O : Array UInt8) (R : Bits) (S : Stats),
    inflateBlocks mode fuel pos bs out st = .done O R S → streamPF mode fuel pos bs out = true := by
  intro fuel
  induction fuel with
  | zero => intro pos bs out st O R S h; simp [inflateBlocks] at h
  | succ f ih =>
    intro pos bs out st O R S hb
    rw [inflateBlocks] at hb
    rw [streamPF, Bool.and_eq_true]
    cases h1 : inflateBlock mode pos bs out st with
    | needMore o r s a => rw [h1] at hb; cases hb
    | corrupt o r s => rw [h1] at hb; cases hb
    | next final o r s =>
      rw [h1] at hb
      simp only at hb
      have hpf := blockCodesPF_of_next mode pos bs out st final o r s h1
      obtain ⟨s0, h0⟩ := inflateBlock_stats mode pos bs out st {} final o r s hpf h1
      refine ⟨hpf, ?_⟩
      rw [h0]
      simp only
      by_cases hfin : final = true
      · simp [hfin]
      · simp only [hfin, Bool.false_eq_true, if_false] at hb ⊢
        exact ih _ r o s O R S hb

/-- **the specification inflater is prefix-stable**: a byte string it decodes to the end (what is left being less than a
    byte of padding) decodes to the same data whatever bytes follow, leaving the padding and exactly those bytes -/
theorem inflate_prefix_stable (mode : Mode) (bytes more : List UInt8) (out : Array UInt8) (rest : Bits) (st : Stats)
    (h : inflate mode [] bytes = .done out rest st) (hr : rest.length < 8) :
    ∃ st', inflate mode [] (bytes ++ more) = .done out (rest ++ bytesToBits more) st' := by
  have hc : checkStream mode bytes = true := by
    unfold checkStream
    rw [Bool.and_eq_true]
    refine ⟨?_, by rw [h]; simpa using hr⟩
    unfold inflate at h
    simp only at h
    exact streamPF_of_done mode _ 0 _ _ _ out rest st h
  obtain ⟨out', rest', st1, st', h1, _, h2⟩ := inflate_frame mode bytes more hc
  rw [h] at h1
  simp only [Result.done.injEq] at h1
  obtain ⟨ho, hrr, _⟩ := h1
  subst ho hrr
  exact ⟨st', h2⟩

end Fastgo.Spec

namespace Fastgo.Container
open Fastgo.Spec

/-- on EVERY complete stream the specification inflater meets the contract `Exact` of the container theorems -/
theorem specInflater_exact_of_done (mode : Mode) (body : List UInt8) (out : Array UInt8) (rest : Bits) (st : Stats)
    (h : inflate mode [] body = .done out rest st) (hr : rest.length < 8) :
    (specInflater mode).Exact body out.toList := by
  have hc : checkStream mode body = true := by
    unfold checkStream
    rw [Bool.and_eq_true]
    refine ⟨?_, by rw [h]; simpa using hr⟩
    unfold inflate at h
    simp only at h
    exact streamPF_of_done mode _ 0 _ _ _ out rest st h
  obtain ⟨payload, hE, h0⟩ := specInflater_exact mode body hc
  have : payload = out.toList := by
    unfold specInflater at h0
    rw [h] at h0
    simp only [Option.some.injEq, Prod.mk.injEq] at h0
    exact h0.1.symm
  rw [← this]
  exact hE

end Fastgo.Container
