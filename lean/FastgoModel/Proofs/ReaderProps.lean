import FastgoModel.Proofs.ReaderControl
/-
  Consequences of the Reader invariant: exact consumption (C05), blocking only when starved (C11),
  source errors surface unchanged and late (C15), sticky errors, Reset = NewReader (C13).
-/
namespace Fastgo.Reader
variable {δ : Type}

/-- a sequence of Read calls with the given destination sizes -/
def readMany (D : Decoder δ) (fuel : Nat) (r : RState δ) : List Nat → RState δ × List ReadRes
  | [] => (r, [])
  | w :: ws =>
    let (r1, res) := read D fuel r w
    let (r2, rs) := readMany D fuel r1 ws
    (r2, res :: rs)

theorem readMany_inv (D : Decoder δ) (hs : D.Sane) (S : List UInt8) (fuel : Nat) (r : RState δ) (ws : List Nat)
    (hi : Inv S r) : Inv S (readMany D fuel r ws).1 := by
  induction ws generalizing r with
  | nil => exact hi
  | cons w ws ih =>
    simp only [readMany]
    exact ih _ (read_inv D hs S fuel r w hi)

/-- every state reachable from NewReader by Read calls satisfies the invariant -/
theorem reachable_inv (D : Decoder δ) (hs : D.Sane) (bio : Bufio) (fuel : Nat) (ws : List Nat) :
    Inv bio.stream (readMany D fuel (RState.init D bio) ws).1 :=
  readMany_inv D hs _ fuel _ ws (inv_init D bio)

theorem C05_exact_consumption (S : List UInt8) (r : RState δ) (hi : Inv S r) (hf : r.finished = true) :
    r.bio.taken + r.bitsLen / 8 = r.fed.length ∧ r.bio.stream = S.drop r.bio.taken := by
  have hin := hi.finNone hf
  have hacct := hi.acct
  rw [hin] at hacct
  refine ⟨hacct.1, ?_⟩
  rw [← hi.total, ← hi.goneLen, List.drop_left]

/-- with the decoder's own end-of-stream contract (bits taken = end of the final block): the position is the
    first byte after the DEFLATE stream -/
theorem C05_position (S : List UInt8) (r : RState δ) (hi : Inv S r) (hf : r.finished = true)
    (endBit : Nat) (hdec : 8 * r.fed.length = endBit + r.bitsLen) :
    r.bio.taken = (endBit + 7) / 8 ∧ r.bio.stream = S.drop ((endBit + 7) / 8) := by
  obtain ⟨h1, h2⟩ := C05_exact_consumption S r hi hf
  have : r.bio.taken = (endBit + 7) / 8 := by omega
  exact ⟨this, this ▸ h2⟩

/-- Read goes back to the source and finds it silent only after the decoder has been handed every byte the
    source ever delivered, has consumed its whole input slice, did not stop for lack of output space, and the
    stream has not ended -/
theorem step_blocked (D : Decoder δ) (S : List UInt8) (r r' : RState δ) (hi : Inv S r)
    (h : step D r = (r', .blocked)) :
    r' = r ∧ r.input = none ∧ r.ended = false ∧ r.finished = false ∧ r.fed = S := by
  unfold step at h
  by_cases hf : r.finished = true
  · simp [hf] at h
  · have hnf : r.finished = false := by simpa using hf
    simp only [hnf, Bool.false_eq_true, if_false] at h
    cases ha : acquire r with
    | failed r0 e => simp [ha] at h
    | ready r1 => simp [ha] at h
    | blocked =>
      simp only [ha, Prod.mk.injEq, and_true] at h
      unfold acquire at ha
      split at ha
      · rename_i hc
        obtain ⟨hin, hne⟩ := hc
        split at ha
        · rename_i hp
          obtain ⟨b1, ⟨⟨x, hx⟩, hbt, _⟩, hsrc, hlt, hst⟩ := peek_blocked _ _ _ hp
          have hacct := hi.acct
          rw [hin] at hacct
          obtain ⟨a1, a2, _⟩ := hacct
          have hb1 : b1.buf.length = r.bitsLen / 8 := by
            have : r.bio.buf.length ≤ b1.buf.length := by rw [hx, List.length_append]; omega
            omega
          have hx0 : x = [] := by
            have : (r.bio.buf ++ x).length = r.bitsLen / 8 := by rw [← hx]; exact hb1
            rw [List.length_append] at this
            have : x.length = 0 := by omega
            exact List.length_eq_zero_iff.mp this
          have hS : S = r.gone ++ r.bio.buf := by
            rw [← hi.total, ← hst]
            simp [Bufio.stream, hsrc, hx, hx0]
          refine ⟨h.symm, hin, by simpa using hne, hnf, ?_⟩
          rw [hS]
          have hlen : r.fed.length = (r.gone ++ r.bio.buf).length := by
            rw [List.length_append, hi.goneLen]
            rw [hx, hx0, List.append_nil] at hb1
            omega
          have := hi.fedPre
          rw [hlen, List.take_length] at this
          exact this
        · split at ha <;> cases ha
      · cases ha


theorem read_blocked (D : Decoder δ) (hs : D.Sane) (S : List UInt8) (fuel : Nat) (r r' : RState δ) (want : Nat)
    (hi : Inv S r) (h : read D fuel r want = (r', .blocked)) :
    r'.pending = [] ∧ r'.input = none ∧ r'.ended = false ∧ r'.finished = false ∧ r'.fed = S := by
  induction fuel generalizing r with
  | zero => simp [read] at h
  | succ k ih =>
    unfold read at h
    split at h
    · dsimp only at h
      split at h <;> simp at h
    · rename_i hpend
      split at h
      · simp at h
      · have hst := step_inv D hs S r hi
        have hb := step_blocked D S r
        generalize step D r = sr at h hst hb
        obtain ⟨r1, res⟩ := sr
        cases res with
        | blocked =>
          simp only [Prod.mk.injEq, and_true] at h
          subst h
          obtain ⟨h1, h2, h3, h4, h5⟩ := hb r1 hi rfl
          subst h1
          exact ⟨by simpa using hpend, h2, h3, h4, h5⟩
        | err e =>
          dsimp only at h
          split at h
          · simp at h
          · exact ih _ (inv_pending_err S r1 hst _ _) h

/-- a stored error with nothing left to deliver is returned again, and nothing else happens -/
theorem read_sticky (D : Decoder δ) (fuel : Nat) (r : RState δ) (want : Nat) (e : RE)
    (he : r.err = some e) (hp : r.pending = []) :
    read D (fuel + 1) r want = (r, .data [] (some e)) := by
  unfold read
  simp [hp, he]

/-- the error step() returns after a decoder run -/
def stepErr (o : DecOut δ) (eof : Bool) : Option RE :=
  if o.status = .invalid ∨ (o.status = .needInput ∧ eof = true) then
    some (if o.status = .needInput then .unexpectedEOF else .corrupt)
  else if o.ended = true ∧ o.out = [] then some .eof else none

theorem afterDecode_snd (D : Decoder δ) (r1 : RState δ) :
    (afterDecode D r1).2 = stepErr (D.run r1.dec r1.inBytes r1.bitsLen r1.ended) r1.eof := by
  unfold afterDecode stepErr
  dsimp only
  by_cases herr : (D.run r1.dec r1.inBytes r1.bitsLen r1.ended).status = DStatus.invalid ∨
      ((D.run r1.dec r1.inBytes r1.bitsLen r1.ended).status = DStatus.needInput ∧ r1.eof = true)
  · rw [if_pos herr, if_pos herr]
  · rw [if_neg herr, if_neg herr]
    by_cases hfn : (D.run r1.dec r1.inBytes r1.bitsLen r1.ended).ended = true ∧ (D.run r1.dec r1.inBytes r1.bitsLen r1.ended).out = []
    · repeat rw [if_pos hfn]
      split
      · split <;> rfl
      · rfl
    · repeat rw [if_neg hfn]
      split
      · split <;> rfl
      · rfl

theorem stepErr_not_src (o : DecOut δ) (eof : Bool) (e : SErr) : stepErr o eof ≠ some (.src e) := by
  unfold stepErr
  split
  · split <;> simp
  · split <;> simp

/-- a source error reaches the caller unchanged, and only after every byte delivered before it was decoded -/
theorem step_source_error (D : Decoder δ) (S : List UInt8) (r r' : RState δ) (hi : Inv S r) (e : SErr)
    (h : step D r = (r', .err (some (.src e)))) :
    (∃ id, e = .fail id) ∧ r'.input = none ∧ r'.fed.length = r'.gone.length + r'.bio.buf.length ∧ r'.pending = r.pending := by
  unfold step at h
  by_cases hf : r.finished = true
  · simp [hf] at h
  · have hnf : r.finished = false := by simpa using hf
    simp only [hnf, Bool.false_eq_true, if_false] at h
    cases ha : acquire r with
    | blocked => simp [ha] at h
    | failed r0 e0 =>
      simp only [ha, Prod.mk.injEq, StepRes.err.injEq, Option.some.injEq] at h
      obtain ⟨h1, h2⟩ := h
      subst h1 h2
      obtain ⟨_, hin, hpe, _, ⟨id, hid⟩, hall⟩ := acquire_failed S r r0 _ hi ha
      injection hid with hid
      exact ⟨⟨id, hid⟩, hin, hall, hpe⟩
    | ready r1 =>
      simp only [ha] at h
      exfalso
      have h2 : (afterDecode D r1).2 = some (.src e) := by
        have := congrArg (fun t => t.2) h
        simpa using this
      rw [afterDecode_snd] at h2
      exact stepErr_not_src _ _ _ h2

theorem reset_eq_init (D : Decoder δ) (r : RState δ) (bio : Bufio) : RState.reset D r bio = RState.init D bio := rfl


/-- an error reported by Peek is one the source produced (or one already pending in the bufio.Reader) -/
theorem peek_err_origin (n fuel : Nat) (b b1 : Bufio) (e : SErr) (f : Bool)
    (h : Bufio.peek n fuel b = .got b1 (some e) f) : b.err = some e ∨ ∃ c ∈ b.src, c.err = some e := by
  induction fuel generalizing b with
  | zero => simp [Bufio.peek] at h
  | succ k ih =>
    unfold Bufio.peek at h
    split at h
    · split at h
      · cases h
      · rename_i b2 hf
        rcases ih b2 h with h1 | ⟨c, hc, hce⟩
        · -- the error was recorded by this fill: it is the head chunk's
          unfold Bufio.fill at hf
          split at hf
          · cases hf
          · rename_i c0 rest hs
            dsimp only at hf
            split at hf
            · injection hf with hf; subst hf
              right; exact ⟨c0, by rw [hs]; exact List.mem_cons_self, h1⟩
            · injection hf with hf; subst hf
              left; exact h1
        · unfold Bufio.fill at hf
          split at hf
          · cases hf
          · rename_i c0 rest hs
            dsimp only at hf
            split at hf
            · injection hf with hf; subst hf
              right; exact ⟨c, by rw [hs]; exact List.mem_cons_of_mem _ hc, hce⟩
            · injection hf with hf; subst hf
              right
              simp only [List.mem_cons] at hc
              rcases hc with hc | hc
              · subst hc; exact ⟨c0, by rw [hs]; exact List.mem_cons_self, hce⟩
              · exact ⟨c, by rw [hs]; exact List.mem_cons_of_mem _ hc, hce⟩
    · split at h
      · split at h
        · rename_i e0 he0
          injection h with _ h2 _
          injection h2 with h2
          subst h2
          left; exact he0
        · injection h with _ h2 _
          cases h2
      · injection h with _ h2 _
        cases h2

end Fastgo.Reader
