import FastgoModel.Container.Gzip
/-
  parseHeader (emitHeader h) = h : what gzip.Writer writes, gzip.Reader reads back (C06).
-/
namespace Fastgo.Container
open Fastgo.Spec

theorem flags_lt (h : GzHeader) : flagsOf h < 32 := by
  unfold flagsOf; split <;> split <;> split <;> omega

theorem optExtra_emit (e : Option (List UInt8)) (hl : ∀ x, e = some x → x.length ≤ 65535) (rest : List UInt8) :
    optExtra e.isSome (extraBytes e ++ rest) = .ok e rest := by
  unfold extraBytes
  cases e with
  | none => simp [optExtra]
  | some x =>
    have h2 : x.length < 256 ^ 2 := by have := hl x rfl; omega
    simp only [optExtra, Option.isSome_some, if_true, List.append_assoc]
    have := takeN_append (le x.length 2) (x ++ rest)
    rw [le_length] at this
    rw [this]
    simp only [unle_le _ _ h2, takeN_append]

theorem optStr_emit (s : List UInt8) (h0 : (0 : UInt8) ∉ s) (hl : s.length ≤ 511) (rest : List UInt8) :
    optStr (decide (s ≠ [])) (strPart s ++ rest) = .ok s rest := by
  unfold strPart
  by_cases hs : s = []
  · subst hs; simp [optStr]
  · simp only [optStr, hs, ne_eq, not_false_eq_true, decide_true, if_true, List.append_assoc, List.cons_append, List.nil_append]
    rw [readCStr_spec s rest [] 512 h0 (by omega)]
    simp


theorem flag_bits (h : GzHeader) :
    (decide ((UInt8.ofNat (flagsOf h)).toNat / 4 % 2 = 1) = h.extra.isSome) ∧
    (decide ((UInt8.ofNat (flagsOf h)).toNat / 8 % 2 = 1) = decide (h.name ≠ [])) ∧
    (decide ((UInt8.ofNat (flagsOf h)).toNat / 16 % 2 = 1) = decide (h.comment ≠ [])) ∧
    ¬ ((UInt8.ofNat (flagsOf h)).toNat / 2 % 2 = 1) := by
  have hlt := flags_lt h
  have hn : (UInt8.ofNat (flagsOf h)).toNat = flagsOf h := by
    simp [UInt8.toNat_ofNat']; omega
  rw [hn]
  unfold flagsOf
  cases h.extra <;> by_cases h1 : h.name = [] <;> by_cases h2 : h.comment = [] <;> simp [h1, h2]

theorem gzip_header_roundtrip (h : GzHeader) (hwf : h.WF) (level : Int) (rest : List UInt8) :
    parseHeader (emitHeader h level ++ rest) = .ok h rest := by
  obtain ⟨hE, hN0, hNl, hC0, hCl, hM⟩ := hwf
  obtain ⟨f1, f2, f3, f4⟩ := flag_bits h
  have hm : unle [UInt8.ofNat (h.mtime % 256), UInt8.ofNat (h.mtime / 256 % 256),
      UInt8.ofNat (h.mtime / 256 / 256 % 256), UInt8.ofNat (h.mtime / 256 / 256 / 256 % 256)] = h.mtime := by
    have := unle_le h.mtime 4 (by omega)
    simpa [le] using this
  have hfix : takeN 10 (emitHeader h level ++ rest) =
      some (fixedPart h level, extraPart h ++ (strPart h.name ++ (strPart h.comment ++ rest))) := by
    have := takeN_append (fixedPart h level) (extraPart h ++ (strPart h.name ++ (strPart h.comment ++ rest)))
    simpa [emitHeader, fixedPart, List.append_assoc] using this
  unfold parseHeader
  rw [hfix]
  simp only [fixedPart]
  simp only [ne_eq, not_true_eq_false, or_self, if_false]
  rw [f1, f2, f3]
  have hx := optExtra_emit h.extra hE (strPart h.name ++ (strPart h.comment ++ rest))
  unfold extraPart
  rw [hx]
  simp only
  rw [optStr_emit h.name hN0 hNl, ]
  simp only
  rw [optStr_emit h.comment hC0 hCl]
  simp only [f4, if_false, hm]


end Fastgo.Container
