import FastgoModel.Proofs.StreamCompose
import FastgoModel.Writer.Control
/-
  Bits <-> bytes (LSB first), padding to a byte boundary, and the empty stored block that Flush / an empty Close
  emit (BitBuf.writeEmptyBlock / writeFinalEmptyBlock).
-/
namespace Fastgo.Spec
open Fastgo.Writer

theorem natToBits_eq_testBit (n w : Nat) : natToBits n w = (List.range w).map fun i => n.testBit i := by
  induction w generalizing n with
  | zero => rfl
  | succ w ih =>
    rw [natToBits, ih, List.range_succ_eq_map, List.map_cons, List.map_map]
    congr 1
    · simp only [Nat.testBit_zero]
      by_cases h : n % 2 = 1 <;> simp [h]
    · apply List.map_congr_left
      intro i _
      simp [Nat.testBit_succ]

theorem byteBits_eq (b : UInt8) : byteBits b = natToBits b.toNat 8 := by
  rw [natToBits_eq_testBit]; rfl

theorem natToBits_bitsToNat (bs : Bits) : natToBits (bitsToNat bs) bs.length = bs := by
  induction bs with
  | nil => rfl
  | cons b r ih =>
    simp only [bitsToNat, List.length_cons, natToBits]
    cases b with
    | true =>
      have h1 : (1 + 2 * bitsToNat r) % 2 = 1 := by omega
      have h2 : (1 + 2 * bitsToNat r) / 2 = bitsToNat r := by omega
      simp [h1, h2, ih]
    | false =>
      have h1 : (0 + 2 * bitsToNat r) % 2 = 0 := by omega
      have h2 : (0 + 2 * bitsToNat r) / 2 = bitsToNat r := by omega
      simp [h1, h2, ih]

theorem bitsToNat_lt (bs : Bits) : bitsToNat bs < 2 ^ bs.length := by
  induction bs with
  | nil => simp [bitsToNat]
  | cons b r ih =>
    simp only [bitsToNat, List.length_cons, Nat.pow_succ]
    cases b <;> simp <;> omega

/-- packing 8 bits into a byte and unpacking gives the bits back -/
theorem byteBits_ofBits (b8 : Bits) (h : b8.length = 8) : byteBits (UInt8.ofNat (bitsToNat b8)) = b8 := by
  rw [byteBits_eq]
  have hlt : bitsToNat b8 < 256 := by have := bitsToNat_lt b8; rw [h] at this; exact this
  have : (UInt8.ofNat (bitsToNat b8)).toNat = bitsToNat b8 := by
    simp [UInt8.toNat_ofNat']; omega
  rw [this, ← h, natToBits_bitsToNat]


theorem bytesToBits_packBytes (m : Nat) (p : Bits) (h : p.length = 8 * m) : bytesToBits (packBytes m p) = p := by
  induction m generalizing p with
  | zero =>
    have : p = [] := List.length_eq_zero_iff.mp (by omega)
    subst this; rfl
  | succ m ih =>
    have h8 : (p.take 8).length = 8 := by rw [List.length_take]; omega
    have hr : (p.drop 8).length = 8 * m := by rw [List.length_drop]; omega
    simp only [packBytes, bytesToBits, List.flatMap_cons]
    rw [byteBits_ofBits _ h8]
    have := ih (p.drop 8) hr
    simp only [bytesToBits] at this
    rw [this, List.take_append_drop]

theorem bytesToBits_padToBytes (bs : Bits) :
    bytesToBits (padToBytes bs) = bs ++ List.replicate (padLen bs.length) false := by
  unfold padToBytes
  apply bytesToBits_packBytes
  simp only [List.length_append, List.length_replicate, padLen]
  omega



/-- the bits of an empty stored block placed at bit position `pos`: header, padding to the byte boundary, LEN=0, NLEN=0xFFFF -/
def storedEmptyBits (pos : Nat) (final : Bool) : Bits :=
  [final, false, false] ++ (List.replicate (padLen (pos + 3)) false ++ (natToBits 0 16 ++ natToBits 65535 16))

theorem takeField_append (w : Nat) (a r : Bits) (h : a.length = w) : takeField w (a ++ r) = some (bitsToNat a, r) := by
  unfold takeField
  simp [h]

theorem storedEmpty_isBlock (mode : Mode) (pos : Nat) (final : Bool) (h : Array UInt8) :
    IsBlock mode pos (storedEmptyBits pos final) final h [] := by
  intro t st
  refine ⟨{ st with blocks := st.blocks + 1, stored := st.stored + 1 }, ?_⟩
  unfold inflateBlock storedEmptyBits
  have e1 : ([final, false, false] ++ (List.replicate (padLen (pos + 3)) false ++ (natToBits 0 16 ++ natToBits 65535 16))) ++ t =
      [final] ++ ([false, false] ++ (List.replicate (padLen (pos + 3)) false ++ (natToBits 0 16 ++ (natToBits 65535 16 ++ t)))) := by
    simp [List.append_assoc]
  rw [e1, takeField_append 1 [final] _ rfl]
  simp only
  rw [takeField_append 2 [false, false] _ rfl]
  have hb : bitsToNat [false, false] = 0 := by decide
  simp only [hb, if_true]
  have hd : List.drop ((8 - (pos + 3) % 8) % 8) (List.replicate (padLen (pos + 3)) false ++ (natToBits 0 16 ++ (natToBits 65535 16 ++ t))) =
      natToBits 0 16 ++ (natToBits 65535 16 ++ t) := by
    have : (8 - (pos + 3) % 8) % 8 = (List.replicate (padLen (pos + 3)) false).length := by simp [padLen]
    rw [this, List.drop_left]
  rw [hd, takeField_append 16 (natToBits 0 16) _ (by simp)]
  simp only
  rw [takeField_append 16 (natToBits 65535 16) _ (by simp)]
  have h0 : bitsToNat (natToBits 0 16) = 0 := bitsToNat_natToBits 0 16 (by decide)
  have h1 : bitsToNat (natToBits 65535 16) = 65535 := bitsToNat_natToBits 65535 16 (by decide)
  simp only [h0, h1]
  cases final <;> simp [bitsToNat, bytesOfBits]


theorem padLen_congr (a b : Nat) (h : a % 8 = b % 8) : padLen a = padLen b := by
  unfold padLen; rw [h]

theorem emptyStored_bits (carry : Bits) (final : Bool) (pos : Nat) (hpos : pos % 8 = carry.length % 8) :
    bytesToBits (emptyStored carry final) = carry ++ storedEmptyBits pos final := by
  unfold emptyStored storedEmptyBits
  rw [bytesToBits_append, bytesToBits_padToBytes]
  have h4 : bytesToBits [0, 0, 0xff, 0xff] = natToBits 0 16 ++ natToBits 65535 16 := by decide
  have hp : padLen (carry ++ [final, false, false]).length = padLen (pos + 3) := by
    apply padLen_congr
    simp only [List.length_append, List.length_cons, List.length_nil]
    omega
  rw [h4, hp]
  simp [List.append_assoc]

theorem emptyStored_length_mod (carry : Bits) (final : Bool) :
    (bytesToBits (emptyStored carry final)).length % 8 = 0 := by
  rw [bytesToBits_length]; omega

end Fastgo.Spec
