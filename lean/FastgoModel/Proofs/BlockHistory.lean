import FastgoModel.Proofs.BlockFrame
/-
  Locality of block decoding in the history: a block that decodes with the output-so-far `h` decodes identically when
  more output precedes `h` (a back-reference that stays inside `h` reads the same bytes). Consequence:
  `IsBlock.extend_history` — the E correspondence may hand the check only a suffix of the data encoded so far, and the
  result still holds for the whole history.
-/
namespace Fastgo.Spec

theorem copyBack_prefix (p : Array UInt8) (d : Nat) : ∀ (n : Nat) (out : Array UInt8), d ≤ out.size →
    copyBack (p ++ out) d n = p ++ copyBack out d n := by
  intro n
  induction n with
  | zero => intro out _; rfl
  | succ n ih =>
    intro out hd
    rw [copyBack, copyBack]
    have hsz : (p ++ out).size - d = p.size + (out.size - d) := by rw [Array.size_append]; omega
    have hget : (p ++ out).getD ((p ++ out).size - d) 0 = out.getD (out.size - d) 0 := by
      rw [hsz]
      simp only [Array.getD_eq_getD_getElem?]
      rw [Array.getElem?_append_right (by omega)]
      congr 2
      omega
    rw [hget, Array.push_append]
    exact ih (out.push _) (by rw [Array.size_push]; omega)

theorem bodyStep_cont_hist (lit dist : List (Nat × Bits)) (p : Array UInt8)
    (bs : Bits) (out : Array UInt8) (st : Stats) (o : Array UInt8) (r : Bits) (s : Stats)
    (h : bodyStep lit dist bs out st = .cont o r s) :
    bodyStep lit dist bs (p ++ out) st = .cont (p ++ o) r s := by
  unfold bodyStep at h ⊢
  cases hs : decodeSym lit bs with
  | needMore => rw [hs] at h; cases h
  | invalid => rw [hs] at h; cases h
  | sym sy r0 =>
    rw [hs] at h
    simp only at h ⊢
    by_cases h1 : sy < 256
    · simp only [h1, if_true, StepRes.cont.injEq] at h ⊢
      obtain ⟨ho, hr, hst⟩ := h
      exact ⟨by rw [← ho, Array.push_append], hr, hst⟩
    · simp only [h1, if_false] at h ⊢
      by_cases h2 : sy = 256
      · simp only [h2, if_true] at h; cases h
      · simp only [h2, if_false] at h ⊢
        by_cases h3 : sy > 285
        · simp only [h3, if_true] at h; cases h
        · simp only [h3, if_false] at h ⊢
          cases hf : takeField (lenExtra.getD (sy - 257) 0) r0 with
          | none => rw [hf] at h; cases h
          | some q =>
            obtain ⟨e, r1⟩ := q
            rw [hf] at h
            simp only at h ⊢
            cases hds : decodeSym dist r1 with
            | needMore => rw [hds] at h; cases h
            | invalid => rw [hds] at h; cases h
            | sym ds r2 =>
              rw [hds] at h
              simp only at h ⊢
              by_cases h4 : ds > 29
              · simp only [h4, if_true] at h; cases h
              · simp only [h4, if_false] at h ⊢
                cases hf2 : takeField (distExtra.getD ds 0) r2 with
                | none => rw [hf2] at h; cases h
                | some q2 =>
                  obtain ⟨de, r3⟩ := q2
                  rw [hf2] at h
                  simp only at h ⊢
                  by_cases h5 : distBase.getD ds 0 + de > out.size
                  · simp only [h5, if_true] at h; cases h
                  · have h5' : ¬ distBase.getD ds 0 + de > (p ++ out).size := by rw [Array.size_append]; omega
                    simp only [h5, h5', if_false, StepRes.cont.injEq] at h ⊢
                    obtain ⟨ho, hr, hst⟩ := h
                    exact ⟨by rw [← ho, copyBack_prefix p _ _ out (by omega)], hr, hst⟩

theorem bodyStep_eob_hist (lit dist : List (Nat × Bits)) (p : Array UInt8)
    (bs : Bits) (out : Array UInt8) (st : Stats) (o : Array UInt8) (r : Bits) (s : Stats)
    (h : bodyStep lit dist bs out st = .eob o r s) :
    bodyStep lit dist bs (p ++ out) st = .eob (p ++ o) r s := by
  unfold bodyStep at h ⊢
  cases hs : decodeSym lit bs with
  | needMore => rw [hs] at h; cases h
  | invalid => rw [hs] at h; cases h
  | sym sy r0 =>
    rw [hs] at h
    simp only at h ⊢
    by_cases h1 : sy < 256
    · simp only [h1, if_true] at h; cases h
    · simp only [h1, if_false] at h ⊢
      by_cases h2 : sy = 256
      · simp only [h2, if_true, StepRes.eob.injEq] at h ⊢
        obtain ⟨ho, hr, hst⟩ := h
        exact ⟨by rw [ho], hr, hst⟩
      · simp only [h2, if_false] at h
        by_cases h3 : sy > 285
        · simp only [h3, if_true] at h; cases h
        · simp only [h3, if_false] at h
          cases hf : takeField (lenExtra.getD (sy - 257) 0) r0 with
          | none => rw [hf] at h; cases h
          | some q =>
            obtain ⟨e, r1⟩ := q
            rw [hf] at h
            simp only at h
            cases hds : decodeSym dist r1 with
            | needMore => rw [hds] at h; cases h
            | invalid => rw [hds] at h; cases h
            | sym ds r2 =>
              rw [hds] at h
              simp only at h
              by_cases h4 : ds > 29
              · simp only [h4, if_true] at h; cases h
              · simp only [h4, if_false] at h
                cases hf2 : takeField (distExtra.getD ds 0) r2 with
                | none => rw [hf2] at h; cases h
                | some q2 =>
                  obtain ⟨de, r3⟩ := q2
                  rw [hf2] at h
                  simp only at h
                  by_cases h5 : distBase.getD ds 0 + de > out.size
                  · simp only [h5, if_true] at h; cases h
                  · simp only [h5, if_false] at h; cases h

theorem decodeBody_hist (lit dist : List (Nat × Bits)) (p : Array UInt8) :
    ∀ (fuel : Nat) (bs : Bits) (out : Array UInt8) (st : Stats) (o : Array UInt8) (r : Bits) (s : Stats),
      decodeBody lit dist fuel bs out st = .eob o r s →
      decodeBody lit dist fuel bs (p ++ out) st = .eob (p ++ o) r s := by
  intro fuel
  induction fuel with
  | zero => intro bs out st o r s h; simp [decodeBody] at h
  | succ f ih =>
    intro bs out st o r s h
    rw [decodeBody] at h ⊢
    cases hb : bodyStep lit dist bs out st with
    | cont o1 r1 s1 =>
      rw [hb] at h
      simp only at h
      rw [bodyStep_cont_hist lit dist p bs out st o1 r1 s1 hb]
      exact ih r1 o1 s1 o r s h
    | eob o1 r1 s1 =>
      rw [hb] at h
      simp only [BodyRes.eob.injEq] at h
      rw [bodyStep_eob_hist lit dist p bs out st o1 r1 s1 hb]
      simp only [BodyRes.eob.injEq]
      exact ⟨by rw [h.1], h.2.1, h.2.2⟩
    | needMore o1 r1 s1 => rw [hb] at h; cases h
    | corrupt o1 r1 s1 => rw [hb] at h; cases h

/-- a block decodes the same way when more output precedes the history -/
theorem inflateBlock_hist (mode : Mode) (pos : Nat) (B : Bits) (p h : Array UInt8) (st : Stats)
    (final : Bool) (o : Array UInt8) (r : Bits) (s : Stats)
    (hb : inflateBlock mode pos B h st = .next final o r s) :
    inflateBlock mode pos B (p ++ h) st = .next final (p ++ o) r s := by
  unfold inflateBlock at hb ⊢
  cases h1 : takeField 1 B with
  | none => rw [h1] at hb; cases hb
  | some p1 =>
    obtain ⟨bfinal, r0⟩ := p1
    rw [h1] at hb
    simp only at hb ⊢
    cases h2 : takeField 2 r0 with
    | none => rw [h2] at hb; cases hb
    | some p2 =>
      obtain ⟨btype, r1⟩ := p2
      rw [h2] at hb
      simp only at hb ⊢
      by_cases hb0 : btype = 0
      · simp only [hb0, if_true] at hb ⊢
        cases h3 : takeField 16 (r1.drop ((8 - (pos + 3) % 8) % 8)) with
        | none => rw [h3] at hb; cases hb
        | some p3 =>
          obtain ⟨len, r3⟩ := p3
          rw [h3] at hb
          simp only at hb ⊢
          cases h4 : takeField 16 r3 with
          | none => rw [h4] at hb; cases hb
          | some p4 =>
            obtain ⟨nlen, r4⟩ := p4
            rw [h4] at hb
            simp only at hb ⊢
            by_cases hc : len + nlen ≠ 65535
            · rw [if_pos hc] at hb; cases hb
            · rw [if_neg hc] at hb ⊢
              by_cases hl : r4.length < 8 * len
              · rw [if_pos hl] at hb; cases hb
              · rw [if_neg hl] at hb ⊢
                simp only [BlockRes.next.injEq] at hb ⊢
                exact ⟨hb.1, by rw [← hb.2.1, Array.append_assoc], hb.2.2.1, hb.2.2.2⟩
      · simp only [hb0, if_false] at hb ⊢
        by_cases hb1 : btype = 1
        · simp only [hb1, if_true] at hb ⊢
          cases hd : decodeBody (canonical fixedLitLens) (canonical (fixedDistLens ++ [5, 5])) (r1.length + 1) r1 h { st with blocks := st.blocks + 1 } with
          | needMore o1 r2 s1 => rw [hd] at hb; cases hb
          | corrupt o1 r2 s1 => rw [hd] at hb; cases hb
          | eob o1 r2 s1 =>
            rw [hd] at hb
            simp only [BlockRes.next.injEq] at hb
            rw [decodeBody_hist _ _ p _ r1 h _ o1 r2 s1 hd]
            simp only [BlockRes.next.injEq]
            exact ⟨hb.1, by rw [hb.2.1], hb.2.2.1, hb.2.2.2⟩
        · simp only [hb1, if_false] at hb ⊢
          by_cases hb2 : btype = 2
          · simp only [hb2, if_true] at hb ⊢
            cases hh : readDynHeader mode r1 with
            | needMore => rw [hh] at hb; cases hb
            | corrupt => rw [hh] at hb; cases hb
            | ok ll dl r2 =>
              rw [hh] at hb
              simp only at hb ⊢
              cases hd : decodeBody (canonical ll) (canonical dl) (r2.length + 1) r2 h { st with blocks := st.blocks + 1 } with
              | needMore o1 r3 s1 => rw [hd] at hb; cases hb
              | corrupt o1 r3 s1 => rw [hd] at hb; cases hb
              | eob o1 r3 s1 =>
                rw [hd] at hb
                simp only [BlockRes.next.injEq] at hb
                rw [decodeBody_hist _ _ p _ r2 h _ o1 r3 s1 hd]
                simp only [BlockRes.next.injEq]
                exact ⟨hb.1, by rw [hb.2.1], hb.2.2.1, hb.2.2.2⟩
          · simp only [hb2, if_false] at hb; cases hb

/-- **a block stays a block when the history is extended to the left** -/
theorem IsBlock.extend_history {mode : Mode} {pos : Nat} {B : Bits} {final : Bool} {h : Array UInt8} {x : List UInt8}
    (hb : IsBlock mode pos B final h x) (p : Array UInt8) : IsBlock mode pos B final (p ++ h) x := by
  intro t st
  obtain ⟨st', h1⟩ := hb t st
  refine ⟨st', ?_⟩
  rw [inflateBlock_hist mode pos (B ++ t) p h st final _ t st' h1, Array.append_assoc]

/-- the check may be run on a suffix `h` of the data encoded so far: the `enc` clause holds for the whole history -/
theorem checkEnc_gives_enc_suffix (mode : Mode) (pos : Nat) (carry : Bits) (out : List UInt8) (carry' : Bits) (final : Bool)
    (p h : Array UInt8) (x : List UInt8) (hc : checkEnc mode pos carry out carry' final h x = true) :
    ∃ B, IsBlock mode pos B final (p ++ h) x ∧
      (final = false → bytesToBits out ++ carry' = carry ++ B) ∧
      (final = true → carry' = [] ∧
        bytesToBits out = carry ++ B ++ List.replicate (Fastgo.Writer.padLen (carry ++ B).length) false) := by
  obtain ⟨B, h1, h2, h3⟩ := checkEnc_gives_enc mode pos carry out carry' final h x hc
  exact ⟨B, h1.extend_history p, h2, h3⟩

end Fastgo.Spec
