import FastgoModel.Writer.Control
/-
  Lemmas about the Writer control model: the error/closed protocol (C14, C16), Reset (C12).
-/
namespace Fastgo.Writer
open Fastgo.Spec

variable {MF Tok : Type}

/-- abstract protocol state of a Writer -/
inductive PState | opened | closed | failed
  deriving DecidableEq, Repr

def absState (w : WState MF Tok) : PState :=
  match w.err with
  | none => .opened
  | some .closed => .closed
  | some .injected => .failed

/-! ### a Writer that has failed or is closed does nothing -/

theorem write_of_err (L : DynLeaves MF Tok) (c : Cfg) (w : WState MF Tok) (e : Err) (h : w.err = some e)
    (data : List UInt8) : write L c w data = (w, { n := 0, err := some e }) := by
  unfold write; rw [h]

theorem flush_of_err (L : DynLeaves MF Tok) (c : Cfg) (w : WState MF Tok) (e : Err) (h : w.err = some e) :
    flush L c w = (w, { err := some e }) := by
  unfold flush; rw [h]

theorem close_of_injected (L : DynLeaves MF Tok) (c : Cfg) (w : WState MF Tok) (h : w.err = some .injected) :
    close L c w = (w, { err := some .injected }) := by
  unfold close; rw [h]

theorem close_of_closed (L : DynLeaves MF Tok) (c : Cfg) (w : WState MF Tok) (h : w.err = some .closed) :
    close L c w = (w, {}) := by
  unfold close; rw [h]

/-! ### what an operation on an open Writer can do to the protocol state -/

theorem writeLoop_err (L : DynLeaves MF Tok) (c : Cfg) (fuel : Nat) (w : WState MF Tok) (data : List UInt8) (num : Nat)
    (h : w.err = none) :
    ((writeLoop L c fuel w data num).2.err = none ∧ (writeLoop L c fuel w data num).1.err = none) ∨
    ((writeLoop L c fuel w data num).2.err = some .injected ∧ (writeLoop L c fuel w data num).1.err = some .injected) := by
  induction fuel generalizing w data num with
  | zero => left; simp [writeLoop, h]
  | succ fuel ih =>
    unfold writeLoop
    by_cases hd : data = []
    · simp [hd, h]
    · simp only [hd, if_false]
      generalize hacc : accumulate c w.dyn data = acc
      obtain ⟨s1, n, trig⟩ := acc
      simp only
      cases trig with
      | false =>
        simp only [Bool.false_eq_true, if_false]
        exact ih _ _ _ (by simp [h])
      | true =>
        simp only [if_true]
        generalize hcb : compressBlock L c false false (fuelFor s1) s1 w.dst = cb
        obtain ⟨s2, d2, o⟩ := cb
        cases o with
        | ok =>
          simp only
          by_cases hn : n = 0
          · simp [hn, h]
          · simp only [hn, if_false]
            exact ih _ _ _ (by simp [h])
        | failed => right; simp
        | stuck => right; simp

theorem write_open (L : DynLeaves MF Tok) (c : Cfg) (w : WState MF Tok) (data : List UInt8) (h : w.err = none) :
    ((write L c w data).2.err = none ∧ absState (write L c w data).1 = .opened) ∨
    ((write L c w data).2.err = some .injected ∧ absState (write L c w data).1 = .failed) := by
  unfold write; rw [h]; simp only
  rcases writeLoop_err L c (data.length + 1) w data 0 h with ⟨h1, h2⟩ | ⟨h1, h2⟩
  · left; exact ⟨h1, by simp [absState, h2]⟩
  · right; exact ⟨h1, by simp [absState, h2]⟩

theorem flush_open (L : DynLeaves MF Tok) (c : Cfg) (w : WState MF Tok) (h : w.err = none) :
    ((flush L c w).2.err = none ∧ absState (flush L c w).1 = .opened) ∨
    ((flush L c w).2.err = some .injected ∧ absState (flush L c w).1 = .failed) := by
  unfold flush; rw [h]; simp only
  generalize hcb : compressBlock L c true false (fuelFor w.dyn) w.dyn w.dst = cb
  obtain ⟨s1, d1, o⟩ := cb
  cases o with
  | ok =>
    simp only
    generalize hw : d1.write (emptyStored s1.carry false) = dw
    obtain ⟨d2, b⟩ := dw
    cases b with
    | true => left; simp [absState, h]
    | false => right; simp [absState]
  | failed => right; simp [absState]
  | stuck => right; simp [absState]

theorem close_open (L : DynLeaves MF Tok) (c : Cfg) (w : WState MF Tok) (h : w.err = none) :
    ((close L c w).2.err = none ∧ absState (close L c w).1 = .closed) ∨
    ((close L c w).2.err = some .injected ∧ absState (close L c w).1 = .failed) := by
  unfold close; rw [h]; simp only
  generalize hcb : compressBlock L c true true (fuelFor w.dyn) w.dyn w.dst = cb
  obtain ⟨s1, d1, o⟩ := cb
  cases o with
  | ok => left; simp [absState]
  | failed => right; simp [absState]
  | stuck => right; simp [absState]

/-! ### Reset -/

theorem reset_eq_init (L : DynLeaves MF Tok) (hreset : ∀ m, L.mfReset m = L.mfInit)
    (w : WState MF Tok) (dst : Dst) : reset L w dst = WState.init L dst := by
  simp [reset, WState.init, Dyn.init, hreset]

end Fastgo.Writer

namespace Fastgo.Writer
open Fastgo.Spec
variable {MF Tok : Type}

/-! ### every destination call made by a successful operation succeeded -/

/-- `d'` is `d` after some more calls, none of which failed -/
def NoFail (d d' : Dst) : Prop :=
  d'.fail = d.fail ∧ d.calls ≤ d'.calls ∧ ∀ k, d.calls ≤ k → k < d'.calls → d.fail k = false

theorem NoFail.refl (d : Dst) : NoFail d d := ⟨rfl, Nat.le_refl _, fun k h1 h2 => absurd h2 (by omega)⟩

theorem NoFail.trans {a b c : Dst} (h1 : NoFail a b) (h2 : NoFail b c) : NoFail a c := by
  refine ⟨h2.1.trans h1.1, Nat.le_trans h1.2.1 h2.2.1, fun k hk1 hk2 => ?_⟩
  by_cases hk : k < b.calls
  · exact h1.2.2 k hk1 hk
  · have := h2.2.2 k (by omega) hk2
    rw [h1.1] at this; exact this

theorem write_true_noFail (d : Dst) (chunk : List UInt8) (d1 : Dst) (h : d.write chunk = (d1, true)) : NoFail d d1 := by
  unfold Dst.write at h
  by_cases hf : d.fail d.calls = true
  · simp [hf] at h
  · simp only [hf] at h
    simp only [Bool.false_eq_true, if_false, Prod.mk.injEq, and_true] at h
    subst h
    refine ⟨rfl, by simp, fun k h1 h2 => ?_⟩
    have : k = d.calls := by simp at h2; omega
    subst this; simpa using hf

theorem writeAll_true_noFail (d : Dst) (cs : List (List UInt8)) (d1 : Dst) (h : d.writeAll cs = (d1, true)) : NoFail d d1 := by
  induction cs generalizing d with
  | nil => simp [Dst.writeAll] at h; subst h; exact NoFail.refl _
  | cons c cs ih =>
    unfold Dst.writeAll at h
    generalize hw : d.write c = dw at h
    obtain ⟨d2, b⟩ := dw
    cases b with
    | true => exact (write_true_noFail d c d2 hw).trans (ih d2 h)
    | false => simp at h

theorem compressBlock_ok_noFail (L : DynLeaves MF Tok) (c : Cfg) (fl fin : Bool) (fuel : Nat)
    (s : Dyn MF Tok) (d : Dst) (s' : Dyn MF Tok) (d' : Dst)
    (h : compressBlock L c fl fin fuel s d = (s', d', .ok)) : NoFail d d' := by
  induction fuel generalizing s d with
  | zero => simp [compressBlock] at h
  | succ fuel ih =>
    unfold compressBlock at h
    split at h
    · split at h
      · rename_i d1 hw
        have hd : d1 = d' := by injection h with _ h2; injection h2
        subst hd; exact write_true_noFail _ _ _ hw
      · injection h with _ h2; injection h2 with _ h3; cases h3
    · split at h
      rename_i nIdx toks mf1 hg
      dsimp only at h
      split at h
      · have hd : d = d' := by injection h with _ h2; injection h2
        subst hd; exact NoFail.refl _
      · split at h
        · injection h with _ h2; injection h2 with _ h3; cases h3
        · rename_i d1 hwa
          have hnf := writeAll_true_noFail d _ d1 hwa
          try dsimp only at h
          split at h
          · have hd : d1 = d' := by injection h with _ h2; injection h2
            subst hd; exact hnf
          · exact hnf.trans (ih _ _ h)

theorem writeLoop_ok_noFail' (L : DynLeaves MF Tok) (c : Cfg) (fuel : Nat) (w : WState MF Tok) (data : List UInt8) (num : Nat)
    (r : WState MF Tok × OpRes) (hr : writeLoop L c fuel w data num = r)
    (h : r.2.err = none) : NoFail w.dst r.1.dst := by
  induction fuel generalizing w data num with
  | zero => simp [writeLoop] at hr; subst hr; exact NoFail.refl _
  | succ fuel ih =>
    unfold writeLoop at hr
    split at hr
    · subst hr; exact NoFail.refl _
    · split at hr
      rename_i s1 n trig hacc
      split at hr
      · split at hr
        · rename_i s2 d2 hcb
          have hnf := compressBlock_ok_noFail L c false false _ _ _ _ _ hcb
          split at hr
          · subst hr; exact hnf
          · exact hnf.trans (ih { err := w.err, dyn := s2, dst := d2 } _ _ hr)
        · subst hr; simp at h
      · exact ih { err := w.err, dyn := s1, dst := w.dst } _ _ hr

theorem write_ok_noFail (L : DynLeaves MF Tok) (c : Cfg) (w : WState MF Tok) (data : List UInt8)
    (h : (write L c w data).2.err = none) : NoFail w.dst (write L c w data).1.dst := by
  generalize hr : write L c w data = r at h ⊢
  unfold write at hr
  split at hr
  · subst hr; exact NoFail.refl _
  · exact writeLoop_ok_noFail' L c _ w data 0 r hr h

theorem flush_ok_noFail (L : DynLeaves MF Tok) (c : Cfg) (w : WState MF Tok)
    (h : (flush L c w).2.err = none) : NoFail w.dst (flush L c w).1.dst := by
  generalize hr : flush L c w = r at h ⊢
  unfold flush at hr
  split at hr
  · subst hr; exact NoFail.refl _
  · split at hr
    · rename_i s1 d1 hcb
      have hnf := compressBlock_ok_noFail L c true false _ _ _ _ _ hcb
      split at hr
      · rename_i d2 hw
        subst hr
        exact hnf.trans (write_true_noFail _ _ _ hw)
      · subst hr; simp at h
    · subst hr; simp at h

theorem close_ok_noFail (L : DynLeaves MF Tok) (c : Cfg) (w : WState MF Tok)
    (h : (close L c w).2.err = none) : NoFail w.dst (close L c w).1.dst := by
  generalize hr : close L c w = r at h ⊢
  unfold close at hr
  split at hr
  · subst hr; exact NoFail.refl _
  · subst hr; exact NoFail.refl _
  · split at hr
    · rename_i s1 d1 hcb
      subst hr
      exact compressBlock_ok_noFail L c true true _ _ _ _ _ hcb
    · subst hr; simp at h

/-! ### runs -/

def Op.isReset : Op → Bool
  | .reset _ => true
  | _ => false

theorem step_failed (L : DynLeaves MF Tok) (c : Cfg) (w : WState MF Tok) (h : w.err = some .injected)
    (op : Op) (hop : op.isReset = false) : step L c w op = (w, { n := 0, err := some .injected }) := by
  cases op with
  | write data => simp [step, write_of_err L c w _ h]
  | flush => simp [step, flush_of_err L c w _ h]
  | close => simp [step, close_of_injected L c w h]
  | reset d => simp [Op.isReset] at hop

theorem run_failed (L : DynLeaves MF Tok) (c : Cfg) (w : WState MF Tok) (h : w.err = some .injected)
    (ops : List Op) (hnr : ∀ op ∈ ops, op.isReset = false) :
    run L c w ops = (w, ops.map fun _ => { n := 0, err := some .injected }) := by
  induction ops with
  | nil => rfl
  | cons op ops ih =>
    have h1 := step_failed L c w h op (hnr op List.mem_cons_self)
    have h2 := ih (fun o ho => hnr o (List.mem_cons_of_mem _ ho))
    simp [run, h1, h2]

/-- what the protocol says a closed Writer answers -/
def closedAnswer : Op → OpRes
  | .close => {}
  | _ => { n := 0, err := some .closed }

theorem step_closed (L : DynLeaves MF Tok) (c : Cfg) (w : WState MF Tok) (h : w.err = some .closed)
    (op : Op) (hop : op.isReset = false) : step L c w op = (w, closedAnswer op) := by
  cases op with
  | write data => simp [step, write_of_err L c w _ h, closedAnswer]
  | flush => simp [step, flush_of_err L c w _ h, closedAnswer]
  | close => simp [step, close_of_closed L c w h, closedAnswer]
  | reset d => simp [Op.isReset] at hop

theorem run_closed (L : DynLeaves MF Tok) (c : Cfg) (w : WState MF Tok) (h : w.err = some .closed)
    (ops : List Op) (hnr : ∀ op ∈ ops, op.isReset = false) :
    run L c w ops = (w, ops.map closedAnswer) := by
  induction ops with
  | nil => rfl
  | cons op ops ih =>
    have h1 := step_closed L c w h op (hnr op List.mem_cons_self)
    have h2 := ih (fun o ho => hnr o (List.mem_cons_of_mem _ ho))
    simp [run, h1, h2]

end Fastgo.Writer
