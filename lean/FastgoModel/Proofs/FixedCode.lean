import FastgoModel.Spec.Inflate
/-
  Facts about RFC 1951's fixed Huffman code (section 3.2.6), established by kernel evaluation over the whole
  (finite) code: it is prefix-free, and every literal and the end-of-block symbol has a non-empty codeword.
-/
namespace Fastgo.Spec

def fixLit : List (Nat × Bits) := canonical fixedLitLens
def fixDist : List (Nat × Bits) := canonical (fixedDistLens ++ [5, 5])

/-- codeword of a literal/length symbol in the fixed code -/
def cw (s : Nat) : Bits := (fixLit.lookup s).getD []

theorem fixLit_prefixFree : PrefixFree fixLit := by
  unfold PrefixFree
  decide +kernel

theorem cw_mem : ∀ s, s < 257 → (s, cw s) ∈ fixLit ∧ cw s ≠ [] := by
  decide +kernel

theorem fixLit_eq : fixLit = canonical fixedLitLens := rfl
theorem fixDist_eq : fixDist = canonical (fixedDistLens ++ [5, 5]) := rfl
attribute [irreducible] cw fixLit fixDist

theorem decodeSym_cw (s : Nat) (hs : s < 257) (r : Bits) : decodeSym fixLit (cw s ++ r) = .sym s r := by
  unfold decodeSym
  rw [decodeWith_encode fixLit fixLit_prefixFree s (cw s) (cw_mem s hs).1 (cw_mem s hs).2 r]

end Fastgo.Spec
