import FastgoModel.Writer.Control
/-
  Control model of compress/flate/internal/deflate/huffmanonly.go under writer.go's Write loop:
  a 64 KiB input buffer; every full buffer, Flush and Close turn the whole buffer into ONE Huffman-only block
  (leaf `encode`: histogram, code lengths, header, byte encoder, 8 KiB output chunks); Flush appends the
  empty stored block; Close of an empty stream writes the final empty stored block.
    huffmanOnly.buffer[0:offset]  ↔ Huff.buf        huffmanOnly.buf.bits/bitLen ↔ Huff.carry
-/
namespace Fastgo.Writer
open Fastgo.Spec

structure HuffLeaf (σ : Type) where
  init : σ
  /-- one block of the buffered bytes: chunks handed to the destination, the new bit carry, the leaf's next state
      (the real encoder is a function of the bytes; the state only serves the replayed leaf of the correspondence) -/
  encode : σ → List UInt8 → Bool → Bits → List (List UInt8) × Bits × σ

structure Huff (σ : Type) where
  buf   : List UInt8 := []
  carry : Bits := []
  ls    : σ

structure HState (σ : Type) where
  err  : Option Err := none
  huff : Huff σ
  dst  : Dst

def HState.init {σ} (L : HuffLeaf σ) (dst : Dst) : HState σ := { huff := { ls := L.init }, dst := dst }

/-- huffmanOnly.Accumulate -/
def hAccumulate {σ} (max : Nat) (s : Huff σ) (data : List UInt8) : Huff σ × Nat × Bool :=
  let n := min (max - s.buf.length) data.length
  ({ s with buf := s.buf ++ data.take n }, n, decide ((s.buf ++ data.take n).length = max))

/-- huffmanOnly.encodeBlock -/
def hEncodeBlock {σ} (L : HuffLeaf σ) (final : Bool) (s : Huff σ) (d : Dst) : Huff σ × Dst × Bool :=
  if final ∧ s.buf = [] then
    match d.write (emptyStored s.carry true) with
    | (d1, true) => ({ s with carry := [] }, d1, true)
    | (d1, false) => (s, d1, false)
  else if s.buf = [] then (s, d, true)
  else
    match d.writeAll (L.encode s.ls s.buf final s.carry).1 with
    | (d1, true) => ({ buf := [], carry := (L.encode s.ls s.buf final s.carry).2.1, ls := (L.encode s.ls s.buf final s.carry).2.2 }, d1, true)
    | (d1, false) => ({ s with ls := (L.encode s.ls s.buf final s.carry).2.2 }, d1, false)

/-- Writer.Write's loop over the Huffman-only compressor -/
def hWriteLoop {σ} (L : HuffLeaf σ) (max : Nat) : Nat → HState σ → List UInt8 → Nat → HState σ × OpRes
  | 0, w, _, num => (w, { n := num })
  | fuel + 1, w, data, num =>
    if data = [] then (w, { n := num })
    else
      let (s1, n, trig) := hAccumulate max w.huff data
      if trig then
        match hEncodeBlock L false s1 w.dst with
        | (s2, d2, true) =>
          if n = 0 then ({ w with huff := s2, dst := d2 }, { n := num })
          else hWriteLoop L max fuel { w with huff := s2, dst := d2 } (data.drop n) (num + n)
        | (s2, d2, false) => ({ w with huff := s2, dst := d2, err := some .injected }, { n := num, err := some .injected })
      else hWriteLoop L max fuel { w with huff := s1 } (data.drop n) (num + n)

def hWrite {σ} (L : HuffLeaf σ) (max : Nat) (w : HState σ) (data : List UInt8) : HState σ × OpRes :=
  match w.err with
  | some e => (w, { n := 0, err := some e })
  | none => hWriteLoop L max (data.length + 1) w data 0

/-- huffmanOnly.Flush under Writer.Flush -/
def hFlush {σ} (L : HuffLeaf σ) (w : HState σ) : HState σ × OpRes :=
  match w.err with
  | some e => (w, { err := some e })
  | none =>
    match hEncodeBlock L false w.huff w.dst with
    | (s1, d1, true) =>
      match d1.write (emptyStored s1.carry false) with
      | (d2, true) => ({ w with huff := { s1 with carry := [] }, dst := d2 }, {})
      | (d2, false) => ({ w with huff := s1, dst := d2, err := some .injected }, { err := some .injected })
    | (s1, d1, false) => ({ w with huff := s1, dst := d1, err := some .injected }, { err := some .injected })

/-- huffmanOnly.Close under Writer.Close -/
def hClose {σ} (L : HuffLeaf σ) (w : HState σ) : HState σ × OpRes :=
  match w.err with
  | some .closed => (w, {})
  | some e => (w, { err := some e })
  | none =>
    match hEncodeBlock L true w.huff w.dst with
    | (s1, d1, true) => ({ w with huff := s1, dst := d1, err := some .closed }, {})
    | (s1, d1, false) => ({ w with huff := s1, dst := d1, err := some .injected }, { err := some .injected })

/-- Writer.Reset + huffmanOnly.Reset: w = under; buf.reset(); offset = 0 -/
def hReset {σ} (w : HState σ) (dst : Dst) : HState σ := { err := none, huff := { buf := [], carry := [], ls := w.huff.ls }, dst := dst }

def hStep {σ} (L : HuffLeaf σ) (max : Nat) (w : HState σ) : Op → HState σ × OpRes
  | .write data => hWrite L max w data
  | .flush => hFlush L w
  | .close => hClose L w
  | .reset dst => (hReset w dst, {})

def hRun {σ} (L : HuffLeaf σ) (max : Nat) (w : HState σ) : List Op → HState σ × List OpRes
  | [] => (w, [])
  | op :: ops =>
    let (w1, r) := hStep L max w op
    let (w2, rs) := hRun L max w1 ops
    (w2, r :: rs)

end Fastgo.Writer
