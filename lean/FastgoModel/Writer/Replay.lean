import FastgoModel.Writer.Control
/-
  Leaves that replay the answers recorded from the real match finder / block encoder, so that the
  control model can be run in lock-step with the implementation without porting the leaf algorithms:
  the model must ask the same leaf questions (same arguments, same order) as the code did.
-/
namespace Fastgo.Writer
open Fastgo.Spec

inductive Ev
  | g (flush : Bool) (end_ processed idx tokIn nIdx tokOut : Nat)
  | d (size tokens : Nat)
  | r
  deriving Repr

structure RMF where
  log : List Ev
  bad : Option String := none

def takeChunks : List Ev → List (List UInt8) × List Ev
  | .d size _ :: rest => let (cs, l) := takeChunks rest; (List.replicate size 0 :: cs, l)
  | l => ([], l)

def replayLeaves (log : List Ev) : DynLeaves RMF Unit where
  mfInit := { log := log }
  generate := fun flush buf processed idx mf toks =>
    match mf.log with
    | .g fl e p i tin nidx tout :: rest =>
      if fl = flush ∧ e = buf.length ∧ p = processed ∧ i = idx ∧ tin = toks.length then
        (nidx, List.replicate tout (), { mf with log := rest })
      else
        (idx, toks, { mf with bad := some s!"generate called with (flush={flush} end={buf.length} processed={processed} idx={idx} tokens={toks.length}), the code called it with (flush={fl} end={e} processed={p} idx={i} tokens={tin})" })
    | _ => (idx, toks, { mf with bad := some s!"generate called (flush={flush} end={buf.length} idx={idx}) but the code made no such call here" })
  eob := ()
  encode := fun mf _ _ carry => ((takeChunks mf.log).1, carry)
  afterBlock := fun mf =>
    match mf.log with
    | .d _ _ :: _ => { mf with log := (takeChunks mf.log).2 }
    | _ => { mf with bad := mf.bad.orElse fun _ => some "a block was encoded but the code wrote nothing to the destination here" }
  mfReset := fun mf =>
    -- chunk events of a block whose write failed are still in the log: the code never got past them
    match (takeChunks mf.log).2 with
    | .r :: rest => { mf with log := rest }
    | _ => { mf with bad := some "lz77.reset() expected in the recorded log" }

end Fastgo.Writer
