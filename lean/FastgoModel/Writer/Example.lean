import FastgoModel.Writer.Control
/-
  A small concrete instance of the leaves, used for non-vacuity examples of the property theorems and by
  the driver's replayed-leaf correspondence. Tokens are bytes; the "match finder" turns every unresolved
  byte into one token; the "encoder" writes the tokens as bytes, one chunk of at most 4 bytes at a time.
-/
namespace Fastgo.Writer
open Fastgo.Spec

def chunk4 : List UInt8 → List (List UInt8)
  | [] => []
  | a :: [] => [[a]]
  | a :: b :: [] => [[a, b]]
  | a :: b :: c :: [] => [[a, b, c]]
  | a :: b :: c :: d :: r => [a, b, c, d] :: chunk4 r

def toyLeaves : DynLeaves Unit UInt8 where
  mfInit := ()
  generate := fun flush buf _ idx _ toks =>
    let stop := if flush then buf.length else buf.length - 8
    if idx < stop then (stop, toks ++ (buf.drop idx).take (stop - idx), ()) else (idx, toks, ())
  eob := 0
  encode := fun _ toks _ carry => (chunk4 toks, carry)
  afterBlock := fun _ => ()
  mfReset := fun _ => ()

def toyCfg : Cfg := { window := 8, maxTok := 12 }

/-- destination failing exactly at call `k` (one-shot) -/
def failAt (k : Nat) : Dst := { fail := fun i => i == k }
/-- destination that never fails -/
def healthy : Dst := { fail := fun _ => false }

end Fastgo.Writer
