import FastgoModel.Spec.Inflate
/-
  The LZ77 tokens of the real compressor (token.go) and the executable check applied to every recorded
  match-finder call (correspondence kind G): `checkGen`. Its meaning is proved in Proofs/TokenCheck.lean.
-/
namespace Fastgo.Writer
open Fastgo.Spec

/-- a decoded LZ77 token of the real compressor (token.go: ExtractLz77) -/
inductive RTok
  | lit (b : UInt8)
  | lit2 (a b : UInt8)
  | mtch (len dist : Nat)
  deriving Repr, DecidableEq

/-- what the inflater does with a token: append a literal (or two), or copy `len` bytes from `dist` back -/
def tokStep (h : Array UInt8) : RTok → Array UInt8
  | .lit b => h.push b
  | .lit2 a b => (h.push a).push b
  | .mtch len dist => copyBack h dist len

/-- the check applied to every recorded match-finder call: starting at `pos`, each token spells out the bytes of
    `buf` at its position (a match: equal to the bytes `dist` back, `1 ≤ dist ≤ window`, `dist ≤ pos`,
    `3 ≤ len ≤ 258`), and the tokens end exactly at `stop` -/
def checkGen (window : Nat) (buf : Array UInt8) (stop : Nat) : Nat → List RTok → Bool
  | pos, [] => pos == stop
  | pos, .lit b :: ts => pos < stop && buf.getD pos 0 == b && checkGen window buf stop (pos + 1) ts
  | pos, .lit2 a b :: ts =>
    pos + 1 < stop && buf.getD pos 0 == a && buf.getD (pos + 1) 0 == b && checkGen window buf stop (pos + 2) ts
  | pos, .mtch len dist :: ts =>
    3 ≤ len && len ≤ 258 && 1 ≤ dist && dist ≤ window && dist ≤ pos && pos + len ≤ stop &&
      (List.range len).all (fun i => buf.getD (pos + i) 0 == buf.getD (pos + i - dist) 0) &&
      checkGen window buf stop (pos + len) ts


end Fastgo.Writer
