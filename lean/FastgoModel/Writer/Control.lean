import FastgoModel.Spec.Bits
/-
  Control model of compress/flate/internal/deflate: writer.go (Writer), dynamic.go (dynCompressor),
  huffmanonly.go (huffmanOnly), bitbuf.go (empty stored blocks), as total functions.
  The leaf algorithms (match finder, block encoder) are parameters; their contracts are hypotheses of
  the theorems that need them.  Field-by-field correspondence with the Go structs:

    Writer.err                         ↔ WState.err   (none | injected | closed)
    dynCompressor.buffer[0:end], end   ↔ Dyn.buf (a list; end = buf.length)
    dynCompressor.idx / processed      ↔ Dyn.idx / Dyn.processed
    dynCompressor.tokens               ↔ Dyn.tokens
    dynCompressor.buf.bits/bitLen      ↔ Dyn.carry   (bits produced but not yet handed to the destination)
    dynCompressor.lz77 (table, hist)   ↔ Dyn.mf
    huffmanOnly.buffer[0:offset]       ↔ Huff.buf
-/
namespace Fastgo.Writer
open Fastgo.Spec

/-- the destination: an arbitrary failure pattern (the k-th call fails iff `fail k`) -/
structure Dst where
  fail  : Nat → Bool
  calls : Nat := 0
  got   : List (List UInt8) := []      -- accepted chunks, most recent first

def Dst.write (d : Dst) (chunk : List UInt8) : Dst × Bool :=
  if d.fail d.calls then ({ d with calls := d.calls + 1 }, false)
  else ({ d with calls := d.calls + 1, got := chunk :: d.got }, true)

/-- everything the destination has received, in order -/
def Dst.bytes (d : Dst) : List UInt8 := d.got.reverse.flatten

/-- write chunks one after the other, stopping at the first failure (encodeBlock's loop) -/
def Dst.writeAll (d : Dst) : List (List UInt8) → Dst × Bool
  | [] => (d, true)
  | c :: cs =>
    match d.write c with
    | (d1, true) => d1.writeAll cs
    | (d1, false) => (d1, false)

inductive Err | injected | closed
  deriving DecidableEq, Repr

/-- leaf algorithms of the dynamic compressor -/
structure DynLeaves (MF Tok : Type) where
  mfInit     : MF
  /-- lz77compressor.generate: (flush, buffer[0:end], processed, idx, state, tokens) ↦ (nIdx, tokens', state') -/
  generate   : Bool → List UInt8 → Nat → Nat → MF → List Tok → Nat × List Tok × MF
  eob        : Tok
  /-- genHuffCodes + header + token encoding of one block: chunks handed to the destination, new carry -/
  encode     : MF → List Tok → Bool → Bits → List (List UInt8) × Bits
  /-- hist.reset() after a block -/
  afterBlock : MF → MF
  /-- lz77compressor.reset(): clears the hash table and the histogram in place -/
  mfReset    : MF → MF

structure Cfg where
  window : Nat
  maxTok : Nat := 32767

def Cfg.cap (c : Cfg) : Nat := 2 * c.window + 258

structure Dyn (MF Tok : Type) where
  buf       : List UInt8
  idx       : Nat
  processed : Nat
  tokens    : List Tok
  carry     : Bits
  mf        : MF

def Dyn.init {MF Tok} (L : DynLeaves MF Tok) : Dyn MF Tok :=
  { buf := [], idx := 0, processed := 0, tokens := [], carry := [], mf := L.mfInit }

/-- pack `m` bytes worth of bits, 8 at a time, least significant bit first -/
def packBytes : Nat → Bits → List UInt8
  | 0, _ => []
  | m + 1, bs => UInt8.ofNat (bitsToNat (bs.take 8)) :: packBytes m (bs.drop 8)

/-- zero bits needed to reach a byte boundary after `n` bits -/
def padLen (n : Nat) : Nat := (8 - n % 8) % 8

/-- pad a bit string to a byte boundary and pack it (BitBuf.flushLastByte) -/
def padToBytes (bs : Bits) : List UInt8 :=
  packBytes ((bs.length + padLen bs.length) / 8) (bs ++ List.replicate (padLen bs.length) false)

/-- BitBuf.writeEmptyBlock / writeFinalEmptyBlock: 3 header bits, padding, 00 00 FF FF -/
def emptyStored (carry : Bits) (final : Bool) : List UInt8 :=
  padToBytes (carry ++ [final, false, false]) ++ [0, 0, 0xff, 0xff]

inductive Outcome | ok | failed | stuck
  deriving DecidableEq, Repr

/-- dynCompressor.Accumulate -/
def accumulate {MF Tok} (c : Cfg) (s : Dyn MF Tok) (data : List UInt8) : Dyn MF Tok × Nat × Bool :=
  let s1 : Dyn MF Tok :=
    if s.idx ≥ 2 * c.window then
      let off := s.idx - c.window
      { s with buf := s.buf.drop off, idx := s.idx - off }
    else s
  let n := min (c.cap - s1.buf.length) data.length
  let s2 := { s1 with buf := s1.buf ++ data.take n }
  (s2, n, decide (s2.buf.length ≥ c.cap))

/-- dynCompressor.compressBlock; `fuel` bounds the `goto again` loop -/
def compressBlock {MF Tok} (L : DynLeaves MF Tok) (c : Cfg) (flush final : Bool) :
    Nat → Dyn MF Tok → Dst → Dyn MF Tok × Dst × Outcome
  | 0, s, d => (s, d, .stuck)
  | fuel + 1, s, d =>
    if final ∧ s.buf.length = 0 then
      match d.write (emptyStored s.carry true) with
      | (d1, true) => ({ s with carry := [] }, d1, .ok)
      | (d1, false) => (s, d1, .failed)
    else
      let (nIdx, toks, mf1) := L.generate flush s.buf s.processed s.idx s.mf s.tokens
      let s1 := { s with processed := s.processed + (nIdx - s.idx), idx := nIdx, tokens := toks, mf := mf1 }
      if toks.length < c.maxTok ∧ ¬ flush then (s1, d, .ok)
      else
        let last := final ∧ s1.idx = s1.buf.length
        let (chunks, carry1) := L.encode s1.mf (s1.tokens ++ [L.eob]) last s1.carry
        match d.writeAll chunks with
        | (d1, false) => ({ s1 with tokens := s1.tokens ++ [L.eob], carry := carry1 }, d1, .failed)
        | (d1, true) =>
          let s2 := { s1 with tokens := [], carry := carry1, mf := L.afterBlock s1.mf }
          if s2.idx = s2.buf.length then (s2, d1, .ok)
          else compressBlock L c flush final fuel s2 d1

structure WState (MF Tok : Type) where
  err : Option Err
  dyn : Dyn MF Tok
  dst : Dst

def WState.init {MF Tok} (L : DynLeaves MF Tok) (dst : Dst) : WState MF Tok :=
  { err := none, dyn := Dyn.init L, dst := dst }

/-- result of an operation: bytes accepted (Write) and whether it returned an error -/
structure OpRes where
  n   : Nat := 0
  err : Option Err := none
  deriving DecidableEq, Repr

def fuelFor {MF Tok} (s : Dyn MF Tok) : Nat := s.buf.length + 2

/-- Writer.Write: loop { Accumulate; if the buffer became full, Compress } -/
def writeLoop {MF Tok} (L : DynLeaves MF Tok) (c : Cfg) :
    Nat → WState MF Tok → List UInt8 → Nat → WState MF Tok × OpRes
  | 0, w, _, num => (w, { n := num, err := none })
  | fuel + 1, w, data, num =>
    if data = [] then (w, { n := num })
    else
      let (s1, n, trig) := accumulate c w.dyn data
      if trig then
        match compressBlock L c false false (fuelFor s1) s1 w.dst with
        | (s2, d2, .ok) =>
          if n = 0 then ({ w with dyn := s2, dst := d2 }, { n := num })   -- no room and no progress: Go would spin
          else writeLoop L c fuel { w with dyn := s2, dst := d2 } (data.drop n) (num + n)
        | (s2, d2, _) => ({ w with dyn := s2, dst := d2, err := some .injected }, { n := num, err := some .injected })
      else writeLoop L c fuel { w with dyn := s1 } (data.drop n) (num + n)

def write {MF Tok} (L : DynLeaves MF Tok) (c : Cfg) (w : WState MF Tok) (data : List UInt8) :
    WState MF Tok × OpRes :=
  match w.err with
  | some e => (w, { n := 0, err := some e })
  | none => writeLoop L c (data.length + 1) w data 0

/-- Writer.Flush = dynCompressor.Flush: non-final block of everything pending, then an empty stored block -/
def flush {MF Tok} (L : DynLeaves MF Tok) (c : Cfg) (w : WState MF Tok) : WState MF Tok × OpRes :=
  match w.err with
  | some e => (w, { err := some e })
  | none =>
    match compressBlock L c true false (fuelFor w.dyn) w.dyn w.dst with
    | (s1, d1, .ok) =>
      match d1.write (emptyStored s1.carry false) with
      | (d2, true) => ({ w with dyn := { s1 with carry := [] }, dst := d2 }, {})
      | (d2, false) => ({ w with dyn := s1, dst := d2, err := some .injected }, { err := some .injected })
    | (s1, d1, _) => ({ w with dyn := s1, dst := d1, err := some .injected }, { err := some .injected })

/-- Writer.Close -/
def close {MF Tok} (L : DynLeaves MF Tok) (c : Cfg) (w : WState MF Tok) : WState MF Tok × OpRes :=
  match w.err with
  | some .closed => (w, {})
  | some e => (w, { err := some e })
  | none =>
    match compressBlock L c true true (fuelFor w.dyn) w.dyn w.dst with
    | (s1, d1, .ok) => ({ w with dyn := s1, dst := d1, err := some .closed }, {})
    | (s1, d1, _) => ({ w with dyn := s1, dst := d1, err := some .injected }, { err := some .injected })

/-- Writer.Reset + dynCompressor.Reset, field by field as the code assigns them:
    err = nil; w = under; processed = 0; idx = 0; end = 0; tokens = tokens[:0]; buf.reset(); lz77.reset() -/
def reset {MF Tok} (L : DynLeaves MF Tok) (w : WState MF Tok) (dst : Dst) : WState MF Tok :=
  { err := none
    dst := dst
    dyn := { w.dyn with processed := 0, idx := 0, buf := [], tokens := [], carry := [], mf := L.mfReset w.dyn.mf } }

inductive Op
  | write (data : List UInt8)
  | flush
  | close
  | reset (dst : Dst)

def step {MF Tok} (L : DynLeaves MF Tok) (c : Cfg) (w : WState MF Tok) : Op → WState MF Tok × OpRes
  | .write data => write L c w data
  | .flush => flush L c w
  | .close => close L c w
  | .reset dst => (reset L w dst, {})

/-- run a sequence of operations, collecting the results -/
def run {MF Tok} (L : DynLeaves MF Tok) (c : Cfg) (w : WState MF Tok) : List Op → WState MF Tok × List OpRes
  | [] => (w, [])
  | op :: ops =>
    let (w1, r) := step L c w op
    let (w2, rs) := run L c w1 ops
    (w2, r :: rs)

end Fastgo.Writer
