import FastgoModel.Spec.Checksum
/-
  gzip container (RFC 1952) as compress/gzip/gzip.go writes it and ungzip.go parses it.
  Strings are modelled as their Latin-1 bytes (the Latin-1 <-> UTF-8 conversion of the Go code is
  glue validated by the harness, not modelled).
-/
namespace Fastgo.Container
open Fastgo.Spec

/-- little-endian bytes of `n`, `k` of them -/
def le (n : Nat) : Nat → List UInt8
  | 0 => []
  | k + 1 => UInt8.ofNat (n % 256) :: le (n / 256) k

def unle : List UInt8 → Nat
  | [] => 0
  | b :: r => b.toNat + 256 * unle r

@[simp] theorem le_length (n k : Nat) : (le n k).length = k := by
  induction k generalizing n with
  | zero => rfl
  | succ k ih => simp [le, ih]

theorem unle_le (n k : Nat) (h : n < 256 ^ k) : unle (le n k) = n := by
  induction k generalizing n with
  | zero => simp [le, unle]; omega
  | succ k ih =>
    simp only [le, unle]
    have h2 : n / 256 < 256 ^ k := by rw [Nat.pow_succ] at h; omega
    rw [ih _ h2]
    have : (UInt8.ofNat (n % 256)).toNat = n % 256 := by
      simp [UInt8.toNat_ofNat']
    rw [this]; omega

structure GzHeader where
  extra   : Option (List UInt8) := none   -- Header.Extra (nil / non-nil matters for FEXTRA)
  name    : List UInt8 := []              -- "" = absent
  comment : List UInt8 := []
  mtime   : Nat := 0                      -- 0 = not set
  os      : UInt8 := 255
  deriving DecidableEq, Repr

/-- what gzip.Writer accepts and gzip.Reader can represent -/
def GzHeader.WF (h : GzHeader) : Prop :=
  (∀ e, h.extra = some e → e.length ≤ 65535) ∧
  (0 : UInt8) ∉ h.name ∧ h.name.length ≤ 511 ∧
  (0 : UInt8) ∉ h.comment ∧ h.comment.length ≤ 511 ∧
  h.mtime < 2 ^ 32

def flagsOf (h : GzHeader) : Nat :=
  (if h.extra.isSome then 4 else 0) + (if h.name ≠ [] then 8 else 0) + (if h.comment ≠ [] then 16 else 0)

/-- XFL byte written for a level -/
def xflOf (level : Int) : UInt8 := if level = 9 then 2 else if level = 1 then 4 else 0

/-- the fixed 10 bytes: ID1 ID2 CM FLG MTIME(4, little-endian) XFL OS -/
def fixedPart (h : GzHeader) (level : Int) : List UInt8 :=
  [0x1f, 0x8b, 8, UInt8.ofNat (flagsOf h),
   UInt8.ofNat (h.mtime % 256), UInt8.ofNat (h.mtime / 256 % 256),
   UInt8.ofNat (h.mtime / 256 / 256 % 256), UInt8.ofNat (h.mtime / 256 / 256 / 256 % 256),
   xflOf level, h.os]

def extraBytes : Option (List UInt8) → List UInt8
  | some e => le e.length 2 ++ e
  | none => []

def extraPart (h : GzHeader) : List UInt8 := extraBytes h.extra

def strPart (s : List UInt8) : List UInt8 := if s ≠ [] then s ++ [0] else []

/-- the header bytes gzip.Writer emits before the deflate stream -/
def emitHeader (h : GzHeader) (level : Int) : List UInt8 :=
  fixedPart h level ++ (extraPart h ++ (strPart h.name ++ strPart h.comment))

inductive HRes (α : Type)
  | ok (v : α) (rest : List UInt8)
  | cleanEOF          -- no byte at all: "no further member"
  | unexpectedEOF
  | badHeader
  deriving Repr

/-- io.ReadFull of `n` bytes -/
def takeN (n : Nat) (bs : List UInt8) : Option (List UInt8 × List UInt8) :=
  if bs.length < n then none else some (bs.take n, bs.drop n)

theorem takeN_append (a r : List UInt8) : takeN a.length (a ++ r) = some (a, r) := by
  simp [takeN]

/-- readString: bytes up to the first NUL, at most 511 of them.
    none = ran out of input; some none = too long (ErrHeader); some (some (s, rest)) -/
def readCStr : Nat → List UInt8 → List UInt8 → Option (Option (List UInt8 × List UInt8))
  | 0, _, _ => some none
  | _ + 1, [], _ => none
  | fuel + 1, b :: r, acc => if b = 0 then some (some (acc.reverse, r)) else readCStr fuel r (b :: acc)

theorem readCStr_spec (s rest acc : List UInt8) (fuel : Nat) (h0 : (0 : UInt8) ∉ s) (hl : s.length < fuel) :
    readCStr fuel (s ++ 0 :: rest) acc = some (some (acc.reverse ++ s, rest)) := by
  induction s generalizing acc fuel with
  | nil =>
    cases fuel with
    | zero => omega
    | succ f => simp [readCStr]
  | cons b s ih =>
    cases fuel with
    | zero => omega
    | succ f =>
      have hb : b ≠ 0 := by intro h; apply h0; simp [h]
      have h0' : (0 : UInt8) ∉ s := by intro h; apply h0; simp [h]
      simp only [List.cons_append, readCStr, hb, if_false]
      rw [ih (b :: acc) f h0' (by simp at hl; omega)]
      simp

def optStr (present : Bool) (bs : List UInt8) : HRes (List UInt8) :=
  if present then
    match readCStr 512 bs [] with
    | none => .unexpectedEOF
    | some none => .badHeader
    | some (some (s, r)) => .ok s r
  else .ok [] bs

def optExtra (present : Bool) (bs : List UInt8) : HRes (Option (List UInt8)) :=
  if present then
    match takeN 2 bs with
    | none => .unexpectedEOF
    | some (lenB, r) =>
      match takeN (unle lenB) r with
      | none => .unexpectedEOF
      | some (e, r2) => .ok (some e) r2
  else .ok none bs

def parseHeader (bs : List UInt8) : HRes GzHeader :=
  match takeN 10 bs with
  | none => if bs = [] then .cleanEOF else .unexpectedEOF
  | some (fixed, r0) =>
    match fixed with
    | [id1, id2, cm, flgB, m0, m1, m2, m3, _xfl, os] =>
      if id1 ≠ 0x1f ∨ id2 ≠ 0x8b ∨ cm ≠ 8 then .badHeader
      else
        let flg := flgB.toNat
        match optExtra (flg / 4 % 2 = 1) r0 with
        | .ok extra r1 =>
          match optStr (flg / 8 % 2 = 1) r1 with
          | .ok name r2 =>
            match optStr (flg / 16 % 2 = 1) r2 with
            | .ok comment r3 =>
              let hdr : GzHeader := { extra := extra, name := name, comment := comment, mtime := unle [m0, m1, m2, m3], os := os }
              if flg / 2 % 2 = 1 then
                -- FHCRC: low 16 bits of the CRC-32 of the header bytes read so far
                match takeN 2 r3 with
                | none => .unexpectedEOF
                | some (c, r4) =>
                  if unle c ≠ (crc32 (bs.take (bs.length - r3.length))).toNat % 65536 then .badHeader
                  else .ok hdr r4
              else .ok hdr r3
            | .badHeader => .badHeader
            | _ => .unexpectedEOF
          | .badHeader => .badHeader
          | _ => .unexpectedEOF
        | .badHeader => .badHeader
        | _ => .unexpectedEOF
    | _ => .badHeader

/-- the 8-byte trailer gzip.Writer.Close emits: CRC-32 then ISIZE, both little-endian -/
def emitTrailer (payload : List UInt8) : List UInt8 :=
  le (crc32 payload).toNat 4 ++ le (payload.length % 2 ^ 32) 4

end Fastgo.Container
