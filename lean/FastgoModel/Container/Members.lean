import FastgoModel.Proofs.GzipHeader
import FastgoModel.Container.Readers
/-
  Sequences of gzip members (ungzip.go): default multistream mode and Multistream(false)+Reset.
  The inflater is abstracted as a pure function on the buffered source: it yields the payload and leaves
  the source exactly after the DEFLATE stream (that it does so is C02 + C05).
-/
namespace Fastgo.Container
open Fastgo.Spec

abbrev Inflater := List UInt8 → Option (List UInt8 × List UInt8)

/-- the inflater decodes `body` to `payload` and stops exactly at its end, whatever follows -/
def Inflater.Exact (I : Inflater) (body payload : List UInt8) : Prop :=
  ∀ rest, I (body ++ rest) = some (payload, rest)

/-- one gzip member as the Writers emit it -/
def gzMember (h : GzHeader) (level : Int) (body payload : List UInt8) : List UInt8 :=
  emitHeader h level ++ (body ++ emitTrailer payload)

/-- trailer check of Reader.Read -/
def trailerOK (t payload : List UInt8) : Bool :=
  unle (t.take 4) = (crc32 payload).toNat ∧ unle (t.drop 4) = payload.length % 2 ^ 32

/-- NewReader / Reset (parse one header) then read to io.EOF with Multistream(false):
    header, payload, and the source left after the trailer -/
def readOneMember (I : Inflater) (src : List UInt8) : Option (GzHeader × List UInt8 × List UInt8) :=
  match parseHeader src with
  | .ok h r0 =>
    match I r0 with
    | none => none
    | some (payload, after) =>
      match takeN 8 after with
      | none => none
      | some (t, r) => if trailerOK t payload then some (h, payload, r) else none
  | _ => none

/-- default mode: everything up to a clean end of the source; `none` = some error -/
def readAllMembers (I : Inflater) : Nat → List UInt8 → Option (List UInt8)
  | 0, _ => none
  | fuel + 1, src =>
    match readOneMember I src with
    | none => none
    | some (_, payload, r) =>
      if r = [] then some payload
      else match readAllMembers I fuel r with
        | none => none
        | some d => some (payload ++ d)

theorem trailerOK_emit (payload : List UInt8) : trailerOK (emitTrailer payload) payload = true := by
  have h1 : (crc32 payload).toNat < 256 ^ 4 := by
    have := (crc32 payload).toNat_lt; omega
  have h2 : payload.length % 2 ^ 32 < 256 ^ 4 := by
    have := Nat.mod_lt payload.length (show 0 < 2 ^ 32 by decide); omega
  have ht : (emitTrailer payload).take 4 = le (crc32 payload).toNat 4 := by
    simp [emitTrailer, List.take_append]
  have hd : (emitTrailer payload).drop 4 = le (payload.length % 2 ^ 32) 4 := by
    simp [emitTrailer, List.drop_append]
  simp [trailerOK, ht, hd, unle_le _ _ h1, unle_le _ _ h2]

theorem readOneMember_member (I : Inflater) (h : GzHeader) (hwf : h.WF) (level : Int) (body payload rest : List UInt8)
    (hI : I.Exact body payload) :
    readOneMember I (gzMember h level body payload ++ rest) = some (h, payload, rest) := by
  unfold readOneMember gzMember
  rw [List.append_assoc, gzip_header_roundtrip h hwf level]
  simp only [List.append_assoc]
  rw [hI]
  simp only
  have ht := takeN_append (emitTrailer payload) rest
  have hl : (emitTrailer payload).length = 8 := by simp [emitTrailer]
  rw [hl] at ht
  rw [ht]
  simp [trailerOK_emit]

end Fastgo.Container
