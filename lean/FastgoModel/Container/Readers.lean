import FastgoModel.Container.Digest
/-
  Read loops of the container Readers: compress/gzip/ungzip.go Reader.Read and compress/zlib/reader.go
  reader.Read. The inflater is the environment: an arbitrary sequence of (bytes, error) answers.
-/
namespace Fastgo.Container
open Fastgo.Spec

inductive RErr | eof | unexpectedEOF | checksum | header | corrupt | src (id : Nat)
  deriving DecidableEq, Repr

/-- what one call of decompressor.Read returned: the bytes put into p, and the error -/
structure InflAns where
  bytes : List UInt8
  err   : Option RErr := none

/-- noEOF: io.EOF inside header/trailer becomes io.ErrUnexpectedEOF -/
def noEOF : RErr → RErr
  | .eof => .unexpectedEOF
  | e => e

structure GzReader where
  sum         : GzSum := {}
  err         : Option RErr := none
  multistream : Bool := true

/-- result of one Reader.Read call: bytes handed out, error -/
structure ReadRes where
  bytes : List UInt8
  err   : Option RErr
  deriving DecidableEq

/-- One pass through the body of gzip Reader.Read's loop, given the inflater's answer and (used only at the
    inflater's EOF) the source bytes that follow the DEFLATE stream. `next` tells whether the loop goes on to
    the next member (multistream, header parsed): then the remaining source is returned. -/
def gzReadBody (z : GzReader) (a : InflAns) (after : List UInt8) :
    GzReader × ReadRes × Option (List UInt8) :=
  let sum1 := z.sum.update a.bytes
  if a.err ≠ some .eof then
    ({ z with sum := sum1, err := a.err }, { bytes := a.bytes, err := a.err }, none)
  else
    match takeN 8 after with
    | none => ({ z with sum := sum1, err := some .unexpectedEOF }, { bytes := a.bytes, err := some .unexpectedEOF }, none)
    | some (t, r) =>
      if unle (t.take 4) ≠ sum1.digest.toNat ∨ unle (t.drop 4) ≠ sum1.size then
        ({ z with sum := sum1, err := some .checksum }, { bytes := a.bytes, err := some .checksum }, none)
      else if ¬ z.multistream then
        ({ z with sum := {}, err := some .eof }, { bytes := a.bytes, err := some .eof }, none)
      else
        match parseHeader r with
        | .cleanEOF => ({ z with sum := {}, err := some .eof }, { bytes := a.bytes, err := some .eof }, none)
        | .unexpectedEOF => ({ z with sum := {}, err := some .unexpectedEOF }, { bytes := a.bytes, err := some .unexpectedEOF }, none)
        | .badHeader => ({ z with sum := {}, err := some .header }, { bytes := a.bytes, err := some .header }, none)
        | .ok _ r2 => ({ z with sum := {}, err := none }, { bytes := a.bytes, err := none }, some r2)

/-- Reader.Read of one member in single-member view: the caller keeps calling Read; every call gets the next
    inflater answer. Returns everything handed out and the error that ended the run (none = answers ran out). -/
def gzRun (z : GzReader) (after : List UInt8) : List InflAns → List UInt8 × Option RErr × GzReader
  | [] => ([], none, z)
  | a :: as =>
    match z.err with
    | some e => ([], some e, z)
    | none =>
      let (z1, r, _) := gzReadBody z a after
      match r.err with
      | some e => (r.bytes, some e, z1)
      | none =>
        let (d, e, z2) := gzRun z1 after as
        (r.bytes ++ d, e, z2)

/-- zlib reader.Read -/
structure ZReader where
  digest : Nat × Nat := (1, 0)
  err    : Option RErr := none

def zReadBody (z : ZReader) (a : InflAns) (after : List UInt8) : ZReader × ReadRes :=
  let d1 := adlerUpdate z.digest a.bytes
  if a.err ≠ some .eof then
    ({ digest := d1, err := a.err }, { bytes := a.bytes, err := a.err })
  else
    match takeN 4 after with
    | none => ({ digest := d1, err := some .unexpectedEOF }, { bytes := a.bytes, err := some .unexpectedEOF })
    | some (t, _) =>
      if unbe t ≠ adlerValue d1 then ({ digest := d1, err := some .checksum }, { bytes := a.bytes, err := some .checksum })
      else ({ digest := d1, err := some .eof }, { bytes := a.bytes, err := some .eof })

def zRun (z : ZReader) (after : List UInt8) : List InflAns → List UInt8 × Option RErr × ZReader
  | [] => ([], none, z)
  | a :: as =>
    match z.err with
    | some e => ([], some e, z)
    | none =>
      let (z1, r) := zReadBody z a after
      match r.err with
      | some e => (r.bytes, some e, z1)
      | none =>
        let (d, e, z2) := zRun z1 after as
        (r.bytes ++ d, e, z2)

end Fastgo.Container
