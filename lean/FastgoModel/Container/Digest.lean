import FastgoModel.Container.Zlib
/-
  The running checksums of the container Writers and Readers (gzip.go / ungzip.go / zlib writer.go / reader.go):
  every Write (Writer) or Read result (Reader) updates the digest with exactly the bytes of that call.
-/
namespace Fastgo.Container
open Fastgo.Spec

/-- gzip Writer/Reader bookkeeping: (digest, size mod 2^32) -/
structure GzSum where
  digest : UInt32 := 0
  size   : Nat := 0
  deriving DecidableEq

def GzSum.update (s : GzSum) (p : List UInt8) : GzSum :=
  { digest := crc32Update s.digest p, size := (s.size + p.length) % 2 ^ 32 }

def GzSum.trailer (s : GzSum) : List UInt8 := le s.digest.toNat 4 ++ le s.size 4

theorem GzSum.update_fold (s : GzSum) (hs : s.size < 2 ^ 32) (ps : List (List UInt8)) :
    ps.foldl GzSum.update s =
      { digest := crc32Update s.digest ps.flatten, size := (s.size + ps.flatten.length) % 2 ^ 32 } := by
  induction ps generalizing s with
  | nil =>
    simp only [List.foldl_nil, List.flatten_nil, crc32Update_nil, List.length_nil, Nat.add_zero]
    rw [Nat.mod_eq_of_lt hs]
  | cons p ps ih =>
    have h1 : (GzSum.update s p).size < 2 ^ 32 := Nat.mod_lt _ (by decide)
    rw [List.foldl_cons, ih _ h1]
    simp only [GzSum.update, List.flatten_cons, crc32Update_append, List.length_append]
    congr 1
    omega

/-- what gzip.Writer has accumulated after writing the chunks `ps` is the checksum of their concatenation -/
theorem gz_writer_sum (ps : List (List UInt8)) :
    (ps.foldl GzSum.update {}).trailer = emitTrailer ps.flatten := by
  rw [GzSum.update_fold {} (by decide) ps]
  simp [GzSum.trailer, emitTrailer, crc32]

/-- zlib: running Adler-32 -/
theorem z_writer_sum (ps : List (List UInt8)) :
    adlerValue (ps.foldl adlerUpdate (1, 0)) = adler32 ps.flatten := by
  have : ∀ s, ps.foldl adlerUpdate s = adlerUpdate s ps.flatten := by
    induction ps with
    | nil => intro s; simp [adlerUpdate]
    | cons p ps ih => intro s; simp only [List.foldl_cons, ih, List.flatten_cons, adlerUpdate_append]
  rw [this]; rfl

end Fastgo.Container
