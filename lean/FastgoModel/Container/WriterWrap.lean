import FastgoModel.Writer.Control
import FastgoModel.Container.Zlib
import FastgoModel.Container.Digest
/-
  Control models of compress/zlib/writer.go and compress/gzip/gzip.go (Writer side) over an arbitrary inner
  DEFLATE Writer that shares the destination: header first (lazily, by whichever call comes first), sticky
  error, closed flag, running checksum, trailer after a successful inner Close.
-/
namespace Fastgo.CWriter
open Fastgo.Spec Fastgo.Writer Fastgo.Container

/-- the inner flate.Writer as the wrappers use it; it owns the destination, the wrapper writes its header and
    trailer through `dst` / `withDst` -/
structure InnerOps (ι : Type) where
  dst     : ι → Dst
  withDst : ι → Dst → ι
  write   : ι → List UInt8 → ι × OpRes
  flush   : ι → ι × OpRes
  close   : ι → ι × OpRes
  reset   : ι → Dst → ι

/-- one Write of the wrapper itself on the shared destination -/
def InnerOps.put {ι} (O : InnerOps ι) (i : ι) (chunk : List UInt8) : ι × Bool :=
  let (d, ok) := (O.dst i).write chunk
  (O.withDst i d, ok)

/-! ### zlib (no preset dictionary: dictionary Writers are compress/flate's own, see F-C01-1) -/

structure ZW (ι : Type) where
  inner       : ι
  level       : Int
  err         : Option Err := none
  wroteHeader : Bool := false
  closed      : Bool := false
  adler       : Nat × Nat := (1, 0)

/-- writeHeader: one destination write of the two header bytes -/
def zHeader {ι} (O : InnerOps ι) (z : ZW ι) : ZW ι :=
  if z.wroteHeader then z
  else
    match O.put z.inner (emitZHeader z.level none) with
    | (i, true) => { z with inner := i, wroteHeader := true, err := none }
    | (i, false) => { z with inner := i, wroteHeader := true, err := some .injected }

/-- Write once the header has been dealt with -/
def zWrite1 {ι} (O : InnerOps ι) (z1 : ZW ι) (p : List UInt8) : ZW ι × OpRes :=
  match z1.err with
  | some e => (z1, { n := 0, err := some e })
  | none =>
    if p = [] then (z1, {})
    else
      match O.write z1.inner p with
      | (i, r) =>
        match r.err with
        | some e => ({ z1 with inner := i, err := some e }, r)
        | none => ({ z1 with inner := i, adler := adlerUpdate z1.adler p }, r)

def zWrite {ι} (O : InnerOps ι) (z : ZW ι) (p : List UInt8) : ZW ι × OpRes := zWrite1 O (zHeader O z) p

def zFlush1 {ι} (O : InnerOps ι) (z1 : ZW ι) : ZW ι × OpRes :=
  match z1.err with
  | some e => (z1, { err := some e })
  | none =>
    match O.flush z1.inner with
    | (i, r) => ({ z1 with inner := i, err := r.err }, { err := r.err })

def zFlush {ι} (O : InnerOps ι) (z : ZW ι) : ZW ι × OpRes := zFlush1 O (zHeader O z)

def zClose1 {ι} (O : InnerOps ι) (z1 : ZW ι) : ZW ι × OpRes :=
  match z1.err with
  | some e => (z1, { err := some e })
  | none =>
    if z1.closed then (z1, {})
    else
      match O.close z1.inner with
      | (i, r) =>
        match r.err with
        | some e => ({ z1 with inner := i, closed := true, err := some e }, { err := some e })
        | none =>
          match O.put i (be (adlerValue z1.adler) 4) with
          | (i2, true) => ({ z1 with inner := i2, closed := true }, {})
          | (i2, false) => ({ z1 with inner := i2, closed := true, err := some .injected }, { err := some .injected })

def zClose {ι} (O : InnerOps ι) (z : ZW ι) : ZW ι × OpRes := zClose1 O (zHeader O z)

def zReset {ι} (O : InnerOps ι) (z : ZW ι) (d : Dst) : ZW ι :=
  { inner := O.reset z.inner d, level := z.level }

def zStep {ι} (O : InnerOps ι) (z : ZW ι) : Op → ZW ι × OpRes
  | .write p => zWrite O z p
  | .flush => zFlush O z
  | .close => zClose O z
  | .reset d => (zReset O z d, {})

def zRun {ι} (O : InnerOps ι) (z : ZW ι) : List Op → ZW ι × List OpRes
  | [] => (z, [])
  | op :: ops =>
    let (z1, r) := zStep O z op
    let (z2, rs) := zRun O z1 ops
    (z2, r :: rs)


/-! ### gzip -/

/-- the destination writes gzip.Writer makes for its header: 10 fixed bytes; FEXTRA length then bytes; each string
    then its NUL -/
def gzHeaderChunks (h : GzHeader) (level : Int) : List (List UInt8) :=
  [fixedPart h level] ++
  (match h.extra with | some e => [le e.length 2, e] | none => []) ++
  (if h.name ≠ [] then [h.name, [0]] else []) ++
  (if h.comment ≠ [] then [h.comment, [0]] else [])

theorem gzHeaderChunks_flatten (h : GzHeader) (level : Int) :
    (gzHeaderChunks h level).flatten = emitHeader h level := by
  unfold gzHeaderChunks emitHeader extraPart strPart
  cases h.extra <;> by_cases h1 : h.name ≠ [] <;> by_cases h2 : h.comment ≠ [] <;> simp [extraBytes, h1, h2]

/-- several wrapper writes, stopping at the first failure -/
def InnerOps.putAll {ι} (O : InnerOps ι) (i : ι) : List (List UInt8) → ι × Bool
  | [] => (i, true)
  | c :: cs =>
    match O.put i c with
    | (i1, true) => O.putAll i1 cs
    | (i1, false) => (i1, false)

structure GW (ι : Type) where
  inner       : ι
  level       : Int
  hdr         : GzHeader := {}
  err         : Option Err := none
  wroteHeader : Bool := false
  closed      : Bool := false
  sum         : GzSum := {}

/-- the lazily written header (inside the first Write, or the Write(nil) that Flush and Close issue) -/
def gHeader {ι} (O : InnerOps ι) (z : GW ι) : GW ι :=
  if z.wroteHeader then z
  else
    match O.putAll z.inner (gzHeaderChunks z.hdr z.level) with
    | (i, true) => { z with inner := i, wroteHeader := true }
    | (i, false) => { z with inner := i, wroteHeader := true, err := some .injected }

/-- Write after the header step: a header failure returns (0, err); otherwise size and CRC are updated and the
    data goes to the compressor, whose error (if any) becomes sticky -/
def gWrite1 {ι} (O : InnerOps ι) (z1 : GW ι) (p : List UInt8) : GW ι × OpRes :=
  match z1.err with
  | some e => (z1, { n := 0, err := some e })
  | none =>
    match O.write z1.inner p with
    | (i, r) => ({ z1 with inner := i, sum := z1.sum.update p, err := r.err }, r)

def gWrite {ι} (O : InnerOps ι) (z : GW ι) (p : List UInt8) : GW ι × OpRes :=
  match z.err with
  | some e => (z, { n := 0, err := some e })
  | none => gWrite1 O (gHeader O z) p

def gFlush1 {ι} (O : InnerOps ι) (z1 : GW ι) : GW ι × OpRes :=
  match z1.err with
  | some e => (z1, { err := some e })
  | none =>
    match O.flush z1.inner with
    | (i, r) => ({ z1 with inner := i, err := r.err }, { err := r.err })

def gFlush {ι} (O : InnerOps ι) (z : GW ι) : GW ι × OpRes :=
  match z.err with
  | some e => (z, { err := some e })
  | none =>
    if z.closed then (z, {})
    else gFlush1 O (if z.wroteHeader then z else (gWrite1 O (gHeader O z) []).1)

def gClose1 {ι} (O : InnerOps ι) (z1 : GW ι) : GW ι × OpRes :=
  match z1.err with
  | some e => (z1, { err := some e })
  | none =>
    match O.close z1.inner with
    | (i, r) =>
      match r.err with
      | some e => ({ z1 with inner := i, err := some e }, { err := some e })
      | none =>
        match O.put i z1.sum.trailer with
        | (i2, true) => ({ z1 with inner := i2 }, {})
        | (i2, false) => ({ z1 with inner := i2, err := some .injected }, { err := some .injected })

def gClose {ι} (O : InnerOps ι) (z : GW ι) : GW ι × OpRes :=
  match z.err with
  | some e => (z, { err := some e })
  | none =>
    if z.closed then (z, {})
    else
      gClose1 O (if z.wroteHeader then { z with closed := true }
                 else (gWrite1 O (gHeader O { z with closed := true }) []).1)

/-- Reset = init(w, level): everything but the level and the (reset) compressor returns to its zero value, the
    Header fields included -/
def gReset {ι} (O : InnerOps ι) (z : GW ι) (d : Dst) : GW ι :=
  { inner := O.reset z.inner d, level := z.level }

def gStep {ι} (O : InnerOps ι) (z : GW ι) : Op → GW ι × OpRes
  | .write p => gWrite O z p
  | .flush => gFlush O z
  | .close => gClose O z
  | .reset d => (gReset O z d, {})

def gRun {ι} (O : InnerOps ι) (z : GW ι) : List Op → GW ι × List OpRes
  | [] => (z, [])
  | op :: ops =>
    let (z1, r) := gStep O z op
    let (z2, rs) := gRun O z1 ops
    (z2, r :: rs)

end Fastgo.CWriter
