import FastgoModel.Container.Gzip
/-
  zlib container (RFC 1950) as compress/zlib/writer.go writes it and reader.go checks it.
-/
namespace Fastgo.Container
open Fastgo.Spec

/-- big-endian bytes -/
def be (n k : Nat) : List UInt8 := (le n k).reverse
def unbe (bs : List UInt8) : Nat := unle bs.reverse

theorem unbe_be (n k : Nat) (h : n < 256 ^ k) : unbe (be n k) = n := by
  simp [unbe, be, unle_le n k h]

/-- FLEVEL bits for a compression level (writer.go writeHeader) -/
def flevel (level : Int) : Nat :=
  if level = -2 ∨ level = 0 ∨ level = 1 then 0
  else if level = 2 ∨ level = 3 ∨ level = 4 ∨ level = 5 then 1
  else if level = 6 ∨ level = -1 then 2
  else 3

/-- second header byte: FLEVEL<<6 | FDICT<<5, plus FCHECK making the 16-bit header a multiple of 31 -/
def flgByte (level : Int) (hasDict : Bool) : Nat :=
  let b := flevel level * 64 + (if hasDict then 32 else 0)
  b + (31 - (0x78 * 256 + b) % 31)

def dictPart : Option (List UInt8) → List UInt8
  | some d => be (adler32 d) 4
  | none => []

def emitZHeader (level : Int) (dict : Option (List UInt8)) : List UInt8 :=
  [0x78, UInt8.ofNat (flgByte level dict.isSome)] ++ dictPart dict

inductive ZRes
  | ok (haveDict : Bool) (rest : List UInt8)
  | unexpectedEOF
  | badHeader
  | badDict
  deriving Repr

/-- reader.go Reset: header validation and dictionary id check -/
def parseZHeader (dict : Option (List UInt8)) (bs : List UInt8) : ZRes :=
  match takeN 2 bs with
  | none => .unexpectedEOF
  | some (h, r) =>
    match h with
    | [cmf, flg] =>
      if cmf.toNat % 16 ≠ 8 ∨ cmf.toNat / 16 > 7 ∨ (cmf.toNat * 256 + flg.toNat) % 31 ≠ 0 then .badHeader
      else if flg.toNat / 32 % 2 = 1 then
        match takeN 4 r with
        | none => .unexpectedEOF
        | some (id, r2) =>
          if unbe id ≠ adler32 (dict.getD []) then .badDict else .ok true r2
      else .ok false r
    | _ => .badHeader

/-- the 4-byte trailer: Adler-32 of the payload, big-endian -/
def emitZTrailer (payload : List UInt8) : List UInt8 := be (adler32 payload) 4

end Fastgo.Container
