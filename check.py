#!/usr/bin/env python3
"""check.py <Cxx> [--tier quick|thorough] [--replay FILE]

One check = (1) Lean obligations of the property re-checked against facts regenerated from /repo,
(2) correspondence of the Lean model with the implementation, (3) direct oracles on the
implementation at every acceleration level in the tier (the failing-input search).
Exit 0: held on everything explored (KNOWN-FINDING lines are informational).
Exit 1: `VIOLATION property=<id> replay=<path>` lines.
See DESIGN.md section 5.
"""
import fcntl
import hashlib
import json
import os
import re
import shutil
import subprocess
import sys
import time

V = os.path.dirname(os.path.abspath(__file__))
REPO = os.environ.get("VERIF_REPO", "/repo")
CACHE = os.path.join(V, ".cache")
LEAN = os.path.join(V, "lean")
GOENV = dict(os.environ, GOFLAGS="-mod=mod", GOPROXY="off", GOSUMDB="off", GOTOOLCHAIN="local",
             GOCACHE=os.path.join(CACHE, "gocache"), CGO_ENABLED=os.environ.get("CGO_ENABLED", "1"))

sys.path.insert(0, V)
from checklib import props as PROPS  # noqa: E402  (per-property configuration)


def log(*a):
    print(*a, file=sys.stderr, flush=True)


def sh(cmd, cwd=None, env=None, timeout=None, inp=None):
    p = subprocess.run(cmd, cwd=cwd, env=env, stdout=subprocess.PIPE, stderr=subprocess.PIPE,
                       timeout=timeout, input=inp)
    return p.returncode, p.stdout.decode("utf-8", "replace"), p.stderr.decode("utf-8", "replace")


class Lock:
    def __init__(self, name):
        os.makedirs(CACHE, exist_ok=True)
        self.f = open(os.path.join(CACHE, name + ".lock"), "w")

    def __enter__(self):
        fcntl.flock(self.f, fcntl.LOCK_EX)
        return self

    def __exit__(self, *a):
        fcntl.flock(self.f, fcntl.LOCK_UN)
        self.f.close()


def tree_hash(roots, exts):
    h = hashlib.sha256()
    for root in roots:
        for d, dirs, files in sorted(os.walk(root)):
            dirs[:] = sorted(x for x in dirs if x not in (".git", ".lake", ".cache"))
            for f in sorted(files):
                if f.endswith(exts):
                    p = os.path.join(d, f)
                    h.update(p.encode())
                    with open(p, "rb") as fh:
                        h.update(fh.read())
    return h.hexdigest()[:20]


# ----------------------------------------------------------------------------- builds

def build_harness(tags, race=False):
    """Build the Go harness from /repo's working tree; cached by a hash of both source trees."""
    with Lock("gobuild"):
        key = tree_hash([REPO, os.path.join(V, "harness")], (".go", ".s", ".mod", ".sum", ".h"))
        name = "fgh-%s-%s%s" % (key, tags.replace(" ", "_"), "-race" if race else "")
        out = os.path.join(CACHE, name)
        if os.path.exists(out):
            try:
                os.utime(out, None)  # keep binaries that are in use fresh
            except OSError:
                pass
            return out, None
        now = time.time()
        for f in os.listdir(CACHE):  # stale binaries: only ones no check has used for 90 minutes (a concurrent
            # check on an earlier tree may still be running its binary)
            if f.startswith("fgh-") and not f.startswith("fgh-" + key):
                fp = os.path.join(CACHE, f)
                try:
                    if now - os.path.getmtime(fp) > 5400:
                        os.remove(fp)
                except OSError:
                    pass
        hdir = os.path.join(V, "harness")
        if os.path.exists(os.path.join(REPO, "go.sum")):
            shutil.copy(os.path.join(REPO, "go.sum"), os.path.join(hdir, "go.sum"))
        cmd = ["go", "build", "-tags", tags, "-o", out]
        if race:
            cmd.insert(2, "-race")
        rc, so, se = sh(cmd + ["."], cwd=hdir, env=GOENV, timeout=900)
        if rc != 0:
            return None, se[-4000:]
        return out, None


def capability(binary):
    rc, so, se = sh([binary, "-prop", "CAP"], env=GOENV)
    m = re.search(r"capability=(\d+)", so + se)
    return int(m.group(1)) if m else 0


def levels_for(tier, cap, prop):
    cand = [0, 1, 3, 4] if tier == "thorough" else sorted({0, cap})
    lv = [l for l in cand if l <= cap]
    return lv or [0]


# ----------------------------------------------------------------------------- lean

def lean_obligations(prop, tier):
    """Regenerate the facts, rebuild the property's Lean module, audit axioms.
    Returns (obligations list of dict(name, ok, detail), checker_cmd, error or None)."""
    from checklib import leancheck
    return leancheck.run(prop, tier, V, REPO, CACHE, GOENV, sh, Lock, log)


def model_correspondence(prop, tier, seed, binary, levels=(0,)):
    from checklib import corr
    return corr.run(prop, tier, seed, binary, V, CACHE, GOENV, sh, Lock, log, levels=levels)


# ----------------------------------------------------------------------------- known findings

def load_known():
    kf = []
    p = os.path.join(V, "known_findings.txt")
    if not os.path.exists(p):
        return kf
    for line in open(p):
        line = line.strip()
        m = re.match(r"finding:\s+property=(C\d+)\s+key~=(\S+)\s+(.*)", line)
        if m:
            kf.append((m.group(1), re.compile(m.group(2)), m.group(3)))
    return kf


def main():
    args = sys.argv[1:]
    if not args:
        print(__doc__)
        return 2
    prop = args[0]
    tier = os.environ.get("VERIF_TIER", "quick")
    replay = None
    i = 1
    while i < len(args):
        if args[i] == "--tier":
            tier = args[i + 1]
            i += 2
        elif args[i] == "--replay":
            replay = args[i + 1]
            i += 2
        else:
            i += 1
    if tier not in ("quick", "thorough"):
        tier = "quick"
    try:
        seed = int(os.environ.get("VERIF_SEED", "1"))
    except ValueError:
        seed = 1
    cfg = PROPS[prop]
    t0 = time.time()
    os.makedirs(CACHE, exist_ok=True)
    os.makedirs(os.path.join(V, "evidence"), exist_ok=True)
    os.makedirs(os.path.join(V, "replays"), exist_ok=True)
    violations = []   # dict(key, msg, replay_obj, nofail)
    known_hits = {}
    obligations = []
    notes = []

    # 1. Lean obligations (theorems + fact theorems), re-checked against /repo as it is now
    lean_ob, checker_cmd, lean_err = lean_obligations(prop, tier)
    obligations += lean_ob
    broken = [o for o in lean_ob if not o["ok"]]

    # 2. harness build
    binary, berr = build_harness("verif")
    if binary is None:
        # /repo does not compile with the hooks: nothing can be shown
        violations.append(dict(key="build", msg="harness/repo build failed:\n" + berr, nofail=True,
                               replay_obj=dict(kind="build-failure", stderr=berr)))
        cap = 0
        runs = []
    else:
        cap = capability(binary)
        runs = [(binary, l, "verif") for l in levels_for(tier, cap, prop)]
        if tier == "thorough" and cfg.get("noasm", True):
            b2, e2 = build_harness("verif noasmtest")
            if b2:
                runs.append((b2, 0, "verif noasmtest"))
        if cfg.get("race"):
            b3, e3 = build_harness("verif", race=True)
            if b3:
                runs.append((b3, cap, "verif race"))
            else:
                notes.append("race build unavailable: " + (e3 or "")[-300:])

    # 3. correspondence model <-> implementation
    corr_ob = []
    if binary is not None:
        corr_ob = model_correspondence(prop, tier, seed, binary, levels_for(tier, cap, prop))
        obligations += corr_ob
        broken += [o for o in corr_ob if not o["ok"]]

    # 4. direct oracles per level (always run: they are the failing-input search)
    results = []
    for (b, lvl, tags) in runs:
        outp = os.path.join(CACHE, "res-%s-%d-%s-%d.json" % (prop, lvl, tags.replace(" ", "_"), os.getpid()))
        cmd = [b, "-prop", prop, "-tier", tier, "-seed", str(seed), "-out", outp]
        if replay:
            cmd += ["-replay", replay]
        env = dict(GOENV, FASTGO_VERIF_ARCHLEVEL=str(lvl), VERIF_CORPUS=os.path.join(V, "corpus"),
                   GOMEMLIMIT="6GiB")
        if "race" in tags:
            env["GORACE"] = "halt_on_error=0 exitcode=66"
        try:
            rc, so, se = sh(cmd, env=env, timeout=cfg.get("timeout", 1500 if tier == "thorough" else 600))
        except subprocess.TimeoutExpired:
            rc, so, se = 124, "", "timeout"
        res = None
        if os.path.exists(outp):
            try:
                res = json.load(open(outp))
            except Exception:
                res = None
            os.remove(outp)
        if "DATA RACE" in se:
            violations.append(dict(key="data-race", msg="race detector report:\n" + se[:3000], nofail=False,
                                   replay_obj=dict(kind="race-report", level=lvl, tags=tags, seed=seed, tier=tier, stderr=se[:20000])))
        if res is None:
            violations.append(dict(key="crash", msg="harness crashed at level %d (%s): rc=%s\n%s" % (lvl, tags, rc, se[-3000:]),
                                   nofail=False,
                                   replay_obj=dict(kind="harness-crash", level=lvl, tags=tags, seed=seed, tier=tier, cmd=cmd, stderr=se[-20000:])))
            continue
        res["_tags"] = tags
        results.append(res)
        for v in res.get("violations") or []:
            v["build_tags"] = tags
            violations.append(dict(key=v["key"], msg=v["msg"], nofail=False, replay_obj=v))

    # 4b. cross-level comparison (C18)
    if cfg.get("crosslevel") and len(results) >= 2 and not replay:
        base = results[0]
        for other in results[1:]:
            d0, d1 = base.get("digests") or {}, other.get("digests") or {}
            for k in sorted(d0):
                if k.endswith(".len"):
                    continue
                if k in d1 and d0[k] != d1[k]:
                    case = dump_case(binary, prop, tier, seed, int(k))
                    violations.append(dict(key="level-differs", nofail=False,
                                           msg="case %s: level %d (%s) gives %s, level %d (%s) gives %s" % (
                                               k, base["arch_level"], base["_tags"], d0[k], other["arch_level"], other["_tags"], d1[k]),
                                           replay_obj=dict(property=prop, key="level-differs", case=case,
                                                           msg="outcome differs between acceleration levels",
                                                           digests={str(base["arch_level"]): d0[k], str(other["arch_level"]): d1[k]})))
                    break

    # 5. a broken proof obligation / correspondence with no failing input found
    oracle_found = any(not v["nofail"] for v in violations)
    for o in broken:
        if oracle_found:
            notes.append("obligation %s no longer checks; a failing input was found by the direct oracles" % o["name"])
        else:
            violations.append(dict(key="obligation/" + o["name"], msg="obligation no longer checks: %s\n%s" % (o["name"], o.get("detail", "")[:3000]),
                                   nofail=True,
                                   replay_obj=dict(kind="broken-obligation", property=prop, obligation=o["name"], detail=o.get("detail", ""),
                                                   searched="direct oracles of %s at levels %s, tier %s, seed %d: no failing input" % (
                                                       prop, [r[1] for r in runs], tier, seed))))

    # 6. known findings, replays, verdict
    known = load_known()
    out_lines = []
    seen_keys = set()
    nviol = 0
    for v in violations:
        kf = next((k for k in known if k[0] == prop and k[1].search(v["key"])), None)
        if kf is not None and not v["nofail"]:
            known_hits.setdefault(kf[1].pattern, [0, kf[2]])[0] += 1
            continue
        if v["key"] in seen_keys:
            continue
        seen_keys.add(v["key"])
        nviol += 1
        name = "%s_%s_%d.json" % (prop, re.sub(r"[^A-Za-z0-9_.=-]+", "_", v["key"])[:60], seed)
        path = os.path.join(V, "replays", name)
        with open(path, "w") as fh:
            json.dump(v["replay_obj"], fh, indent=1)
        log("  " + v["msg"].split("\n")[0][:400])
        out_lines.append("VIOLATION property=%s replay=%s%s" % (prop, path, " no-failing-input-found" if v["nofail"] else ""))
    for pat, (n, desc) in known_hits.items():
        print("KNOWN-FINDING: property=%s %s (%d case(s) this run, key %s)" % (prop, desc, n, pat))

    write_evidence(prop, tier, seed, cfg, obligations, checker_cmd, results, nviol, known_hits, notes, time.time() - t0, cap)
    for l in out_lines:
        print(l)
    sys.stdout.flush()
    return 1 if out_lines else 0


def dump_case(binary, prop, tier, seed, k):
    rc, so, se = sh([binary, "-prop", prop, "-tier", tier, "-seed", str(seed), "-dump", str(k)], env=dict(GOENV, FASTGO_VERIF_ARCHLEVEL="0"))
    try:
        return json.loads(so)
    except Exception:
        return dict(prop=prop, note="case %d of seed %d tier %s" % (k, seed, tier))


def write_evidence(prop, tier, seed, cfg, obligations, checker_cmd, results, nviol, known_hits, notes, wall, cap):
    evals = sum(r["evaluations"] for r in results)
    distinct = max([r["distinct_nontrivial"] for r in results] or [0])
    samples = []
    for r in results[:1]:
        samples += r.get("samples") or []
    dist = {}
    for r in results:
        for k, v in (r.get("distribution") or {}).items():
            dist["L%d:%s" % (r["arch_level"], k)] = v
    nob = len(obligations)
    ndis = sum(1 for o in obligations if o["ok"])
    level = cfg["level"]
    coverage = {
        "evaluations": evals,
        "distinct_nontrivial": distinct,
        "rule": (results[0]["rule"] if results else cfg.get("rule", "")),
        "samples": samples[:4] or [{"note": "no implementation run (see violations)"}],
        "per_level": [dict(arch_level=r["arch_level"], requested=r["arch_level_requested"], capability=r["arch_capability"],
                           build_tags=r["_tags"], evaluations=r["evaluations"], distinct_nontrivial=r["distinct_nontrivial"],
                           wall_s=round(r["wall_s"], 2)) for r in results],
        "input_distribution": dist,
        "host_capability": cap,
        "obligation_list": [dict(name=o["name"], kind=o.get("kind", ""), discharged=o["ok"], axioms=o.get("axioms", "")) for o in obligations],
        "known_findings_hit": {k: v[0] for k, v in known_hits.items()},
        "notes": notes,
    }
    if level == "proof":
        coverage.update({
            "obligations": max(nob, 1),
            "discharged": ndis if nob else 0,
            "checker_cmd": checker_cmd or "cd /verif/lean && lake build FastgoModel.Props.%s" % prop,
            "trusted_base": cfg.get("trusted_base", []),
        })
    else:
        coverage["explanation"] = cfg.get("explanation", "")
    ev = {
        "property_id": prop, "tier": tier, "seed": seed, "level": level,
        "coverage": coverage,
        "assumptions": cfg.get("assumptions", []),
        "wall_s": round(wall, 2),
        "violations": nviol,
    }
    path = os.path.join(V, "evidence", prop + ".json")
    tmp = path + ".tmp%d" % os.getpid()
    with open(tmp, "w") as fh:
        json.dump(ev, fh, indent=1)
    os.replace(tmp, path)


if __name__ == "__main__":
    sys.exit(main())
