module fgextract

go 1.21
