// fgextract regenerates FastgoModel/Gen/Facts.lean from the working tree of the repository:
// constants, package-level variables and the statements that write them, the ArchLevel dispatch sites,
// struct layouts that the assembly hard-codes and the displacements found in the .s files, the fields each
// Reset/reset assigns. Only the Go standard library is used (go/ast, go/parser, go/token).
package main

import (
	"bytes"
	"flag"
	"fmt"
	"go/ast"
	"go/parser"
	"go/printer"
	"go/token"
	"os"
	"path/filepath"
	"regexp"
	"sort"
	"strconv"
	"strings"
)

var repo = flag.String("repo", "/repo", "repository root")
var out = flag.String("out", "", "output .lean file")

type pkgInfo struct {
	dir   string
	name  string
	files map[string]*ast.File
	fset  *token.FileSet
}

func hasVerifTag(src string) bool {
	for _, line := range strings.Split(src, "\n") {
		l := strings.TrimSpace(line)
		if strings.HasPrefix(l, "package ") {
			break
		}
		if strings.HasPrefix(l, "//go:build") || strings.HasPrefix(l, "// +build") {
			if regexp.MustCompile(`(^|[^!A-Za-z_])verif\b`).MatchString(strings.TrimPrefix(strings.TrimPrefix(l, "//go:build"), "// +build")) {
				return true
			}
		}
	}
	return false
}

func loadPkgs() []*pkgInfo {
	var pkgs []*pkgInfo
	filepath.Walk(*repo, func(p string, info os.FileInfo, err error) error {
		if err != nil || !info.IsDir() {
			return nil
		}
		if strings.Contains(p, "/.git") || strings.HasSuffix(p, "/examples") || strings.Contains(p, "/examples/") {
			return nil
		}
		fset := token.NewFileSet()
		pi := &pkgInfo{dir: p, files: map[string]*ast.File{}, fset: fset}
		ents, _ := os.ReadDir(p)
		for _, e := range ents {
			n := e.Name()
			if !strings.HasSuffix(n, ".go") || strings.HasSuffix(n, "_test.go") {
				continue
			}
			src, err := os.ReadFile(filepath.Join(p, n))
			if err != nil || hasVerifTag(string(src)) {
				continue // hooks are not part of the library
			}
			f, err := parser.ParseFile(fset, filepath.Join(p, n), src, parser.ParseComments)
			if err != nil {
				fmt.Fprintln(os.Stderr, "parse error:", err)
				os.Exit(1)
			}
			pi.files[n] = f
			pi.name = f.Name.Name
		}
		if len(pi.files) > 0 {
			pkgs = append(pkgs, pi)
		}
		return nil
	})
	sort.Slice(pkgs, func(i, j int) bool { return pkgs[i].dir < pkgs[j].dir })
	return pkgs
}

func rel(p string) string {
	r, _ := filepath.Rel(*repo, p)
	return r
}

func q(s string) string { return strconv.Quote(s) }

func rootIdent(e ast.Expr) *ast.Ident {
	for {
		switch x := e.(type) {
		case *ast.Ident:
			return x
		case *ast.SelectorExpr:
			e = x.X
		case *ast.IndexExpr:
			e = x.X
		case *ast.ParenExpr:
			e = x.X
		case *ast.StarExpr:
			e = x.X
		case *ast.SliceExpr:
			e = x.X
		default:
			return nil
		}
	}
}

func classify(vs *ast.ValueSpec, i int) string {
	typ := ""
	if vs.Type != nil {
		typ = exprStr(vs.Type)
	}
	var val ast.Expr
	if i < len(vs.Values) {
		val = vs.Values[i]
	}
	switch v := val.(type) {
	case *ast.CompositeLit:
		return "table"
	case *ast.FuncLit:
		return "func"
	case *ast.BasicLit:
		return "scalar"
	case *ast.CallExpr:
		fn := exprStr(v.Fun)
		switch fn {
		case "errors.New":
			return "error"
		case "cpuArchLevel":
			return "call:cpuArchLevel"
		case "newToken":
			return "scalar"
		}
		return "other:call " + fn
	case *ast.SelectorExpr:
		return "alias:" + exprStr(v)
	case *ast.UnaryExpr:
		if cl, ok := v.X.(*ast.CompositeLit); ok {
			_ = cl
			return "other:pointer " + exprStr(v.X.(*ast.CompositeLit).Type)
		}
	}
	if val == nil {
		if strings.HasPrefix(typ, "func") {
			return "func"
		}
		if strings.HasPrefix(typ, "[") && !strings.HasPrefix(typ, "[]") {
			return "other:uninitialised array " + typ
		}
		return "other:uninitialised " + typ
	}
	return "other:" + exprStr(val)
}

func exprStr(e ast.Expr) string {
	switch x := e.(type) {
	case *ast.Ident:
		return x.Name
	case *ast.SelectorExpr:
		return exprStr(x.X) + "." + x.Sel.Name
	case *ast.StarExpr:
		return "*" + exprStr(x.X)
	case *ast.ArrayType:
		if x.Len == nil {
			return "[]" + exprStr(x.Elt)
		}
		return "[" + exprStr(x.Len) + "]" + exprStr(x.Elt)
	case *ast.BasicLit:
		return x.Value
	case *ast.FuncType:
		return "func"
	case *ast.CallExpr:
		return exprStr(x.Fun) + "(…)"
	case *ast.CompositeLit:
		if x.Type != nil {
			return exprStr(x.Type) + "{…}"
		}
		return "{…}"
	case *ast.BinaryExpr:
		return exprStr(x.X) + x.Op.String() + exprStr(x.Y)
	case *ast.ParenExpr:
		return "(" + exprStr(x.X) + ")"
	case *ast.UnaryExpr:
		return x.Op.String() + exprStr(x.X)
	case *ast.MapType:
		return "map[" + exprStr(x.Key) + "]" + exprStr(x.Value)
	case *ast.InterfaceType:
		return "interface"
	case *ast.StructType:
		return "struct"
	case *ast.IndexExpr:
		return exprStr(x.X) + "[" + exprStr(x.Index) + "]"
	}
	return fmt.Sprintf("%T", e)
}

// localNames collects identifiers declared inside a function (params, results, :=, var) to avoid
// mistaking a shadowing local for a package-level variable.
func localNames(fd *ast.FuncDecl) map[string]bool {
	loc := map[string]bool{}
	addFields := func(fl *ast.FieldList) {
		if fl == nil {
			return
		}
		for _, f := range fl.List {
			for _, n := range f.Names {
				loc[n.Name] = true
			}
		}
	}
	addFields(fd.Recv)
	addFields(fd.Type.Params)
	addFields(fd.Type.Results)
	ast.Inspect(fd, func(n ast.Node) bool {
		switch x := n.(type) {
		case *ast.AssignStmt:
			if x.Tok == token.DEFINE {
				for _, l := range x.Lhs {
					if id, ok := l.(*ast.Ident); ok {
						loc[id.Name] = true
					}
				}
			}
		case *ast.ValueSpec:
			for _, n := range x.Names {
				loc[n.Name] = true
			}
		case *ast.RangeStmt:
			if x.Tok == token.DEFINE {
				if id, ok := x.Key.(*ast.Ident); ok {
					loc[id.Name] = true
				}
				if id, ok := x.Value.(*ast.Ident); ok {
					loc[id.Name] = true
				}
			}
		case *ast.FuncLit:
			addFields(x.Type.Params)
			addFields(x.Type.Results)
		}
		return true
	})
	return loc
}

type fact struct{ a, b, c, d string }

// src prints a node exactly as gofmt would (one line).
func src(fset *token.FileSet, n ast.Node) string {
	var b bytes.Buffer
	printer.Fprint(&b, fset, n)
	return strings.Join(strings.Fields(b.String()), " ")
}

// codeFacts records the source text of the few expressions the window property (C19) rests on.
func codeFacts(pkgs []*pkgInfo) []fact {
	var out []fact
	for _, p := range pkgs {
		if !strings.HasSuffix(p.dir, "internal/deflate") {
			continue
		}
		var fnames []string
		for n := range p.files {
			fnames = append(fnames, n)
		}
		sort.Strings(fnames)
		for _, fn := range fnames {
			f := p.files[fn]
			for _, d := range f.Decls {
				fd, ok := d.(*ast.FuncDecl)
				if !ok || fd.Body == nil {
					continue
				}
				name := fd.Name.Name
				if fd.Recv != nil && len(fd.Recv.List) > 0 {
					name = exprStr(fd.Recv.List[0].Type) + "." + name
				}
				switch {
				case name == "lz77":
					ast.Inspect(fd.Body, func(n ast.Node) bool {
						switch x := n.(type) {
						case *ast.AssignStmt:
							if len(x.Lhs) == 1 && exprStr(x.Lhs[0]) == "dist" && x.Tok == token.DEFINE {
								out = append(out, fact{"lz77", "dist", src(p.fset, x.Rhs[0]), ""})
							}
							if len(x.Lhs) == 1 && exprStr(x.Lhs[0]) == "prev" {
								out = append(out, fact{"lz77", "prev", src(p.fset, x.Rhs[0]), ""})
							}
						case *ast.IfStmt:
							c := src(p.fset, x.Cond)
							if strings.Contains(c, "historySize") {
								out = append(out, fact{"lz77", "windowTest", c, ""})
							}
							if strings.Contains(c, "minMatch") {
								out = append(out, fact{"lz77", "minMatchTest", c, ""})
							}
						}
						return true
					})
				case name == "getDistSymbol":
					out = append(out, fact{"getDistSymbol", "body", src(p.fset, fd.Body), ""})
				case strings.HasSuffix(name, "context.generate") && !strings.Contains(fn, "other"):
					ast.Inspect(fd.Body, func(n ast.Node) bool {
						if ce, ok := n.(*ast.CallExpr); ok {
							fnn := exprStr(ce.Fun)
							if strings.HasPrefix(fnn, "lz77") {
								args := ""
								if fnn == "lz77" && len(ce.Args) > 3 {
									args = src(p.fset, ce.Args[3])
								}
								out = append(out, fact{name, "calls", fnn, args})
							}
						}
						if is, ok := n.(*ast.IfStmt); ok {
							c := src(p.fset, is.Cond)
							if strings.Contains(c, "windowLevel") {
								out = append(out, fact{name, "windowSwitch", c, ""})
							}
						}
						return true
					})
				case name == "NewWriterwWith4KWindow" || name == "NewWriter" || name == "buildLZ77":
					ast.Inspect(fd.Body, func(n ast.Node) bool {
						if ce, ok := n.(*ast.CallExpr); ok && exprStr(ce.Fun) == "NewDynCompressor" && len(ce.Args) == 3 {
							out = append(out, fact{name, "window", src(p.fset, ce.Args[2]), ""})
						}
						if cl, ok := n.(*ast.CompositeLit); ok && name == "buildLZ77" {
							out = append(out, fact{name, "ctx", src(p.fset, cl), ""})
						}
						return true
					})
				}
			}
		}
	}
	return out
}

func main() {
	flag.Parse()
	pkgs := loadPkgs()
	var globals, writes, arch, consts, resets []fact
	structFields := map[string][]*ast.Field{} // "pkgdir.Type" -> fields
	for _, p := range pkgs {
		pk := rel(p.dir)
		gl := map[string]string{}
		var fnames []string
		for n := range p.files {
			fnames = append(fnames, n)
		}
		sort.Strings(fnames)
		for _, fn := range fnames {
			f := p.files[fn]
			for _, d := range f.Decls {
				gd, ok := d.(*ast.GenDecl)
				if !ok {
					continue
				}
				for _, sp := range gd.Specs {
					switch s := sp.(type) {
					case *ast.ValueSpec:
						if gd.Tok == token.VAR {
							for i, n := range s.Names {
								if n.Name == "_" {
									continue
								}
								cl := classify(s, i)
								gl[n.Name] = cl
								globals = append(globals, fact{pk, n.Name, cl, fn})
							}
						}
						if gd.Tok == token.CONST {
							for i, n := range s.Names {
								if i < len(s.Values) {
									if v, ok := constVal(s.Values[i]); ok {
										consts = append(consts, fact{pk, n.Name, v, ""})
									}
								}
							}
						}
					case *ast.TypeSpec:
						if st, ok := s.Type.(*ast.StructType); ok {
							structFields[pk+"."+s.Name.Name] = st.Fields.List
						}
					}
				}
			}
		}
		for _, fn := range fnames {
			f := p.files[fn]
			for _, d := range f.Decls {
				fd, ok := d.(*ast.FuncDecl)
				if !ok || fd.Body == nil {
					continue
				}
				fname := fd.Name.Name
				if fd.Recv != nil && len(fd.Recv.List) > 0 {
					fname = exprStr(fd.Recv.List[0].Type) + "." + fname
				}
				loc := localNames(fd)
				isGlobal := func(e ast.Expr) (string, bool) {
					id := rootIdent(e)
					if id == nil || loc[id.Name] {
						return "", false
					}
					_, ok := gl[id.Name]
					return id.Name, ok
				}
				inInit := fd.Name.Name == "init" && fd.Recv == nil
				// fields assigned by Reset/reset/init methods
				if fd.Recv != nil && (fd.Name.Name == "Reset" || fd.Name.Name == "reset") {
					recv := ""
					if len(fd.Recv.List[0].Names) > 0 {
						recv = fd.Recv.List[0].Names[0].Name
					}
					seen := map[string]bool{}
					ast.Inspect(fd.Body, func(n ast.Node) bool {
						if as, ok := n.(*ast.AssignStmt); ok {
							for _, l := range as.Lhs {
								path := l
								suffix := ""
								if ie, ok := path.(*ast.IndexExpr); ok {
									path, suffix = ie.X, "[]"
								}
								if se, ok := path.(*ast.SelectorExpr); ok {
									if id := rootIdent(se); id != nil && id.Name == recv {
										seen[strings.TrimPrefix(exprStr(se), recv+".")+suffix] = true
									}
								}
							}
						}
						if ce, ok := n.(*ast.CallExpr); ok {
							if se, ok := ce.Fun.(*ast.SelectorExpr); ok {
								if id := rootIdent(se.X); id != nil && id.Name == recv && (se.Sel.Name == "reset" || se.Sel.Name == "Reset") {
									seen[strings.TrimPrefix(exprStr(se.X), recv+".")+"."+se.Sel.Name+"()"] = true
								}
							}
						}
						return true
					})
					var fs []string
					for k := range seen {
						fs = append(fs, k)
					}
					sort.Strings(fs)
					resets = append(resets, fact{pk, fname, strings.Join(fs, ","), ""})
				}
				ast.Inspect(fd.Body, func(n ast.Node) bool {
					switch x := n.(type) {
					case *ast.AssignStmt:
						if x.Tok == token.DEFINE {
							break
						}
						for _, l := range x.Lhs {
							if g, ok := isGlobal(l); ok && !inInit {
								writes = append(writes, fact{pk, fname, g, "assign"})
							}
						}
					case *ast.IncDecStmt:
						if g, ok := isGlobal(x.X); ok && !inInit {
							writes = append(writes, fact{pk, fname, g, "incdec"})
						}
					case *ast.UnaryExpr:
						if x.Op == token.AND {
							if g, ok := isGlobal(x.X); ok && !inInit {
								writes = append(writes, fact{pk, fname, g, "addr"})
							}
						}
					case *ast.SliceExpr:
						if g, ok := isGlobal(x.X); ok && !inInit {
							writes = append(writes, fact{pk, fname, g, "slice"})
						}
					case *ast.CallExpr:
						// method calls on a global that is not a plain table (sync.Pool.Get, mutex.Lock, ...)
						if se, ok := x.Fun.(*ast.SelectorExpr); ok {
							if id, ok := se.X.(*ast.Ident); ok && !loc[id.Name] {
								if cl, ok := gl[id.Name]; ok && strings.HasPrefix(cl, "other") && !inInit {
									writes = append(writes, fact{pk, fname, id.Name, "method:" + se.Sel.Name})
								}
							}
						}
					case *ast.BinaryExpr:
						if s := archShape(x); s != "" {
							arch = append(arch, fact{pk + "/" + fn, fname, s, ""})
						}
					case *ast.SwitchStmt:
						if x.Tag != nil && exprStr(x.Tag) == "cpu.ArchLevel" {
							var cs []string
							for _, c := range x.Body.List {
								cc := c.(*ast.CaseClause)
								if cc.List == nil {
									cs = append(cs, "default")
								}
								for _, e := range cc.List {
									cs = append(cs, exprStr(e))
								}
							}
							arch = append(arch, fact{pk + "/" + fn, fname, "switch:" + strings.Join(cs, ","), ""})
						}
					}
					return true
				})
			}
		}
	}
	// assembly: stores to global symbols, displacements off the state register of the decode loop
	var asmStores, asmDisps []fact
	filepath.Walk(*repo, func(p string, info os.FileInfo, err error) error {
		if err != nil || info.IsDir() || !strings.HasSuffix(p, ".s") {
			return nil
		}
		src, _ := os.ReadFile(p)
		reStore := regexp.MustCompile(`^\s*(MOV\w*|VMOV\w*|ADD\w*|SUB\w*|OR\w*|XOR\w*|AND\w*|XCHG\w*|INC\w*|DEC\w*|STOS\w*)\s+.*,\s*([A-Za-z_·.0-9<>]+)(<>)?\+?\d*\(SB\)`)
		reDisp := regexp.MustCompile(`(\d+)\((R9|AX|CX)\)`)
		seen := map[string]bool{}
		for _, line := range strings.Split(string(src), "\n") {
			if i := strings.Index(line, "//"); i >= 0 {
				line = line[:i]
			}
			if m := reStore.FindStringSubmatch(line); m != nil {
				asmStores = append(asmStores, fact{rel(p), strings.TrimSpace(line), m[2], ""})
			}
			for _, m := range reDisp.FindAllStringSubmatch(line, -1) {
				k := m[2] + ":" + m[1]
				if !seen[k] {
					seen[k] = true
					asmDisps = append(asmDisps, fact{filepath.Base(p), m[2], m[1], ""})
				}
			}
		}
		return nil
	})
	sort.Slice(asmDisps, func(i, j int) bool {
		if asmDisps[i].a != asmDisps[j].a {
			return asmDisps[i].a < asmDisps[j].a
		}
		if asmDisps[i].b != asmDisps[j].b {
			return asmDisps[i].b < asmDisps[j].b
		}
		x, _ := strconv.Atoi(asmDisps[i].c)
		y, _ := strconv.Atoi(asmDisps[j].c)
		return x < y
	})
	// struct layouts (gc/amd64) of the structs the assembly addresses
	constMap := map[string]int{}
	for _, c := range consts {
		if v, err := strconv.Atoi(c.c); err == nil {
			constMap[c.a+"."+c.b] = v
		}
	}
	var layouts []fact
	for _, st := range []string{"compress/flate.inflate", "compress/flate.largeHuffCodeTable", "compress/flate.smallHuffCodeTable", "compress/flate/internal/deflate.BitBuf", "compress/flate/internal/deflate.histogram", "compress/flate/internal/deflate.level1context", "compress/flate/internal/deflate.level2context"} {
		fields, ok := structFields[st]
		if !ok {
			continue
		}
		pk := st[:strings.LastIndex(st, ".")]
		off := 0
		for _, f := range fields {
			sz, al := sizeOf(f.Type, pk, structFields, constMap)
			for _, n := range f.Names {
				off = (off + al - 1) / al * al
				layouts = append(layouts, fact{st, n.Name, strconv.Itoa(off), strconv.Itoa(sz)})
				off += sz
			}
		}
	}
	// ---- emit
	var b strings.Builder
	b.WriteString("/- GENERATED by /verif/extract from the working tree of the repository. Do not edit. -/\nnamespace Fastgo.Gen\n\n")
	emit := func(name, typ string, fs []fact, n int) {
		b.WriteString(fmt.Sprintf("def %s : List (%s) := [\n", name, typ))
		for i, f := range fs {
			parts := []string{q(f.a), q(f.b), q(f.c), q(f.d)}[:n]
			sep := ","
			if i == len(fs)-1 {
				sep = ""
			}
			b.WriteString("  (" + strings.Join(parts, ", ") + ")" + sep + "\n")
		}
		b.WriteString("]\n\n")
	}
	emit("globals", "String × String × String × String", globals, 4)
	emit("globalWrites", "String × String × String × String", writes, 4)
	emit("asmGlobalStores", "String × String × String", asmStores, 3)
	emit("archSites", "String × String × String", arch, 3)
	b.WriteString("def resetAssigns : List (String × String × List String) := [\n")
	for i, f := range resets {
		var fs []string
		if f.c != "" {
			for _, x := range strings.Split(f.c, ",") {
				fs = append(fs, q(x))
			}
		}
		sep := ","
		if i == len(resets)-1 {
			sep = ""
		}
		b.WriteString(fmt.Sprintf("  (%s, %s, [%s])%s\n", q(f.a), q(f.b), strings.Join(fs, ", "), sep))
	}
	b.WriteString("]\n\n")
	emit("asmDisps", "String × String × String", asmDisps, 3)
	emit("layouts", "String × String × String × String", layouts, 4)
	emit("codeFacts", "String × String × String × String", codeFacts(pkgs), 4)
	// selected numeric constants
	want := map[string]bool{}
	for _, k := range []string{"compress/flate/internal/deflate.maxMatchLength", "compress/flate/internal/deflate.minMatchLength", "compress/flate/internal/deflate.minMatch", "compress/flate/internal/deflate.tokensCap", "compress/flate/internal/deflate.maxTokenSize", "compress/flate/internal/deflate.InvalidDist", "compress/flate/internal/deflate.safeLZ77Boundary",
		"compress/flate.historySize", "compress/flate.lookAhead", "compress/flate.maxHdrSize", "compress/flate.litLenLookupBits", "compress/flate.distLookupBits", "compress/flate.singleSymThresh", "compress/flate.doubleSymThresh", "compress/flate.inBufferSlop", "compress/flate.outBufferSlop", "compress/flate.maxMatch", "compress/flate.copySize", "compress/flate.copyLenMax"} {
		want[k] = true
	}
	b.WriteString("def constants : List (String × Int) := [\n")
	var cl []string
	for _, c := range consts {
		if want[c.a+"."+c.b] {
			if v, ok := constMap[c.a+"."+c.b]; ok {
				cl = append(cl, fmt.Sprintf("  (%s, %d)", q(c.a+"."+c.b), v))
			}
		}
	}
	b.WriteString(strings.Join(cl, ",\n") + "\n]\n\nend Fastgo.Gen\n")
	if *out == "" {
		fmt.Print(b.String())
	} else {
		os.WriteFile(*out, []byte(b.String()), 0o644)
	}
}

func archShape(x *ast.BinaryExpr) string {
	l, r := exprStr(x.X), exprStr(x.Y)
	if l == "cpu.ArchLevel" {
		return x.Op.String() + r
	}
	if r == "cpu.ArchLevel" {
		return l + x.Op.String()
	}
	return ""
}

var constTable = map[string]string{}

func constVal(e ast.Expr) (string, bool) {
	switch x := e.(type) {
	case *ast.BasicLit:
		if x.Kind == token.INT {
			v, err := strconv.ParseInt(x.Value, 0, 64)
			if err == nil {
				return strconv.FormatInt(v, 10), true
			}
		}
	case *ast.ParenExpr:
		return constVal(x.X)
	case *ast.BinaryExpr:
		a, ok1 := constVal(x.X)
		b, ok2 := constVal(x.Y)
		if ok1 && ok2 {
			ai, _ := strconv.ParseInt(a, 10, 64)
			bi, _ := strconv.ParseInt(b, 10, 64)
			switch x.Op {
			case token.ADD:
				return strconv.FormatInt(ai+bi, 10), true
			case token.SUB:
				return strconv.FormatInt(ai-bi, 10), true
			case token.MUL:
				return strconv.FormatInt(ai*bi, 10), true
			case token.SHL:
				return strconv.FormatInt(ai<<uint(bi), 10), true
			case token.AND:
				return strconv.FormatInt(ai&bi, 10), true
			case token.AND_NOT:
				return strconv.FormatInt(ai&^bi, 10), true
			}
		}
	case *ast.UnaryExpr:
		if x.Op == token.XOR {
			if a, ok := constVal(x.X); ok {
				ai, _ := strconv.ParseInt(a, 10, 64)
				return strconv.FormatInt(^ai, 10), true
			}
		}
	case *ast.Ident:
		if v, ok := constTable[x.Name]; ok {
			return v, true
		}
	}
	return "", false
}

// sizeOf computes size and alignment (gc, amd64) of the simple types the addressed structs use.
func sizeOf(t ast.Expr, pk string, structs map[string][]*ast.Field, consts map[string]int) (int, int) {
	switch x := t.(type) {
	case *ast.Ident:
		switch x.Name {
		case "uint8", "int8", "bool", "byte":
			return 1, 1
		case "uint16", "int16":
			return 2, 2
		case "uint32", "int32":
			return 4, 4
		case "uint64", "int64", "int", "uint", "uintptr":
			return 8, 8
		}
		if fs, ok := structs[pk+"."+x.Name]; ok {
			off, maxal := 0, 1
			for _, f := range fs {
				sz, al := sizeOf(f.Type, pk, structs, consts)
				for range f.Names {
					off = (off + al - 1) / al * al
					off += sz
				}
				if al > maxal {
					maxal = al
				}
			}
			return (off + maxal - 1) / maxal * maxal, maxal
		}
		return 8, 8
	case *ast.ArrayType:
		if x.Len == nil {
			return 24, 8
		}
		n := evalLen(x.Len, pk, consts)
		sz, al := sizeOf(x.Elt, pk, structs, consts)
		return n * sz, al
	case *ast.StarExpr, *ast.FuncType, *ast.MapType:
		return 8, 8
	case *ast.InterfaceType:
		return 16, 8
	case *ast.SelectorExpr:
		return 16, 8 // io.Writer etc.
	}
	return 8, 8
}

func evalLen(e ast.Expr, pk string, consts map[string]int) int {
	switch x := e.(type) {
	case *ast.BasicLit:
		v, _ := strconv.ParseInt(x.Value, 0, 64)
		return int(v)
	case *ast.Ident:
		return consts[pk+"."+x.Name]
	case *ast.ParenExpr:
		return evalLen(x.X, pk, consts)
	case *ast.BinaryExpr:
		a, b := evalLen(x.X, pk, consts), evalLen(x.Y, pk, consts)
		switch x.Op {
		case token.ADD:
			return a + b
		case token.SUB:
			return a - b
		case token.MUL:
			return a * b
		case token.SHL:
			return a << uint(b)
		}
	}
	return 0
}
