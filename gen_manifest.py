#!/usr/bin/env python3
"""Regenerates MANIFEST.json from the table below (kept in one place so that it stays valid)."""
import json, os, subprocess
V = os.path.dirname(os.path.abspath(__file__))

def repo_commits():
    out = subprocess.run(["git", "-C", "/repo", "log", "--format=%h %s"], stdout=subprocess.PIPE).stdout.decode()
    return [l.split()[0] for l in out.splitlines() if l.split(" ", 1)[1].startswith("verif hooks")]

CLAIMED = {
 # id: (technique, level text, level note, design ref)
 "C12": ("Lean 4 theorem over the Writer control model (reset = initial state, for every state) + lock-step correspondence with replayed leaves + fresh-vs-reset byte oracle",
         "Proof: C12_reset_state / C12_reset_fresh / C12_history are kernel-checked for EVERY model state and every later history; the model's Reset is written field by field after the code and is tied to it on every run by the W correspondence (counters, results and destination calls in lock-step, including histories with Reset after pending data, Flush, Close and failed writes) and by the direct fresh-vs-reset byte comparison at every acceleration level.",
         "Trusted: Lean kernel; leaf contract mfReset = mfInit (hash table + histogram zeroed) is a hypothesis validated by the byte oracle; gzip/zlib wrappers are covered by the oracle only; buffer bytes beyond `end` and scratch buffers are dead scratch by inspection.", "DESIGN.md section 6 C12"),
 "C14": ("Lean 4 theorems over the Writer control model for an arbitrary destination failure pattern (reported / recorded / sticky) + lock-step correspondence under injected faults + fault at every destination call",
         "Proof: for every failure pattern of the destination (any call index, one-shot or persistent) C14_reported, C14_failure_recorded and C14_sticky are kernel-checked by induction over the operation list; tie: W correspondence with injected destination faults (results, counters, number of destination calls) plus the direct oracle failing the destination at every call index of generated op sequences for flate/gzip/zlib at each level.",
         "Trusted: Lean kernel; control model hand-written (tied by correspondence); memory safety of the unsafe 8-byte stores is observed (recovered panics / crashes of the harness process), not proved; gzip/zlib sticky errors covered by the oracle only.", "DESIGN.md section 6 C14"),
 "C16": ("Lean 4 refinement of the Writer control model to the 3-state protocol automaton of compress/flate + exhaustive short call sequences side by side with the standard library",
         "Proof: C16_protocol_step (every call's error and next protocol state are the automaton's), C16_after_close (closed Writer: Close nil, Write/Flush fail, nothing emitted, state unchanged), C16_total; tie: W correspondence, and the oracle running ALL sequences over {W-empty,W-small,W-large,Flush,Close,Reset} up to length 4 (thorough 5) per setting plus random longer ones against compress/{flate,gzip,zlib}, plus constructor level acceptance -4..11.",
         "Trusted: Lean kernel; that the standard library follows the same automaton is validated, not proved; panics are observed by the harness (the model has no partial operation).", "DESIGN.md section 6 C16"),
}

def main():
    props = [json.loads(l) for l in open(os.path.join(V, "properties.jsonl"))]
    checks, na = [], []
    for p in props:
        pid = p["id"]
        if pid in CLAIMED:
            tech, text, note, ref = CLAIMED[pid]
            checks.append({
                "property_id": pid,
                "quick_cmd": "python3 check.py %s --tier quick" % pid,
                "thorough_cmd": "python3 check.py %s --tier thorough" % pid,
                "evidence_file": "/verif/evidence/%s.json" % pid,
                "replay_cmd_template": "python3 check.py %s --replay {path}" % pid,
                "engine": "lean4+go-harness",
                "level_claimed": {"category": "proof", "text": text, "design_ref": ref},
                "level_note": note,
                "technique": tech,
            })
        else:
            na.append({"property_id": pid, "reason": NA.get(pid, "not claimed in this commit: the Lean property module for it is not written yet (the direct oracle exists in /verif/harness)")})
    m = {
        "version": 1,
        "setup_cmd": "sh /verif/setup.sh",
        "hooks": {
            "guard": "verif",
            "enable": "go build -tags verif (harness module /verif/harness with `replace github.com/intel/fastgo => /repo`); FASTGO_VERIF_ARCHLEVEL=<0|1|3|4> selects the acceleration level",
            "baseline_off_cmd": "cd /repo && GOFLAGS=-mod=mod GOPROXY=off GOSUMDB=off go test -vet=off -count=1 ./...",
            "source_commits": repo_commits(),
            "add_only": True,
        },
        "engines": [
            {"name": "lean4+go-harness", "path": "/verif/check.py", "serves_properties": sorted(CLAIMED),
             "kind_free_text": "Lean 4 models and theorems (/verif/lean, lake build, #print axioms audit), regenerated facts (/verif/extract), correspondence harness in Go (/verif/harness) driving the compiled model driver fgmodel over a line protocol, direct oracles per property as failing-input search"},
        ],
        "checks": checks,
        "not_applicable": na,
        "notes": "See DESIGN.md. KNOWN-FINDING lines are listed in known_findings.txt. Checks rebuild the harness from /repo's working tree on every run (cache keyed by a hash of the tree).",
    }
    json.dump(m, open(os.path.join(V, "MANIFEST.json"), "w"), indent=1)
    print("claimed", len(checks), "not_applicable", len(na))

NA = {}
if __name__ == "__main__":
    main()
