#!/usr/bin/env python3
"""Regenerates MANIFEST.json from the table below (kept in one place so that it stays valid)."""
import json, os, subprocess
V = os.path.dirname(os.path.abspath(__file__))

def repo_commits():
    out = subprocess.run(["git", "-C", "/repo", "log", "--format=%h %s"], stdout=subprocess.PIPE).stdout.decode()
    return [l.split()[0] for l in out.splitlines() if l.split(" ", 1)[1].startswith("verif hooks")]

RT = "Trusted: Lean kernel; hand-written model tied to the code by lock-step correspondence (R: per-Read results, bytes consumed from the bufio.Reader, decoder inputs, with the real decoder's answers replayed from the hook VerifRecordSteps) and by the direct oracle; the decoder proper (header parser, table builders, Go and AVX2 decode loops) is a parameter with contract Decoder.Sane, validated per run; bufio.Reader modelled after the Go 1.23 source."
WT = "Trusted: Lean kernel; hand-written control model tied to the code by lock-step correspondence (W: per-op results, idx/end/processed/token counters, destination calls, with the real match finder / block encoder answers replayed from the hook VerifRecord) and by the direct oracle; leaf algorithms (Go and assembly match finders, Huffman code generation, header, bit packing) are parameters."
CT = "Trusted: Lean kernel; container definitions tied to the code by the K correspondence (header and trailer bytes emitted by fastgo's Writers, verdicts and fields of its Readers on valid / mutated / truncated headers incl. FHCRC, checksums against hash/crc32 and hash/adler32); Latin-1/UTF-8 conversion and time handling are glue validated by the oracle only; the inflater is a parameter (Exact / arbitrary answers)."

CLAIMED = {
 # id: (technique, level text, level note, design ref)
 "C04": ("Lean 4 invariant over the Reader control model for every bufio size / source chunking / read sizes (decoder fed the stream in order, nothing lost or duplicated) + lock-step correspondence + schedule-pair oracle",
         "Proof (partial by nature of the claim): C04_decoder_sees_the_stream, C04_same_stream_same_feed, C04_nothing_left_behind are kernel-checked by induction over Read calls for an arbitrary Sane decoder; that the decoder's output is a function of the fed stream is its contract, validated by the oracle (all-at-once vs scheduled runs over valid and cut streams, boundary families, one byte per read). For TRUNCATED streams the code violates the property by 1-2 trailing bytes: known finding F-C04-1.",
         RT, "DESIGN.md section 6 C04"),
 "C05": ("Lean 4 accounting invariant of the Reader control model (discarded + whole bytes in the bit buffer = bytes taken by the decoder) => exact consumption at io.EOF; C05_spec_stream_frame / C05_spec_inflater_exact: a stream passing the executable check checkStream decodes to the same data whatever follows and the specification inflater stops exactly behind it (S correspondence: whole streams of the real Writers) + lock-step correspondence R + session check F (source position after io.EOF = end of the byte holding the last bit of the final block, computed by the Lean specification inflater) + suffix-intact oracle",
         "Proof: C05_invariant (every reachable state), C05_exact, C05_position_after_eof (taken = ceil(endBit/8), the unread stream is exactly the suffix) are kernel-checked for every bufio size, chunking and read pattern; tie: R correspondence compares the bytes consumed from the bufio.Reader in lock-step; oracle: stream+suffix over bufio sizes 16..64K, NewReader and Reset, flate/gzip/zlib. Non-bufio ByteReaders are over-read by the library: known finding F-C05-1.",
         RT, "DESIGN.md section 6 C05"),
 "C06": ("Lean 4 round-trip theorems for the gzip and zlib header/trailer formats (parse (emit h) = h for every representable header; trailer = checksum of the concatenated writes) + byte-level correspondences K, ZW, GW, whole-file correspondences FG, FZ + both-direction interop oracle",
         "Proof: C06_gzip_header_roundtrip (all optional fields, every level), C06_gzip_trailer, C06_zlib_header_roundtrip / _fcheck (FLEVEL, FDICT, DICTID, FCHECK), C06_zlib_trailer, C06_gzip_member_reads_back, C06_gzip_member_reads_back_spec (the same with the abstract inflater replaced by the specification inflater, for every body that passes the executable check checkStream), and C06_gzip_writer_emits_member / C06_zlib_writer_emits_stream (after Close, for any accepted call history, the destination holds header ++ one complete DEFLATE stream of the data ++ trailer of the data; inner Writer under its stream contract) are kernel-checked for all headers/payloads/partitions; tie: K correspondence on the bytes fastgo emits and accepts, FG / FZ correspondences (whole gzip files / zlib streams through the real Readers vs the Lean Reader models readAllMembers / readZlib over the specification inflater; C06_zlib_stream_reads_back_spec), ZW / GW correspondences on the Writer control flow incl. header and trailer bytes under Reset and injected faults; oracle: fastgo->stdlib and stdlib->fastgo round trips (fields, payload, trailer recomputed) over levels, partitions, Reset reuse, dictionaries.",
         CT, "DESIGN.md section 6 C06"),
 "C07": ("Lean 4 theorem over the gzip/zlib Read loops with the inflater as an arbitrary environment: io.EOF implies checksum (and length) of the delivered bytes equal the trailer; Read counts are payload counts; K, FG and FZ correspondences + truncation/bit-flip oracle",
         "Proof: C07_gzip_eof_is_checked, C07_zlib_eof_is_checked (for every sequence of inflater answers, every Read size), C07_gzip_counts / C07_zlib_counts, C07_gzip_truncated_trailer; tie: K correspondence, FG correspondence (whole gzip files - intact, with trailing garbage, cut, bit-flipped - through the real Reader vs the Lean Reader model readAllMembers over the specification inflater: io.EOF iff the model accepts, same payload) and the oracle cutting containers at every byte and flipping bits in header / payload / trailer (default and Multistream(false), FHCRC members, tiny Read buffers).",
         CT, "DESIGN.md section 6 C07"),
 "C08": ("Lean 4 induction over the member list (default multistream loop and Multistream(false)+Reset rounds) using the header round-trip and an exact inflater; K and FG correspondences + member-sequence oracle",
         "Proof: C08_multistream and C08_member_by_member are kernel-checked for every list of members (any representable headers, payloads incl. empty) and any trailing data, under the inflater contract Exact (decodes the body, leaves the source exactly after it = C02+C05; specInflater_exact proves the specification inflater meets it on every stream passing checkStream); FG correspondence: the real gzip Reader vs the Lean member loop over the specification inflater on whole files; oracle: 1..k members from both encoders, empty members, trailing garbage, bufio sizes 16..1M.",
         CT, "DESIGN.md section 6 C08"),
 "C09": ("Lean 4 theorem Write(a++b) = Write a; Write b over the chunked Accumulate/Compress loop for arbitrary leaves, lifted to any two partitions + lock-step correspondence + partition-pair oracle with buffer-edge cuts",
         "Proof: C09_write_append, C09_partition, C09_later_ops are kernel-checked by strong induction over the data for every leaf algorithm, every buffer state (incl. pending slide) and window > 0; tie: W correspondence; oracle: pairs of partitions with identical Flush positions, cuts aligned to the buffer fill/slide edges, zero-length writes, all accelerated settings and levels.",
         WT, "DESIGN.md section 6 C09"),
 "C11": ("Lean 4 theorem over the Reader control model with a source that blocks when its schedule is exhausted: Read blocks only when starved (no pending output, input slice consumed, stream not ended, every delivered byte handed to the decoder) + lock-step correspondence incl. blocking sources + gated-source oracle",
         "Proof: C11_blocks_only_when_starved, C11_no_source_access_after_end, C11_error_after_data are kernel-checked for an arbitrary Sane decoder and every schedule; tie: R correspondence includes sources that fall silent or fail; oracle: gated source releasing exactly the bytes up to a sync-flush point or the stream end, then blocking / failing / delivering garbage (flate, gzip in both modes, zlib).",
         RT, "DESIGN.md section 6 C11"),
 "C12": ("Lean 4 theorem over the Writer control model (reset = initial state, for every state) + regenerated Reset-field facts + lock-step correspondence + fresh-vs-reset byte oracle",
         "Proof: C12_reset_state / C12_reset_fresh / C12_history are kernel-checked for EVERY model state and every later history; C12_reset_fields_complete re-checks, against facts regenerated from /repo on every run, that the code's Reset methods assign every field the model resets; tie: W correspondence (histories with Reset after pending data, Flush, Close, failed writes) and the direct fresh-vs-reset byte comparison (double Reset, old-destination leak check) at every acceleration level.",
         WT + " Leaf contract mfReset = mfInit (hash table + histogram zeroed) is a hypothesis validated by the byte oracle; gzip/zlib wrappers are covered by the oracle and the field facts.", "DESIGN.md section 6 C12"),
 "C13": ("Lean 4 theorem reset = NewReader state for every Reader state + regenerated Reset-field facts + reset-vs-fresh oracle",
         "Proof: C13_reset_state, C13_reset_fresh (every state, every later Read sequence), C13_reset_fields_complete (regenerated: decompressor.Reset and inflate.reset assign every stream-state field); oracle: histories (nothing read, pending output, complete, error, truncated, cut inside a header) then valid / hostile / dictionary next inputs delivered whole or in small pieces, flate/gzip/zlib. Truncated next inputs inherit known finding F-C04-1.",
         RT, "DESIGN.md section 6 C13"),
 "C14": ("Lean 4 theorems over the Writer control model for an arbitrary destination failure pattern (reported / recorded / sticky) + lock-step correspondence under injected faults + fault at every destination call",
         "Proof: for every failure pattern of the destination (any call index, one-shot or persistent) C14_reported, C14_failure_recorded and C14_sticky are kernel-checked by induction over the operation list, and C14_gzip_sticky / C14_zlib_sticky (+ C14_zlib_invariant) for the container Writer models over any inner Writer; tie: W correspondence with injected destination faults (results, counters, number of destination calls) plus the direct oracle failing the destination at every call index (persistent and one-shot) of generated op sequences for flate/gzip/zlib at each level.",
         WT + " Memory safety of the unsafe 8-byte stores is observed (recovered panics / crashes of the harness process), not proved.", "DESIGN.md section 6 C14"),
 "C15": ("Lean 4 theorems over the Reader control model + bufio model: only Peek can surface a source error, it surfaces the source's own value, only after all earlier bytes were decoded, and it sticks + lock-step correspondence with failing sources + fault-at-every-byte oracle",
         "Proof: C15_error_is_the_sources, C15_decoder_errors_are_not_source_errors, C15_peek_reports_source_errors_only, C15_sticky are kernel-checked for every schedule and decoder; oracle: source failing after k bytes for k across the stream, alone or with data, three error values (one wrapping io.EOF), flate/gzip/zlib.",
         RT, "DESIGN.md section 6 C15"),
 "C16": ("Lean 4 refinement of the Writer control model to the 3-state protocol automaton of compress/flate + exhaustive short call sequences side by side with the standard library",
         "Proof: C16_protocol_step (every call's error and next protocol state are the automaton's), C16_after_close (closed Writer: Close nil, Write/Flush fail, nothing emitted, state unchanged), C16_close_closes, C16_total, and C16_gzip_closed_idempotent / C16_zlib_closed_idempotent for the container Writer models; tie: W correspondence, and the oracle running ALL sequences over {W-empty,W-small,W-large,Flush,Close,Reset} up to length 4 (thorough 5) per setting plus random longer ones against compress/{flate,gzip,zlib}, plus constructor level acceptance -4..11.",
         WT + " That the standard library follows the same automaton is validated, not proved; panics are observed by the harness.", "DESIGN.md section 6 C16"),
 "C17": ("Lean 4: product-machine non-interference theorem + fact theorem over the REGENERATED list of package-level variables and their write sites (none outside init; no stores to globals in assembly) + concurrent-vs-solo oracle, also under the race detector",
         "Proof (partial by nature): C17_product_noninterference (any two state machines, any interleaving) and C17_no_shared_mutable_state (decide over facts regenerated from /repo on every run: a new mutable global, a sync.Pool, a write to a table outside init breaks it); the Go memory model and the assembly are not modelled: data-race freedom is corroborated by running the same workloads concurrently (GOMAXPROCS 1..16, skewed writers, pooled-reader recycling) and in a -race build.",
         "Trusted: Lean kernel; the fact extractor (/verif/extract, go/ast); the race detector and scheduler for the corroborating runs.", "DESIGN.md section 6 C17"),
 "C18": ("Lean 4: level-free models + fact theorems over regenerated dispatch sites and struct layouts vs assembly displacements + per-level processes compared pairwise and with the reference inflater",
         "Proof: the Reader and container models take no level parameter and the Writer theorems hold for all leaves; C18_dispatch_shape and C18_layout_ok are decided over facts regenerated from /repo (every cpu.ArchLevel site, gc/amd64 offsets of inflate / BitBuf / histogram against the displacements in the .s files); the per-level leaf contracts are assumptions validated on every run: each Reader case runs in separate processes at every level the host can execute, outcomes compared pairwise and with the reference inflater; R and W correspondences run at level 0; the leaf-contract checks G (match finders), E (block encoders) and F (decoder sessions) run at every level.",
         "Trusted: Lean kernel; extractor; assembly behind per-level validated contracts; levels above the host's capability are skipped and reported.", "DESIGN.md section 6 C18"),
}

LT = " Leaf contracts are explicit hypotheses of the theorems, shown satisfiable by complete executable instances (fixLeaves/fixSound: literal tokens + fixed-Huffman blocks; batchDecoder/batchFaithful) and checked on the real code per run, not proved for it."
CLAIMED.update({
 "C01": ("Lean 4 stream-composition proof: invariant over the Writer control model (any data, any Write/Flush/Reset history, buffer roll-overs, window slides, early-stopping match finder) => after Close the destination holds exactly one complete stream that the specification inflater decodes to the data; leaf contracts Sound (match finder, block encoder); correspondences I (spec inflater vs compress/flate), W and H (dynamic and Huffman-only control models in lock-step), G (every recorded match-finder call, Go and assembly, passes the proved-sound check checkGen), E (every block the real block encoders emit passes checkEnc, which the frame theorem of the specification inflater proves to give the enc clause of the contract) + three-decoder round-trip oracle at every acceleration level",
         "Proof (partial): C01_roundtrip_dyn, C01_empty (dynamic compressor: levels 1, 2, default; both windows) and C01_roundtrip_huff (Huffman-only, level -2) are kernel-checked for ALL inputs and call patterns under the leaf contracts Sound / HSound; the contracts are shown satisfiable (fixSound) and checked on the implementation: G correspondence checks each recorded match-finder call against checkGen (checkGen_sound: tokens replayed as an inflater would reproduce the consumed bytes) at every level, E correspondence hands every block the real encoders emit (Huffman code generation, dynamic header, token / byte packing in Go, AVX2, AVX-512, bit buffer; dynamic and Huffman-only compressor) to checkEnc: the specification inflater run on exactly that block's bits + decidable prefix-freeness of its codes; C01_block_frame (the specification inflater is prefix-stable), C01_block_history_local and C01_checked_block_meets_contract prove that a passed check gives the enc clause of Sound / HSound for that call; the oracle decodes every emitted stream with compress/flate, the reference inflater and fastgo's Reader. Not covered by the theorems, oracle only: delegated levels 0/3-9, preset dictionaries (known finding F-C01-1). The leaf algorithms themselves have no Lean model: their contracts are checked call by call with proved checks, for the calls the generators reach.",
         WT + LT, "DESIGN.md section 6 C01"),
 "C02": ("Lean 4 delivery theorem over the Reader control model: for any bufio size, source chunking and sequence of Read sizes the bytes handed out are, in order and without loss or duplication, a prefix of the specification inflater's output for the bytes the decoder took, and io.EOF means exactly the complete output; decoder leaf contracts Sane + Faithful; correspondences I, R and F (complete sessions of the real Reader at every level judged by the Lean specification inflater itself through the check checkFaithful, whose meaning is proved) + differential oracle against compress/flate over synthesised code shapes at every level",
         "Proof (partial): C02_delivery, C02_eof_complete(_from_start) are kernel-checked by induction over Read calls for an arbitrary decoder meeting Sane and Faithful (relative to Spec.inflate, tied to compress/flate by I); batchDecoder shows the contracts satisfiable and runs the Reader model on real DEFLATE bytes inside Lean. That the real decoder (tables, Go and AVX2 loops) is Faithful and makes progress on every valid stream is NOT proved: it is checked session by session (F: delivered bytes = the specification's output, io.EOF, source position), by the oracle (every block type / code shape family, all read-size schedules) and the R correspondence.",
         RT + LT, "DESIGN.md section 6 C02"),
 "C03": ("Lean 4 theorems over the Reader control model: no fabricated byte (also after Reset), io.EOF only after a complete stream, error kinds determined by the decoder's verdict and the source's EOF, errors sticky; decoder contracts Sane + Faithful; I, R and F correspondences (F: real sessions on valid, faulty, cut, flipped input judged by the Lean specification inflater: C03_checked_session_no_fabrication / _eof / _corrupt) + fault-injection oracle bounded by the permissive reference inflater (upper) and compress/flate (lower)",
         "Proof (partial): C03_no_fabrication, C03_reset_forgets, C03_eof_only_if_complete, C03_error_kinds, C03_sticky are kernel-checked for all inputs/histories under the decoder contracts. Not proved: absence of panics/hangs in the decoder proper and its Faithfulness on malformed input (stale tables, unassigned codes): oracle with 17 fault kinds, truncation at every byte, reuse after other streams, recovered panics + watchdog, at every level.",
         RT + LT, "DESIGN.md section 6 C03"),
 "C10": ("Lean 4 stream-composition proof: after every successful Flush the destination holds a chain of complete non-final blocks (ending with the empty stored block, byte aligned, nothing in the bit carry) that the specification inflater decodes to all data so far and then asks for more at a block boundary; the invariant continues to hold for later Write/Flush/Close; dynamic and Huffman-only compressors, and the gzip/zlib Writer models on top of them; correspondences I, W, H, ZW, GW, G, E + flush-prefix oracle with compress/flate and the reference inflater",
         "Proof (partial): C10_flush_point, C10_stream_stays_valid (dynamic compressor) and C10_flush_point_huff (Huffman-only) and C10_flush_point_zlib / C10_flush_point_gzip (container Writer models over any inner Writer meeting the stream contract; dynStream / huffStream prove the two flate Writer models meet it) are kernel-checked for ALL data and Write/Flush/Reset histories under the leaf contracts Sound / HSound (as C01). Oracle only: delegated levels, dictionaries, Latin-1/time conversions.",
         WT + LT, "DESIGN.md section 6 C10"),
 "C19": ("Lean 4: uint32/uint16 arithmetic of the window test (accepts exactly 1..window), distance-symbol table round trip over all 32768 distances (decide +kernel), regenerated facts on the code shape and constructor windows, and checkGen_sound: a recorded match-finder call that passes the executable check only emitted matches within the window; G correspondence applies that check to Go AND assembly match finders at every level; traced-inflater oracle on window-edge families",
         "Proof (partial): C19_accept_bounds, C19_reject_outside, C19_emitted_distance, C19_window, C19_checked_call are kernel-checked; C19_code_shape / C19_constructor_windows are decided over facts regenerated from /repo on every run. The assembly match finders have no Lean model: every recorded call is checked (G) and the maximum distance of every output is measured by the reference inflater at each level.",
         WT + " The fact extractor (/verif/extract) is trusted for the code-shape facts.", "DESIGN.md section 6 C19"),
 "C20": ("Lean 4 accounting theorem over the Writer control model (output = the blocks' bits + <8 padding bits, blocks partition the data; correspondences W, H, G, E) + measured bounds: the two numeric bounds are NOT proved, they are measured by the oracle on adversarial distributions and all periods 1..64 at every acceleration level",
         "Proof (partial, weakest claim of the set): C20_no_hidden_overhead is kernel-checked for all inputs and Write splits; the numeric bounds n + n/32 + 256 and n/32 + 1200 depend on the quality of the Huffman code generator, header coder and hash table, which are not modelled; they are decided by measurement only (oracle: uniform / near-uniform / Fibonacci-skewed / exact-count dominant-symbol inputs for expansion; every period 1..64, sizes 64 KiB..1 MiB for effectiveness).",
         WT + LT, "DESIGN.md section 6 C20"),
})

def main():
    props = [json.loads(l) for l in open(os.path.join(V, "properties.jsonl"))]
    checks, na = [], []
    for p in props:
        pid = p["id"]
        if pid in CLAIMED:
            tech, text, note, ref = CLAIMED[pid]
            checks.append({
                "property_id": pid,
                "quick_cmd": "python3 check.py %s --tier quick" % pid,
                "thorough_cmd": "python3 check.py %s --tier thorough" % pid,
                "evidence_file": "/verif/evidence/%s.json" % pid,
                "replay_cmd_template": "python3 check.py %s --replay {path}" % pid,
                "engine": "lean4+go-harness",
                "level_claimed": {"category": "proof", "text": text, "design_ref": ref},
                "level_note": note,
                "technique": tech,
            })
        else:
            na.append({"property_id": pid, "reason": NA.get(pid, "not claimed in this commit: the Lean property module for it is not written yet (the direct oracle exists in /verif/harness)")})
    m = {
        "version": 1,
        "setup_cmd": "sh /verif/setup.sh",
        "hooks": {
            "guard": "verif",
            "enable": "go build -tags verif (harness module /verif/harness with `replace github.com/intel/fastgo => /repo`); FASTGO_VERIF_ARCHLEVEL=<0|1|3|4> selects the acceleration level",
            "baseline_off_cmd": "cd /repo && GOFLAGS=-mod=mod GOPROXY=off GOSUMDB=off go test -vet=off -count=1 ./...",
            "source_commits": repo_commits(),
            "add_only": True,
        },
        "engines": [
            {"name": "lean4+go-harness", "path": "/verif/check.py", "serves_properties": sorted(CLAIMED),
             "kind_free_text": "Lean 4 models and theorems (/verif/lean, lake build, #print axioms audit), regenerated facts (/verif/extract), correspondence harness in Go (/verif/harness) driving the compiled model driver fgmodel over a line protocol, direct oracles per property as failing-input search"},
        ],
        "checks": checks,
        "not_applicable": na,
        "notes": "See DESIGN.md. KNOWN-FINDING lines are listed in known_findings.txt. Checks rebuild the harness from /repo's working tree on every run (cache keyed by a hash of the tree).",
    }
    json.dump(m, open(os.path.join(V, "MANIFEST.json"), "w"), indent=1)
    print("claimed", len(checks), "not_applicable", len(na))

NA = {}
if __name__ == "__main__":
    main()
