"""Lean side of a check: regenerate facts from /repo, rebuild the property module, audit axioms."""
import os
import re

ALLOWED = {"propext", "Quot.sound", "Classical.choice"}
BANNED = re.compile(r"\b(sorry|admit|native_decide|bv_decide|implemented_by|unsafe|maxHeartbeats\s+0)\b|^\s*axiom\s", re.M)


def strip_comments(src):
    src = re.sub(r"/-.*?-/", "", src, flags=re.S)
    src = re.sub(r"--.*", "", src)
    return src


def run(prop, tier, V, REPO, CACHE, GOENV, sh, Lock, log):
    lean = os.path.join(V, "lean")
    mod = "FastgoModel.Props.%s" % prop
    cmd = "cd /verif/lean && lake build %s" % mod
    if not os.path.exists(os.path.join(lean, "FastgoModel", "Props", prop + ".lean")):
        return [], cmd, "no Lean module yet"
    obligations = []
    with Lock("lake"):
        # 1. regenerate the facts from the working tree
        gen = os.path.join(lean, "FastgoModel", "Gen", "Facts.lean")
        ext = os.path.join(V, "extract")
        if os.path.isdir(ext):
            rc, so, se = sh(["go", "run", ".", "-repo", REPO, "-out", gen + ".new"], cwd=ext, env=GOENV, timeout=300)
            if rc != 0:
                obligations.append(dict(name="Gen.Facts(extract)", kind="fact-extraction", ok=False, detail=se[-3000:]))
            else:
                old = open(gen).read() if os.path.exists(gen) else ""
                new = open(gen + ".new").read()
                if old != new:
                    os.replace(gen + ".new", gen)
                else:
                    os.remove(gen + ".new")
        # 2. build the property module (re-checks model, theorems, fact theorems)
        rc, so, se = sh(["lake", "build", mod], cwd=lean, timeout=3000)
        build_ok = rc == 0
        build_log = (so + se)
    # 3. audit
    src = open(os.path.join(lean, "FastgoModel", "Props", prop + ".lean")).read()
    names = re.findall(r"^#print axioms\s+(\S+)", src, re.M)
    if not build_ok:
        # which theorem broke? report each as undischarged with the build log
        errs = build_log[-6000:]
        for n in names or [mod]:
            obligations.append(dict(name=n, kind="theorem", ok=False, detail=errs))
        return obligations, cmd, "build failed"
    # banned constructs anywhere in the project sources
    bad = []
    for d, _, files in os.walk(os.path.join(lean, "FastgoModel")):
        for f in files:
            if f.endswith(".lean"):
                s = strip_comments(open(os.path.join(d, f)).read())
                m = BANNED.search(s)
                if m:
                    bad.append("%s: %s" % (f, m.group(0).strip()))
    # axioms: parse the build log of this module (lake replays the log of up-to-date modules)
    rc, so, se = sh(["lake", "env", "lean", os.path.join("FastgoModel", "Props", prop + ".lean")], cwd=lean, timeout=3000)
    out = so + se
    ax = {}
    for m in re.finditer(r"'([^']+)' depends on axioms: \[([^\]]*)\]", out):
        ax[m.group(1)] = [a.strip() for a in m.group(2).replace("\n", " ").split(",") if a.strip()]
    for m in re.finditer(r"'([^']+)' does not depend on any axioms", out):
        ax[m.group(1)] = []
    for n in names:
        short = n.split(".")[-1]
        key = next((k for k in ax if k == n or k.endswith("." + short) or k == short), None)
        if key is None:
            obligations.append(dict(name=n, kind="theorem", ok=False, detail="no #print axioms output for " + n + "\n" + out[-1500:]))
            continue
        extra = [a for a in ax[key] if a not in ALLOWED]
        ok = not extra and not bad
        obligations.append(dict(name=n, kind="theorem", ok=ok, axioms=",".join(ax[key]) or "none",
                                detail=("axioms outside the allowed set: %s" % extra if extra else "") + ("; banned constructs: %s" % bad if bad else "")))
    if tier == "thorough":
        rc, so, se = sh(["lake", "env", "leanchecker", mod], cwd=lean, timeout=3000)
        obligations.append(dict(name="leanchecker(%s)" % mod, kind="recheck", ok=rc == 0, detail=(so + se)[-2000:]))
        cmd += " && lake env leanchecker %s" % mod
    return obligations, cmd, None
