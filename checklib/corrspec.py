"""Which model<->implementation correspondences each property depends on (kind -> cases quick/thorough).

I : Lean spec inflater  vs Go reference inflater vs compress/flate (valid, faulty, truncated, flipped, dictionary streams)
W : Lean Writer control model with replayed leaves vs the implementation, lock-step counters/results/destination calls
"""
KINDS = {
    "C01": ["I", "W"],
    "C02": ["I"],
    "C03": ["I"],
    "C09": ["W"],
    "C10": ["I", "W"],
    "C12": ["W"],
    "C14": ["W"],
    "C16": ["W"],
    "C19": ["I", "W"],
    "C20": ["W"],
}
COUNT = {"I": (300, 3000), "W": (600, 6000)}
