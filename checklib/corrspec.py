"""Which model<->implementation correspondences each property depends on (kind -> cases quick/thorough)."""
KINDS = {}
COUNT = {}
