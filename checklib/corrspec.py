"""Which model<->implementation correspondences each property depends on (kind -> cases quick/thorough).

I : Lean spec inflater  vs Go reference inflater vs compress/flate (valid, faulty, truncated, flipped, dictionary streams)
W : Lean Writer control model with replayed leaves vs the implementation, lock-step counters/results/destination calls
R : Lean Reader control model (bufio + step/Read bookkeeping) with a replayed decoder vs the implementation, lock-step
H : Lean control model of the Huffman-only compressor (level -2) with a replayed block encoder vs the implementation, lock-step
ZW, GW : Lean control models of zlib.Writer / gzip.Writer (lazy header, sticky error, closed flag, checksum, trailer) over the
    flate Writer control model with replayed leaves vs the implementation, lock-step incl. header and trailer bytes
G : Lean leaf-contract check `checkGen` (proved to imply Sound.gen and the C19 window discipline for the call) applied to
    recorded match-finder calls: buffer given, tokens appended; at EVERY acceleration level (Go and assembly finders)
E : Lean leaf-contract check `checkEnc` (proved, via the frame theorem of the specification inflater, to imply the `enc`
    clause of Writer.Sound / HSound for the call) applied to EVERY block the real block encoders emit (Huffman code
    generation, dynamic header, token / byte packing in Go or assembly, bit buffer), at every acceleration level
F : Lean session check `checkFaithful` (meaning proved in Reader/FaithfulCheck.lean): complete sessions of the real flate
    Reader (every acceleration level, random chunking / bufio size / Read sizes; valid, synthesised, faulty, cut, flipped
    streams followed by foreign bytes) judged by the specification inflater directly: delivered bytes are a prefix of its
    output, io.EOF iff complete and completely delivered with the source exactly behind the final block, error kinds
S : Lean stream check `checkStream` applied to whole streams the real flate Writers emit; `inflate_frame` /
    `specInflater_exact` prove that a checked stream decodes to the same data whatever follows and that the specification
    inflater stops exactly behind it (C05 at the level of the specification; removes the abstract inflater contract from the
    gzip read-back theorem)
FG : whole gzip files (several members, both encoders; intact, + garbage, cut, bit flipped) through the REAL gzip Reader vs
    the Lean Reader model `readAllMembers` over the specification inflater (header grammar, CRC-32, ISIZE, member loop)
FZ : the same for zlib streams followed by the caller's bytes through a *bufio.Reader: outcome, payload and the number of bytes
    left in the source after io.EOF vs the Lean model `readZlib` over the specification inflater
K : Lean checksum / gzip / zlib header and trailer definitions vs hash/crc32, hash/adler32 and fastgo's container bytes
"""
KINDS = {
    "C01": ["I", "W", "H", "G", "E", "S"],
    "C02": ["I", "R", "F"],
    "C03": ["I", "R", "F"],
    "C04": ["R"],
    "C05": ["R", "F", "S", "FZ"],
    "C06": ["K", "ZW", "GW", "FG", "FZ"],
    "C07": ["K", "FG", "FZ"],
    "C08": ["K", "FG"],
    "C09": ["W"],
    "C10": ["I", "W", "H", "ZW", "GW", "G", "E", "S"],
    "C11": ["R"],
    "C12": ["W", "ZW", "GW"],
    "C13": ["R"],
    "C14": ["W", "ZW", "GW"],
    "C15": ["R"],
    "C16": ["W", "ZW", "GW"],
    "C18": ["R", "W", "G", "E", "F"],
    "C19": ["I", "W", "G"],
    "C20": ["W", "H", "G", "E"],
}
COUNT = {"I": (300, 3000), "W": (600, 6000), "R": (400, 4000), "K": (600, 6000), "G": (600, 6000), "H": (400, 4000), "ZW": (300, 3000), "GW": (300, 3000), "E": (120, 1500), "F": (300, 3000), "S": (200, 2000), "FG": (300, 3000), "FZ": (300, 3000)}
PER_LEVEL = {"G", "E", "F", "S", "FG", "FZ"}
