"""Correspondence between the Lean model driver (fgmodel) and the implementation."""
import os


def run(prop, tier, seed, binary, V, CACHE, GOENV, sh, Lock, log, levels=(0,)):
    drv = os.path.join(V, "lean", ".lake", "build", "bin", "fgmodel")
    if not os.path.exists(drv):
        return []
    from checklib import corrspec
    from concurrent.futures import ThreadPoolExecutor
    jobs = []
    for kind in corrspec.KINDS.get(prop, []):
        n = corrspec.COUNT[kind][0 if tier == "quick" else 1]
        # the control-model correspondences run at level 0 (the control flow does not depend on the level);
        # the leaf-contract checks G and E run at every level the tier selects (Go and assembly leaves)
        for lvl in (levels if kind in corrspec.PER_LEVEL else (0,)):
            jobs.append((kind, n, lvl))

    def one(job):
        kind, n, lvl = job
        name = "corr/" + kind + ("@L%d" % lvl if kind in corrspec.PER_LEVEL else "")
        env = dict(GOENV, FASTGO_VERIF_ARCHLEVEL=str(lvl), FGMODEL=drv)
        try:
            rc, so, se = sh([binary, "-corr", kind, "-tier", tier, "-seed", str(seed), "-n", str(n)], env=env, timeout=2400)
        except Exception as e:  # timeout
            return dict(name=name, kind="correspondence", ok=False, detail="timeout/exception %s" % e)
        ok = rc == 0
        return dict(name=name, kind="correspondence", ok=ok, detail=(so[-3000:] + se[-3000:]) if not ok else so[-400:])

    with ThreadPoolExecutor(max_workers=6) as ex:  # independent processes; results keep the order of `jobs`
        return list(ex.map(one, jobs))
