"""Correspondence between the Lean model driver (fgmodel) and the implementation."""
import os


def run(prop, tier, seed, binary, V, CACHE, GOENV, sh, Lock, log):
    drv = os.path.join(V, "lean", ".lake", "build", "bin", "fgmodel")
    if not os.path.exists(drv):
        return []
    obligations = []
    from checklib import corrspec
    for kind in corrspec.KINDS.get(prop, []):
        n = corrspec.COUNT[kind][0 if tier == "quick" else 1]
        env = dict(GOENV, FASTGO_VERIF_ARCHLEVEL="0", FGMODEL=drv)
        try:
            rc, so, se = sh([binary, "-corr", kind, "-tier", tier, "-seed", str(seed), "-n", str(n)], env=env, timeout=1200)
        except Exception as e:  # timeout
            obligations.append(dict(name="corr/" + kind, kind="correspondence", ok=False, detail="timeout/exception %s" % e))
            continue
        ok = rc == 0
        obligations.append(dict(name="corr/" + kind, kind="correspondence", ok=ok, detail=(so[-3000:] + se[-3000:]) if not ok else so[-300:]))
    return obligations
