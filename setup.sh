#!/bin/sh
# Build the framework from files on disk only (offline): Lean library + model driver, Go harness.
set -e
cd "$(dirname "$0")"
mkdir -p .cache evidence replays corpus
export GOFLAGS=-mod=mod GOPROXY=off GOSUMDB=off GOTOOLCHAIN=local GOCACHE="$PWD/.cache/gocache"
(cd lean && lake build FastgoModel fgmodel 2>&1 | tail -5)
python3 - <<'PY'
import sys
sys.path.insert(0, '.')
import check
b, e = check.build_harness("verif")
print("harness:", b or e)
PY
