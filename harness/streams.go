package main

import (
	"bytes"
	sflate "compress/flate"
	sgzip "compress/gzip"
	szlib "compress/zlib"
	"io"
)

// stdStreamWithFlushes encodes segs with the standard library, flushing after each segment but the last.
// points[i] = number of stream bytes emitted at flush i (last = whole stream); datas[i] = data bytes before it.
func stdStreamWithFlushes(pkg string, lvl int, segs [][]byte) (stream []byte, points, datas []int) {
	var b bytes.Buffer
	var w anyWriter
	switch pkg {
	case "flate":
		w, _ = sflate.NewWriter(&b, lvl)
	case "gzip":
		w, _ = sgzip.NewWriterLevel(&b, lvl)
	case "zlib":
		w, _ = szlib.NewWriterLevel(&b, lvl)
	}
	n := 0
	for i, s := range segs {
		w.Write(s)
		n += len(s)
		if i != len(segs)-1 {
			w.Flush()
			points = append(points, b.Len())
			datas = append(datas, n)
		}
	}
	w.Close()
	points = append(points, b.Len())
	datas = append(datas, n)
	return b.Bytes(), points, datas
}

// genContainerStream returns a valid stream for pkg (flate: raw deflate).
func genContainerStream(r *Rng, pkg, tier string) (stream, out []byte, how string) {
	if pkg == "flate" {
		return genValidStream(r, tier)
	}
	_, data := RandPayload(r, 70000)
	lvl := allLevels[r.Intn(len(allLevels))]
	std := r.Bool()
	var b bytes.Buffer
	w, _ := newWriter(WCfg{Pkg: pkg, Level: lvl}, &b, std)
	for _, op := range SplitOps(r, data, r.Intn(5), r.Pick([]int{0, 0, 30})) {
		if op.K == "W" {
			w.Write(op.D)
		} else {
			w.Flush()
		}
	}
	w.Close()
	how = "fastgo:" + pkg
	if std {
		how = "stdlib:" + pkg
	}
	// only streams the standard library accepts
	chk, err := stdDecode(WCfg{Pkg: pkg}, b.Bytes())
	if err != nil || !bytes.Equal(chk, data) {
		var b2 bytes.Buffer
		w2, _ := newWriter(WCfg{Pkg: pkg, Level: lvl}, &b2, true)
		w2.Write(data)
		w2.Close()
		return b2.Bytes(), data, "stdlib:" + pkg
	}
	return b.Bytes(), data, how
}

var _ = io.EOF

func stdDeflate(d []byte, lvl int) []byte {
	var b bytes.Buffer
	w, _ := sflate.NewWriter(&b, lvl)
	w.Write(d)
	w.Close()
	return b.Bytes()
}
