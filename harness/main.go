package main

import (
	"encoding/hex"
	"encoding/json"
	"flag"
	"fmt"
	"os"
	"runtime"
	"sort"
	"strconv"
	"strings"
	"sync"
	"time"

	"github.com/intel/fastgo"
)

// HexB is a byte slice that is written as a hex string in JSON.
type HexB []byte

func (h HexB) MarshalJSON() ([]byte, error) { return json.Marshal(hex.EncodeToString(h)) }
func (h *HexB) UnmarshalJSON(b []byte) error {
	var s string
	if err := json.Unmarshal(b, &s); err != nil {
		return err
	}
	d, err := hex.DecodeString(s)
	*h = d
	return err
}

// Case is one self-contained, replayable test case of one property.
type Case struct {
	Prop    string   `json:"prop"`
	Kind    string   `json:"kind,omitempty"`
	Cfg     *WCfg    `json:"cfg,omitempty"`
	Ops     []Op     `json:"ops,omitempty"`
	Ops2    []Op     `json:"ops2,omitempty"`
	FailAt  int      `json:"fail_at,omitempty"`
	Stream  HexB     `json:"stream,omitempty"`
	Stream2 HexB     `json:"stream2,omitempty"`
	Suffix  HexB     `json:"suffix,omitempty"`
	Dict    HexB     `json:"dict,omitempty"`
	Chunks  []int    `json:"chunks,omitempty"` // source delivery schedule (sizes; 0 = one byte at a time...)
	EOFWith bool     `json:"eof_with_data,omitempty"`
	BufSize int      `json:"bufsize,omitempty"`
	Reads   []int    `json:"reads,omitempty"` // destination buffer sizes (cycled)
	Src     string   `json:"src,omitempty"`
	Ctor    string   `json:"ctor,omitempty"`
	Pkg     string   `json:"pkg,omitempty"`
	K       int      `json:"k,omitempty"`
	Ints    []int    `json:"ints,omitempty"`
	Strs    []string `json:"strs,omitempty"`
	Note    string   `json:"note,omitempty"`
	Sig     string   `json:"-"` // distinctness signature (filled by the generator or the oracle)
	Trivial bool     `json:"-"`
}

type Violation struct {
	Prop  string `json:"property"`
	Key   string `json:"key"`
	Msg   string `json:"msg"`
	Level int    `json:"arch_level"`
	Tags  string `json:"build_tags"`
	Case  Case   `json:"case"`
}

type Result struct {
	Prop        string                 `json:"property"`
	Level       int                    `json:"arch_level"`
	Requested   int                    `json:"arch_level_requested"`
	Capability  int                    `json:"arch_capability"`
	Tier        string                 `json:"tier"`
	Seed        uint64                 `json:"seed"`
	Evaluations int                    `json:"evaluations"`
	Distinct    int                    `json:"distinct_nontrivial"`
	Rule        string                 `json:"rule"`
	Samples     []json.RawMessage      `json:"samples"`
	Dist        map[string]int         `json:"distribution"`
	Violations  []Violation            `json:"violations"`
	WallS       float64                `json:"wall_s"`
	Digests     map[string]string      `json:"digests,omitempty"`
	Extra       map[string]interface{} `json:"extra,omitempty"`
}

// Property describes generator + oracle of one property.
type Property struct {
	ID    string
	Rule  string
	Gen   func(r *Rng, tier string) []Case
	Check func(c *Case, st *Stats) *Violation
	// Serial forces single-threaded evaluation (timing sensitive / own concurrency).
	Serial bool
}

type Stats struct {
	mu      sync.Mutex
	dist    map[string]int
	digests map[string]string
	extra   map[string]interface{}
}

func (s *Stats) Count(k string) {
	s.mu.Lock()
	s.dist[k]++
	s.mu.Unlock()
}
func (s *Stats) Digest(k, v string) {
	s.mu.Lock()
	s.digests[k] = v
	s.mu.Unlock()
}

var properties = map[string]*Property{}

func register(p *Property) { properties[p.ID] = p }

var archLevel int
var buildTags = "verif"

func main() {
	prop := flag.String("prop", "", "property id")
	tier := flag.String("tier", "quick", "quick|thorough")
	seedS := flag.String("seed", "1", "seed")
	out := flag.String("out", "", "result json path")
	replay := flag.String("replay", "", "replay file (a violation json or a case json)")
	par := flag.Int("par", runtime.NumCPU(), "parallelism")
	emit := flag.String("emit", "", "emit model case lines of this kind to stdout (I,W,R,...)")
	n := flag.Int("n", 0, "count for -emit / -corr")
	corrKind := flag.String("corr", "", "run the model correspondence of this kind against $FGMODEL")
	dump := flag.Int("dump", -1, "print the generated case whose K field equals this value and exit")
	flag.Parse()
	seed, _ := strconv.ParseUint(*seedS, 10, 64)
	var reqLevel, capLevel int
	archLevel, reqLevel, capLevel = fastgo.VerifArchLevel()
	if *emit != "" {
		emitModelCases(*emit, NewRng(seed), *tier, *n)
		return
	}
	if *prop == "CAP" {
		fmt.Printf("level=%d requested=%d capability=%d\n", archLevel, reqLevel, capLevel)
		return
	}
	if *corrKind != "" {
		os.Exit(runCorrespondence(*corrKind, NewRng(seed), *tier, *n))
	}
	p := properties[*prop]
	if p == nil {
		fmt.Fprintln(os.Stderr, "unknown property", *prop)
		os.Exit(2)
	}
	st := &Stats{dist: map[string]int{}, digests: map[string]string{}, extra: map[string]interface{}{}}
	res := Result{Prop: p.ID, Level: archLevel, Requested: reqLevel, Capability: capLevel,
		Tier: *tier, Seed: seed, Rule: p.Rule}
	start := time.Now()
	var cases []Case
	if *replay != "" {
		data, err := os.ReadFile(*replay)
		if err != nil {
			fmt.Fprintln(os.Stderr, err)
			os.Exit(2)
		}
		var v Violation
		if err := json.Unmarshal(data, &v); err == nil && v.Case.Prop != "" {
			cases = []Case{v.Case}
		} else {
			var c Case
			if err := json.Unmarshal(data, &c); err != nil {
				fmt.Fprintln(os.Stderr, "cannot parse replay:", err)
				os.Exit(2)
			}
			cases = []Case{c}
		}
	} else {
		gen := p.Gen(NewRng(seed), *tier)
		if *dump >= 0 {
			for _, c := range gen {
				if c.K == *dump {
					b, _ := json.Marshal(c)
					os.Stdout.Write(b)
					return
				}
			}
			return
		}
		cases = corpusCases(p.ID)
		cases = append(cases, gen...)
	}
	res.Evaluations = len(cases)
	sigs := map[string]bool{}
	var mu sync.Mutex
	workers := *par
	if p.Serial {
		workers = 1
	}
	var wg sync.WaitGroup
	ch := make(chan int)
	for w := 0; w < workers; w++ {
		wg.Add(1)
		go func() {
			defer wg.Done()
			for i := range ch {
				c := &cases[i]
				v := safeCheck(p, c, st)
				mu.Lock()
				if !c.Trivial && c.Sig != "" {
					sigs[c.Sig] = true
				}
				if v != nil {
					v.Level = archLevel
					v.Tags = buildTags
					v.Prop = p.ID
					res.Violations = append(res.Violations, *v)
				}
				mu.Unlock()
			}
		}()
	}
	for i := range cases {
		ch <- i
	}
	close(ch)
	wg.Wait()
	res.Distinct = len(sigs)
	for i := 0; i < len(cases) && len(res.Samples) < 3; i += 1 + len(cases)/3 {
		c := cases[i]
		shrinkForSample(&c)
		b, _ := json.Marshal(c)
		res.Samples = append(res.Samples, b)
	}
	if res.Violations == nil {
		res.Violations = []Violation{}
	}
	sort.Slice(res.Violations, func(i, j int) bool { return res.Violations[i].Key < res.Violations[j].Key })
	res.Dist = st.dist
	res.Digests = st.digests
	res.Extra = st.extra
	res.WallS = time.Since(start).Seconds()
	b, _ := json.MarshalIndent(res, "", " ")
	if *out != "" {
		os.WriteFile(*out, b, 0o644)
	} else {
		os.Stdout.Write(b)
	}
	if len(res.Violations) > 0 {
		for _, v := range res.Violations {
			fmt.Fprintf(os.Stderr, "violation %s key=%s level=%d: %s\n", v.Prop, v.Key, v.Level, v.Msg)
		}
		os.Exit(1)
	}
}

func shrinkForSample(c *Case) {
	cut := func(h HexB) HexB {
		if len(h) > 48 {
			return append(append(HexB{}, h[:48]...))
		}
		return h
	}
	if len(c.Stream) > 48 || len(c.Stream2) > 48 {
		c.Note += fmt.Sprintf(" [sample truncated: stream %d bytes]", len(c.Stream))
	}
	c.Stream, c.Stream2, c.Suffix, c.Dict = cut(c.Stream), cut(c.Stream2), cut(c.Suffix), cut(c.Dict)
	trim := func(ops []Op) []Op {
		var o []Op
		for i, op := range ops {
			if i >= 8 {
				break
			}
			if len(op.D) > 24 {
				op.D = append(HexB{}, op.D[:24]...)
			}
			o = append(o, op)
		}
		return o
	}
	if len(c.Ops) > 0 {
		c.Note += fmt.Sprintf(" [sample: %d ops, %d data bytes, shape %s]", len(c.Ops), len(opsData(c.Ops)), opsShape(c.Ops))
	}
	c.Ops, c.Ops2 = trim(c.Ops), trim(c.Ops2)
	if len(c.Chunks) > 16 {
		c.Chunks = c.Chunks[:16]
	}
}

// safeCheck runs the oracle under recover and a watchdog.
func safeCheck(p *Property, c *Case, st *Stats) (v *Violation) {
	done := make(chan *Violation, 1)
	go func() {
		defer func() {
			if r := recover(); r != nil {
				buf := make([]byte, 4096)
				n := runtime.Stack(buf, false)
				done <- &Violation{Key: "panic", Msg: fmt.Sprintf("panic in oracle/implementation: %v\n%s", r, firstLines(string(buf[:n]), 14)), Case: *c}
			}
		}()
		done <- p.Check(c, st)
	}()
	// the allowance grows with the input: a multi-megabyte stream delivered one byte per source Read, under an
	// oracle that runs several decoders, legitimately takes minutes on a loaded machine
	limit := watchdog + time.Duration(len(c.Stream)+len(c.Stream2))*time.Second/8000
	select {
	case v = <-done:
		return v
	case <-time.After(limit):
		return &Violation{Key: "hang", Msg: fmt.Sprintf("no result within %v (hang)", limit), Case: *c}
	}
}

var watchdog = 120 * time.Second

func firstLines(s string, n int) string {
	l := strings.Split(s, "\n")
	if len(l) > n {
		l = l[:n]
	}
	return strings.Join(l, "\n")
}

// corpusCases loads minimized past failures; they run first.
func corpusCases(prop string) []Case {
	dir := os.Getenv("VERIF_CORPUS")
	if dir == "" {
		return nil
	}
	ents, _ := os.ReadDir(dir)
	var cs []Case
	for _, e := range ents {
		if !strings.HasPrefix(e.Name(), prop+"_") || !strings.HasSuffix(e.Name(), ".json") {
			continue
		}
		data, err := os.ReadFile(dir + "/" + e.Name())
		if err != nil {
			continue
		}
		var v Violation
		if json.Unmarshal(data, &v) == nil && v.Case.Prop == prop {
			v.Case.Note += " [corpus " + e.Name() + "]"
			cs = append(cs, v.Case)
		}
	}
	return cs
}

func viol(c *Case, key, format string, a ...interface{}) *Violation {
	return &Violation{Key: key, Msg: fmt.Sprintf(format, a...), Case: *c}
}

func tierN(tier string, quick, thorough int) int {
	if tier == "thorough" {
		return thorough
	}
	return quick
}
