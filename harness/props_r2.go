package main

import (
	"bytes"
	"fmt"
	"io"
)

func init() {
	// ------------------------------------------------------------------ C05
	register(&Property{ID: "C05",
		Rule: "valid streams (flate/gzip/zlib) followed by a suffix of length {0,1,7,8,9,4096,random} x source kinds {bufio of 16..64K, bytes.Reader, bytes.Buffer, strings.Reader, custom ByteReader} x constructors {NewReader, Reset}; after io.EOF the unread part of the source must equal the suffix; non-trivial = non-empty suffix; distinct by (pkg, source kind, ctor, suffix length class, origin)",
		Gen: func(r *Rng, tier string) []Case {
			var cs []Case
			kinds := []string{"bufio:16", "bufio:32", "bufio:64", "bufio:1024", "bufio:4095", "bufio:4096", "bufio:4097", "bufio:65536", "bytes.Reader", "bytes.Buffer", "strings.Reader", "custom"}
			for i := 0; i < tierN(tier, 400, 4000); i++ {
				pkg := r.Pick2("flate", "flate", "gzip", "zlib")
				s, _, how := genContainerStream(r, pkg, tier)
				sl := r.Pick([]int{0, 1, 7, 8, 9, 4096, 1 + r.Intn(100), 5000 + r.Intn(5000)})
				suffix := r.Bytes(sl)
				if r.Intn(3) == 0 && sl > 0 {
					// a suffix that looks like more compressed data
					copy(suffix, s)
				}
				c := Case{Prop: "C05", Pkg: pkg, Stream: s, Suffix: suffix, Src: kinds[r.Intn(len(kinds))], Ctor: r.Pick2("new", "reset"), Reads: readPattern(r), Chunks: chunkPattern(r), Note: how}
				cs = append(cs, c)
			}
			return cs
		},
		Check: func(c *Case, st *Stats) *Violation {
			data := append(append([]byte{}, c.Stream...), c.Suffix...)
			src, rest := makeSource(c.Src, data, c)
			rd, err := newFastReader(c.Pkg, c.Ctor, src, nil)
			if err != nil {
				return viol(c, "ctor/"+c.Pkg, "constructor failed on a valid stream: %v", err)
			}
			if c.Pkg == "gzip" {
				rd.(interface{ Multistream(bool) }).Multistream(false)
			}
			run := runReader(rd, c.Reads, 1<<23)
			if v := basicReaderViolations(c, run); v != nil {
				return v
			}
			kind := c.Src
			if len(kind) > 5 && kind[:5] == "bufio" {
				kind = "bufio"
			}
			if run.Err != io.EOF {
				return viol(c, fmt.Sprintf("overread/%s/src=%s/ctor=%s", c.Pkg, kind, c.Ctor), "valid %s stream followed by %d suffix bytes, %s Reader (%s) over %s: ended with %v instead of io.EOF (the trailer was not where the Reader looked for it)", c.Pkg, len(c.Suffix), c.Pkg, c.Ctor, c.Src, run.Err)
			}
			left := rest()
			if !bytes.Equal(left, c.Suffix) {
				return viol(c, fmt.Sprintf("overread/%s/src=%s/ctor=%s", c.Pkg, kind, c.Ctor), "%s Reader (%s) over %s: after io.EOF %d bytes are left in the source, want the %d-byte suffix intact (stream %d bytes)", c.Pkg, c.Ctor, c.Src, len(left), len(c.Suffix), len(c.Stream))
			}
			st.Count("src:" + c.Src)
			c.Sig = fmt.Sprintf("%s|%s|%s|%d|%s", c.Pkg, c.Src, c.Ctor, sizeClass(len(c.Suffix)), originOf(c.Note))
			c.Trivial = len(c.Suffix) == 0
			return nil
		}})

	// ------------------------------------------------------------------ C11
	register(&Property{ID: "C11",
		Rule: "streams with sync-flush points; a gated source delivers exactly the prefix up to a flush point (or the stream end) in a random chunking and then blocks forever / fails / delivers unrelated bytes; the Reader must hand out all data encoded before that point (and io.EOF at the stream end) before touching the source again; non-trivial = data before the point non-empty; distinct by (pkg, point kind, after-behaviour, chunk pattern, size class)",
		Gen: func(r *Rng, tier string) []Case {
			var cs []Case
			for i := 0; i < tierN(tier, 300, 3000); i++ {
				pkg := r.Pick2("flate", "flate", "gzip", "zlib")
				lvl := allLevels[r.Intn(len(allLevels))]
				// build with the standard library so that C11 does not depend on fastgo's writer
				nseg := 1 + r.Intn(3)
				var segs [][]byte
				for k := 0; k < nseg; k++ {
					_, d := RandPayload(r, r.Pick([]int{20, 300, 9000, 70000}))
					segs = append(segs, d)
				}
				stream, points, datas := stdStreamWithFlushes(pkg, lvl, segs)
				if i%4 == 3 {
					// raw streams whose LAST block is of any kind (a non-empty stored block, a fixed or dynamic block ending
					// on any bit offset): neither writer produces these endings; the point is the stream end
					s, out, _ := Synthesize(r, SynthOpts{MaxBlocks: r.Pick([]int{1, 2, 3}), MaxTokens: r.Pick([]int{5, 60, 600}), StdCompat: true, LastStored: i%8 == 3, BigStored: r.Intn(3) == 0})
					if chk, err := stdDecode(WCfg{Pkg: "flate"}, s); err == nil && bytes.Equal(chk, out) {
						pkg, stream, points, datas = "flate", s, []int{len(s)}, []int{len(out)}
					}
				}
				pi := r.Intn(len(points))
				c := Case{Prop: "C11", Pkg: pkg, Stream: stream, K: points[pi], Ints: []int{datas[pi], b2i(pi == len(points)-1)},
					Kind: r.Pick2("block", "error", "garbage"), Chunks: chunkPattern(r), Reads: readPattern(r), Ctor: r.Pick2("new", "reset"), Src: r.Pick2("plain", "bufio:4096", "bufio:64")}
				cs = append(cs, c)
			}
			return cs
		},
		Check: checkC11})
}

type gateBlocked struct{}

// gatedSrc releases data[:gate] according to the chunk schedule, then: "block" panics with gateBlocked
// (the Reader would wait forever), "error" returns an injected error, "garbage" delivers unrelated bytes.
type gatedSrc struct {
	data   []byte
	gate   int
	pos    int
	chunks []int
	ci     int
	after  string
	asked  int // Read calls beyond the gate
	junk   *Rng
}

func (g *gatedSrc) Read(p []byte) (int, error) {
	if len(p) == 0 {
		return 0, nil
	}
	if g.pos >= g.gate {
		g.asked++
		switch g.after {
		case "block":
			panic(gateBlocked{})
		case "error":
			return 0, errSrcInjected
		default:
			b := g.junk.Bytes(len(p))
			copy(p, b)
			return len(p), nil
		}
	}
	n := len(p)
	if len(g.chunks) > 0 {
		c := g.chunks[g.ci%len(g.chunks)]
		g.ci++
		if c >= 1 && c < n {
			n = c
		}
	}
	if g.pos+n > g.gate {
		n = g.gate - g.pos
	}
	copy(p, g.data[g.pos:g.pos+n])
	g.pos += n
	return n, nil
}

func checkC11(c *Case, st *Stats) *Violation {
	wantLen, atEnd := c.Ints[0], c.Ints[1] == 1
	full, err := stdDecode(WCfg{Pkg: c.Pkg}, c.Stream)
	if err != nil {
		return viol(c, "oracle", "stdlib cannot decode its own stream: %v", err)
	}
	want := full[:wantLen]
	g := &gatedSrc{data: c.Stream, gate: c.K, chunks: c.Chunks, after: c.Kind, junk: NewRng(7)}
	var src io.Reader = g
	if len(c.Src) > 6 && c.Src[:6] == "bufio:" {
		var n int
		fmt.Sscanf(c.Src, "bufio:%d", &n)
		src = newBufio(g, n)
	}
	var got []byte
	var finalErr error
	blocked := false
	func() {
		defer func() {
			if p := recover(); p != nil {
				if _, ok := p.(gateBlocked); ok {
					blocked = true
					return
				}
				panic(p)
			}
		}()
		rd, err := newFastReader(c.Pkg, c.Ctor, src, nil)
		if err != nil {
			finalErr = err
			return
		}
		multi := c.Pkg == "gzip" && c.K%2 == 1
		if c.Pkg == "gzip" && !multi {
			// in multistream mode a gzip Reader legitimately looks for a next member before io.EOF
			rd.(interface{ Multistream(bool) }).Multistream(false)
		}
		i := 0
		for {
			sz := c.Reads[i%len(c.Reads)]
			i++
			buf := make([]byte, sz)
			n, e := rd.Read(buf)
			got = append(got, buf[:n]...)
			if e != nil {
				finalErr = e
				return
			}
			if len(got) >= len(want) && (!atEnd || multi) {
				return // everything before the point has been delivered
			}
			if i > 1<<20 {
				finalErr = fmt.Errorf("no progress")
				return
			}
		}
	}()
	key := fmt.Sprintf("%s/%s/%s", c.Pkg, c.Kind, map[bool]string{true: "stream-end", false: "flush-point"}[atEnd])
	if len(got) < len(want) || !bytes.Equal(got[:len(want)], want) {
		what := fmt.Sprintf("ended with %v", finalErr)
		if blocked {
			what = "went back to the source, which blocks forever"
		}
		return viol(c, "withheld/"+key, "%s Reader (%s over %s): source delivered the %d bytes up to the %s; %d bytes of data are decodable from them but the Reader handed out %d and then %s", c.Pkg, c.Ctor, c.Src, c.K, map[bool]string{true: "end of the stream", false: "sync-flush point"}[atEnd], len(want), len(got), what)
	}
	if atEnd && !(c.Pkg == "gzip" && c.K%2 == 1) {
		if blocked {
			return viol(c, "eof-needs-more/"+key, "%s Reader: all %d bytes of the stream were delivered, the data was handed out, but io.EOF requires the source to deliver more (it blocks)", c.Pkg, c.K)
		}
		if finalErr != io.EOF {
			return viol(c, "eof-missing/"+key, "%s Reader: complete stream delivered, source then %ss; Reader ended with %v instead of io.EOF", c.Pkg, c.Kind, finalErr)
		}
	}
	st.Count("after:" + c.Kind)
	c.Sig = fmt.Sprintf("%s|%v|%s|%v|%d|%s|%s", c.Pkg, atEnd, c.Kind, c.Chunks, sizeClass(len(want)), c.Src, c.Ctor)
	c.Trivial = len(want) == 0
	return nil
}
