package main

import (
	"fmt"
)

// ---------------------------------------------------------------- PRNG
// All random choices derive from one splitmix64 state seeded by VERIF_SEED.

type Rng struct{ s uint64 }

func NewRng(seed uint64) *Rng { return &Rng{s: seed*0x9E3779B97F4A7C15 + 0x1234567} }

func (r *Rng) U64() uint64 {
	r.s += 0x9E3779B97F4A7C15
	z := r.s
	z = (z ^ (z >> 30)) * 0xBF58476D1CE4E5B9
	z = (z ^ (z >> 27)) * 0x94D049BB133111EB
	return z ^ (z >> 31)
}
func (r *Rng) Intn(n int) int {
	if n <= 0 {
		return 0
	}
	return int(r.U64() % uint64(n))
}
func (r *Rng) Range(lo, hi int) int { return lo + r.Intn(hi-lo+1) }
func (r *Rng) Bool() bool           { return r.U64()&1 == 1 }
func (r *Rng) Perm(n int) []int {
	p := make([]int, n)
	for i := range p {
		p[i] = i
	}
	for i := n - 1; i > 0; i-- {
		j := r.Intn(i + 1)
		p[i], p[j] = p[j], p[i]
	}
	return p
}
func (r *Rng) Pick(xs []int) int { return xs[r.Intn(len(xs))] }
func (r *Rng) Fork() *Rng        { return NewRng(r.U64()) }
func (r *Rng) Bytes(n int) []byte {
	b := make([]byte, n)
	for i := 0; i < n; i += 8 {
		v := r.U64()
		for j := 0; j < 8 && i+j < n; j++ {
			b[i+j] = byte(v >> (8 * j))
		}
	}
	return b
}

// ---------------------------------------------------------------- payloads

var payloadFamilies = []string{"empty", "one", "text", "alpha", "random", "nearuniform", "fib", "run", "periodic", "wedge", "alias", "mixed", "dominant", "gaps", "tokedge", "steeptail"}

var words = []string{"the", "quick", "brown", "fox", "jumps", "over", "lazy", "dog", "opticks", "light", "ray", "prism", "colour", "refraction", "and", "of", "in", "to", "is", "that", "by", "which", "experiment", "\n", ", ", ". "}

// Payload builds one payload of (about) n bytes from the named family.
func Payload(r *Rng, fam string, n int) []byte {
	switch fam {
	case "empty":
		return []byte{}
	case "one":
		return []byte{byte(r.Intn(256))}
	case "text":
		b := make([]byte, 0, n+16)
		for len(b) < n {
			b = append(b, words[r.Intn(len(words))]...)
			b = append(b, ' ')
		}
		return b[:n]
	case "alpha":
		k := 1 + r.Intn(r.Pick([]int{2, 4, 16, 64, 256}))
		b := make([]byte, n)
		base := byte(r.Intn(256))
		for i := range b {
			b[i] = base + byte(r.Intn(k))
		}
		return b
	case "random":
		return r.Bytes(n)
	case "nearuniform":
		b := r.Bytes(n)
		for i := 0; i < n; i += 37 {
			b[i] = 'e'
		}
		return b
	case "fib":
		// Fibonacci-skewed counts: forces very deep Huffman trees (length limiting).
		b := make([]byte, 0, n)
		a, c := 1, 1
		sym := 0
		for len(b) < n && sym < 40 {
			for i := 0; i < a && len(b) < n; i++ {
				b = append(b, byte(sym*5+1))
			}
			a, c = c, a+c
			sym++
		}
		for len(b) < n {
			b = append(b, byte(r.Intn(3)+200))
		}
		// shuffle lightly so it is not only runs
		for i := len(b) - 1; i > 0; i-- {
			j := r.Intn(i + 1)
			b[i], b[j] = b[j], b[i]
		}
		return b
	case "steeptail":
		// doubling counts for a few symbols and many symbols that occur exactly once, the rare ones ADJACENT at the
		// very end of the data: deepest (14/15-bit) codes next to each other in the scalar tail of the block
		// encoders (several maximal codes inside one 64-bit store).
		if n < 200 {
			n = 200
		}
		perm := r.Perm(256)
		nr := 20 + r.Intn(60) // rare symbols
		body := n - nr
		b := make([]byte, 0, n)
		cnt, sym := 64, nr
		if body < 4000 {
			cnt = 2
		}
		for len(b) < body && sym < 250 {
			for i := 0; i < cnt && len(b) < body; i++ {
				b = append(b, byte(perm[sym]))
			}
			cnt *= 2
			sym++
		}
		for len(b) < body {
			b = append(b, byte(perm[sym%256]))
		}
		for i := len(b) - 1; i > 0; i-- {
			j := r.Intn(i + 1)
			b[i], b[j] = b[j], b[i]
		}
		for i := 0; i < nr; i++ {
			b = append(b, byte(perm[i]))
		}
		return b
	case "run":
		b := make([]byte, 0, n)
		for len(b) < n {
			l := r.Pick([]int{1, 3, 4, 257, 258, 259, 260, 516, 517, 1000, 70000})
			v := byte(r.Intn(256))
			for i := 0; i < l && len(b) < n; i++ {
				b = append(b, v)
			}
		}
		return b
	case "periodic":
		p := r.Pick([]int{1, 2, 3, 4, 5, 7, 8, 16, 31, 64, 255, 256, 257, 258, 259, 300})
		unit := r.Bytes(p)
		b := make([]byte, n)
		for i := range b {
			b[i] = unit[i%p]
		}
		return b
	case "wedge":
		// repeats exactly at distance W-1, W, W+1 for W in {4096,32768}
		w := r.Pick([]int{4096, 32768})
		d := w + r.Pick([]int{-2, -1, 0, 1, 2})
		b := make([]byte, 0, n)
		for len(b) < n {
			seg := r.Bytes(r.Range(8, 40))
			fill := r.Bytes(d)
			copy(fill, seg)
			b = append(b, fill...)
			b = append(b, seg...)
		}
		if len(b) > n && n > d+48 {
			b = b[:n]
		}
		return b
	case "alias":
		// repeats spaced 65535..65537 apart (16-bit position aliasing in the hash table)
		d := 65536 + r.Pick([]int{-1, 0, 1})
		seg := r.Bytes(r.Range(8, 64))
		b := r.Bytes(d + len(seg) + r.Intn(64))
		copy(b, seg)
		copy(b[d:], seg)
		if r.Bool() {
			more := r.Bytes(d)
			copy(more[d-len(seg):], seg)
			b = append(b, more...)
			b = append(b, seg...)
		}
		return b
	case "dominant":
		// one byte value with a count near a 16-bit boundary inside each 64 KiB, the rest spread over many
		// values (symbol counts are truncated to 16 bits by the code-length generator), shuffled
		b := make([]byte, n)
		dom := byte(r.Intn(256))
		share := r.Pick([]int{32767, 32768, 32769, 49152, 65535 - 256})
		for i := range b {
			if (i % 65536) < share {
				b[i] = dom
			} else {
				b[i] = dom + byte(1+r.Intn(255)) // never the dominant value: its count is exact
			}
		}
		for blk := 0; blk < n; blk += 65536 {
			e := min(n, blk+65536)
			for i := e - 1; i > blk; i-- {
				j := blk + r.Intn(i-blk+1)
				b[i], b[j] = b[j], b[i]
			}
		}
		return b
	case "tokedge":
		// incompressible bytes (one literal token each) up to the edge of the 32767-token block buffer, then a
		// long run (split into 258-byte matches while the buffer fills), then more noise
		edge := 32767*(1+r.Intn(2)) + r.Pick([]int{-3, -2, -1, 0, 1, 2}) - r.Pick([]int{0, 0, 0, 1, 4})
		b := r.Bytes(edge)
		run := make([]byte, r.Pick([]int{259, 600, 5000, 40000}))
		b = append(b, run...)
		b = append(b, r.Bytes(r.Intn(3000))...)
		return b
	case "gaps":
		// alphabets whose unused gaps have the lengths at which the header's run-length coding changes
		// (zero runs of 2/3/10/11/138/139, equal-length runs of 3/4/7/8)
		var syms []int
		x := r.Intn(3)
		for x < 256 {
			syms = append(syms, x)
			x += 1 + r.Pick([]int{0, 0, 1, 2, 3, 9, 10, 11, 137, 138, 139, 140})
		}
		b := make([]byte, n)
		for i := range b {
			b[i] = byte(syms[r.Intn(len(syms))])
		}
		if r.Bool() { // uniform counts give runs of equal code lengths
			for i := range b {
				b[i] = byte(syms[i%len(syms)])
			}
		}
		return b
	case "mixed":
		b := make([]byte, 0, n)
		for len(b) < n {
			f := payloadFamilies[2+r.Intn(7)]
			b = append(b, Payload(r, f, 1+r.Intn(n/3+1))...)
		}
		return b[:n]
	}
	panic("unknown family " + fam)
}

// sizes that straddle the internal buffer boundaries of the writers
var edgeSizes = []int{0, 1, 2, 3, 7, 8, 9, 15, 16, 17, 255, 256, 257, 258, 259, 260, 4095, 4096, 4097,
	8190, 8191, 8192, 8193, 8449, 8450, 8451, 12288, 32767, 32768, 32769, 65535, 65536, 65537, 65793, 65794, 65795, 70000, 131072}

func PickSize(r *Rng, max int) int {
	switch r.Intn(4) {
	case 0:
		for i := 0; i < 10; i++ {
			s := edgeSizes[r.Intn(len(edgeSizes))]
			if s <= max {
				return s
			}
		}
		return r.Intn(max + 1)
	case 1:
		return r.Intn(300)
	case 2:
		return r.Intn(max/8 + 1)
	}
	return r.Intn(max + 1)
}

func RandPayload(r *Rng, max int) (string, []byte) {
	fam := payloadFamilies[r.Intn(len(payloadFamilies))]
	n := PickSize(r, max)
	if fam == "alias" && max < 140000 {
		fam = "periodic"
	}
	if fam == "wedge" && n < 5000 {
		n = 5000 + r.Intn(4000)
	}
	b := Payload(r, fam, n)
	if len(b) > max && fam != "alias" && fam != "wedge" {
		b = b[:max]
	}
	return fam, b
}

// ---------------------------------------------------------------- writer ops

type Op struct {
	K string `json:"k"`           // W F C R
	D HexB   `json:"d,omitempty"` // data for W
}

type WCfg struct {
	Pkg   string `json:"pkg"` // flate gzip zlib
	Level int    `json:"level"`
	Win4K bool   `json:"win4k,omitempty"`
	Dict  HexB   `json:"dict,omitempty"`
}

func (c WCfg) String() string {
	s := fmt.Sprintf("%s/L%d", c.Pkg, c.Level)
	if c.Win4K {
		s += "/4k"
	}
	if c.Dict != nil {
		s += fmt.Sprintf("/dict%d", len(c.Dict))
	}
	return s
}

// Accelerated reports whether fastgo's own compressor (not compress/flate) serves this setting.
func (c WCfg) Accelerated() bool {
	if c.Dict != nil {
		return false
	}
	if c.Win4K && c.Pkg == "flate" {
		return c.Level != 0
	}
	return c.Level == 1 || c.Level == 2 || c.Level == -1 || c.Level == -2
}

// Window returns the LZ77 window bound promised for the setting.
func (c WCfg) Window() int {
	if c.Win4K {
		return 4096
	}
	return 32768
}

var allLevels = []int{-2, -1, 0, 1, 2, 3, 4, 5, 6, 7, 8, 9}
var accelLevels = []int{-2, -1, 1, 2}

func RandCfg(r *Rng, pkgs []string, accelOnly bool) WCfg {
	c := WCfg{Pkg: pkgs[r.Intn(len(pkgs))]}
	if accelOnly || r.Intn(4) != 0 {
		c.Level = accelLevels[r.Intn(len(accelLevels))]
	} else {
		c.Level = allLevels[r.Intn(len(allLevels))]
	}
	if c.Pkg == "flate" && r.Intn(3) == 0 {
		c.Win4K = true
		if !accelOnly && r.Intn(3) == 0 {
			c.Level = allLevels[r.Intn(len(allLevels))]
		}
	}
	if !accelOnly && c.Pkg != "gzip" && !c.Win4K && r.Intn(8) == 0 {
		c.Dict = HexB(Payload(r, "text", 1+r.Intn(400)))
	}
	return c
}

// SplitOps splits data into Write ops according to a partition style, inserting Flush ops.
func SplitOps(r *Rng, data []byte, style int, flushProb int) []Op {
	var ops []Op
	emit := func(b []byte) {
		ops = append(ops, Op{K: "W", D: HexB(append([]byte{}, b...))})
		if flushProb > 0 && r.Intn(100) < flushProb {
			ops = append(ops, Op{K: "F"})
			if r.Intn(6) == 0 {
				ops = append(ops, Op{K: "F"})
			}
		}
	}
	switch style {
	case 0: // one write
		emit(data)
	case 1: // tiny writes (bounded count)
		i := 0
		for i < len(data) {
			n := 1 + r.Intn(3)
			if len(data)-i > 600 {
				n = (len(data) - i) / 2
			}
			if i+n > len(data) {
				n = len(data) - i
			}
			emit(data[i : i+n])
			i += n
		}
	case 2: // random pieces, incl. empty writes
		i := 0
		for i < len(data) {
			n := r.Intn(len(data)/3 + 2)
			if r.Intn(5) == 0 {
				n = 0
			}
			if i+n > len(data) {
				n = len(data) - i
			}
			emit(data[i : i+n])
			i += n
		}
	case 3: // pieces ending exactly at buffer-fill boundaries +-1
		i := 0
		for i < len(data) {
			n := edgeSizes[r.Intn(len(edgeSizes))] + 0
			if n == 0 {
				n = 1
			}
			if i+n > len(data) {
				n = len(data) - i
			}
			emit(data[i : i+n])
			i += n
		}
	default: // halves
		h := len(data) / 2
		emit(data[:h])
		emit(data[h:])
	}
	if len(ops) == 0 {
		ops = append(ops, Op{K: "W", D: HexB{}})
	}
	return ops
}

// bufferEdges returns absolute stream offsets at which the writers' internal buffers fill, slide or
// hand a block to the encoder (and their neighbours), for the given setting, up to limit.
func bufferEdges(c WCfg, limit int) []int {
	var e []int
	add := func(x int) {
		for _, d := range []int{-1, 0, 1} {
			if x+d > 0 && x+d <= limit {
				e = append(e, x+d)
			}
		}
	}
	if c.Level == -2 {
		for x := 65536; x <= limit+1; x += 65536 {
			add(x)
		}
		return e
	}
	w := c.Window()
	capacity := 2*w + 258
	// first fill at cap, then every (w+258) bytes; interesting fills: 2w .. cap
	for base := 0; base <= limit+capacity; base += w + 258 {
		for _, off := range []int{2 * w, 2*w + 100, 2*w + 257, capacity, capacity - 8, capacity - 9} {
			add(base + off)
		}
		if base > 6*(w+258) {
			break
		}
	}
	return e
}

// EdgeOps cuts data into Write ops at offsets taken from the buffer edges of the setting (and a few
// random ones), inserting Flush ops at some of the cuts.
func EdgeOps(r *Rng, c WCfg, data []byte, flushProb int) []Op {
	edges := bufferEdges(c, len(data))
	cut := map[int]bool{}
	for _, x := range edges {
		if r.Intn(3) == 0 {
			cut[x] = true
		}
	}
	for k := r.Intn(4); k > 0 && len(data) > 0; k-- {
		cut[r.Intn(len(data)+1)] = true
	}
	var pos []int
	for x := range cut {
		if x > 0 && x < len(data) {
			pos = append(pos, x)
		}
	}
	sortInts(pos)
	var ops []Op
	prev := 0
	for _, x := range append(pos, len(data)) {
		ops = append(ops, Op{K: "W", D: HexB(append([]byte{}, data[prev:x]...))})
		if r.Intn(7) == 0 {
			ops = append(ops, Op{K: "W", D: HexB{}})
		}
		if flushProb > 0 && x != len(data) && r.Intn(100) < flushProb {
			ops = append(ops, Op{K: "F"})
		}
		prev = x
	}
	return ops
}

// EdgeSize returns a payload size at (or next to) a buffer edge of the setting.
func EdgeSize(r *Rng, c WCfg, max int) int {
	e := bufferEdges(c, max)
	if len(e) == 0 {
		return r.Intn(max + 1)
	}
	return e[r.Intn(len(e))]
}

func opsData(ops []Op) []byte {
	var b []byte
	for _, o := range ops {
		if o.K == "W" {
			b = append(b, o.D...)
		}
	}
	return b
}

func opsShape(ops []Op) string {
	s := ""
	for i, o := range ops {
		if i >= 24 {
			s += "…"
			break
		}
		if o.K == "W" {
			switch {
			case len(o.D) == 0:
				s += "w0"
			case len(o.D) < 4096:
				s += "w"
			default:
				s += "W"
			}
		} else {
			s += o.K
		}
	}
	return s
}
