package main

// Independent reference inflater (RFC 1951), written for the harness: bit at a time,
// canonical-code decoding by first-code/count, no tables shared with fastgo or compress/flate.
// It mirrors the Lean specification FastgoModel.Spec.Inflate (the two are compared on every
// I-case by the correspondence check). strict=true accepts exactly what compress/flate accepts
// (complete codes, or a single code of length 1); strict=false also accepts incomplete codes.

type RefResult struct {
	Verdict   string // "done", "needmore", "corrupt"
	Out       []byte
	EndBit    int // bit position just after the final block (done) / where decoding stopped
	Blocks    []RefBlock
	MaxDist   int
	NumRefs   int
	NumLits   int
	Why       string
	DictBytes int
}

type RefBlock struct {
	Type     int // 0 stored, 1 fixed, 2 dynamic
	Final    bool
	StartBit int
	EndBit   int
	Syms     int // literal/length symbols incl. EOB
	OutStart int
	OutEnd   int
	LitLens  []int // dynamic only
	DistLens []int
}

type bitReader struct {
	b   []byte
	pos int
}

func (r *bitReader) avail() int { return len(r.b)*8 - r.pos }
func (r *bitReader) bit() int {
	v := int(r.b[r.pos>>3]>>(uint(r.pos)&7)) & 1
	r.pos++
	return v
}
func (r *bitReader) bits(n int) (int, bool) {
	if r.avail() < n {
		return 0, false
	}
	v := 0
	for i := 0; i < n; i++ {
		v |= r.bit() << uint(i)
	}
	return v, true
}

type canon struct {
	count [16]int
	syms  []int // symbols sorted by (len, sym)
	n     int
}

// build returns ok=false when the lengths are not acceptable.
func buildCanon(lens []int, strict bool) (c canon, ok bool) {
	for _, l := range lens {
		c.count[l]++
	}
	c.count[0] = 0
	left := 1
	max := 0
	for l := 1; l <= 15; l++ {
		left <<= 1
		left -= c.count[l]
		if left < 0 {
			return c, false // over-subscribed
		}
		if c.count[l] > 0 {
			max = l
		}
		c.n += c.count[l]
	}
	if c.n == 0 {
		return c, true // empty code: fails when used
	}
	if left > 0 && strict {
		// incomplete: compress/flate accepts only a single code of length 1
		if !(c.n == 1 && max == 1) {
			return c, false
		}
	}
	var offs [16]int
	for l := 1; l < 15; l++ {
		offs[l+1] = offs[l] + c.count[l]
	}
	c.syms = make([]int, c.n)
	for s, l := range lens {
		if l != 0 {
			c.syms[offs[l]] = s
			offs[l]++
		}
	}
	return c, true
}

// decode: -1 need more bits, -2 invalid code
func (c *canon) decode(r *bitReader) int {
	code, first, index := 0, 0, 0
	for l := 1; l <= 15; l++ {
		if r.avail() < 1 {
			return -1
		}
		code |= r.bit()
		cnt := c.count[l]
		if code-cnt < first {
			return c.syms[index+(code-first)]
		}
		index += cnt
		first += cnt
		first <<= 1
		code <<= 1
	}
	return -2
}

var refLenBase = []int{3, 4, 5, 6, 7, 8, 9, 10, 11, 13, 15, 17, 19, 23, 27, 31, 35, 43, 51, 59, 67, 83, 99, 115, 131, 163, 195, 227, 258}
var refLenExtra = []int{0, 0, 0, 0, 0, 0, 0, 0, 1, 1, 1, 1, 2, 2, 2, 2, 3, 3, 3, 3, 4, 4, 4, 4, 5, 5, 5, 5, 0}
var refDistBase = []int{1, 2, 3, 4, 5, 7, 9, 13, 17, 25, 33, 49, 65, 97, 129, 193, 257, 385, 513, 769, 1025, 1537, 2049, 3073, 4097, 6145, 8193, 12289, 16385, 24577}
var refDistExtra = []int{0, 0, 0, 0, 1, 1, 2, 2, 3, 3, 4, 4, 5, 5, 6, 6, 7, 7, 8, 8, 9, 9, 10, 10, 11, 11, 12, 12, 13, 13}
var refClOrder = []int{16, 17, 18, 0, 8, 7, 9, 6, 10, 5, 11, 4, 12, 3, 13, 2, 14, 1, 15}

func fixedLens() ([]int, []int) {
	ll := make([]int, 288)
	for i := range ll {
		switch {
		case i < 144:
			ll[i] = 8
		case i < 256:
			ll[i] = 9
		case i < 280:
			ll[i] = 7
		default:
			ll[i] = 8
		}
	}
	dl := make([]int, 30)
	for i := range dl {
		dl[i] = 5
	}
	return ll, dl
}

// RefInflate decodes one DEFLATE stream starting at bit 0 of b. dict is a preset dictionary.
func RefInflate(b []byte, strict bool, dict []byte, maxOut int) (res RefResult) {
	r := &bitReader{b: b}
	out := append([]byte{}, dict...)
	base := len(dict)
	res.DictBytes = base
	fail := func(v, why string) RefResult {
		res.Verdict, res.Why = v, why
		res.Out = out[base:]
		res.EndBit = r.pos
		return res
	}
	for {
		blk := RefBlock{StartBit: r.pos, OutStart: len(out) - base}
		hdr, ok := r.bits(3)
		if !ok {
			return fail("needmore", "block header")
		}
		blk.Final = hdr&1 == 1
		blk.Type = hdr >> 1
		switch blk.Type {
		case 0:
			r.pos = (r.pos + 7) &^ 7
			l, ok1 := r.bits(16)
			nl, ok2 := r.bits(16)
			if !ok1 || !ok2 {
				return fail("needmore", "stored len")
			}
			if l != (^nl)&0xffff {
				return fail("corrupt", "stored nlen")
			}
			if r.avail() < l*8 {
				out = append(out, r.b[r.pos/8:]...)
				r.pos = len(r.b) * 8
				return fail("needmore", "stored data")
			}
			out = append(out, r.b[r.pos/8:r.pos/8+l]...)
			r.pos += l * 8
		case 1, 2:
			var ll, dl []int
			if blk.Type == 1 {
				ll, dl = fixedLens()
			} else {
				hlit, ok1 := r.bits(5)
				hdist, ok2 := r.bits(5)
				hclen, ok3 := r.bits(4)
				if !ok1 || !ok2 || !ok3 {
					return fail("needmore", "dyn counts")
				}
				nlit, ndist, ncl := hlit+257, hdist+1, hclen+4
				if nlit > 286 || ndist > 30 {
					return fail("corrupt", "hlit/hdist range")
				}
				cl := make([]int, 19)
				for i := 0; i < ncl; i++ {
					v, ok := r.bits(3)
					if !ok {
						return fail("needmore", "cl lens")
					}
					cl[refClOrder[i]] = v
				}
				clc, ok := buildCanon(cl, strict)
				if !ok {
					return fail("corrupt", "cl code")
				}
				lens := make([]int, 0, nlit+ndist)
				for len(lens) < nlit+ndist {
					s := clc.decode(r)
					if s == -1 {
						return fail("needmore", "cl sym")
					}
					if s == -2 {
						return fail("corrupt", "cl sym invalid")
					}
					switch {
					case s < 16:
						lens = append(lens, s)
					case s == 16:
						if len(lens) == 0 {
							return fail("corrupt", "repeat with nothing")
						}
						n, ok := r.bits(2)
						if !ok {
							return fail("needmore", "rep16")
						}
						n += 3
						if len(lens)+n > nlit+ndist {
							return fail("corrupt", "repeat past count")
						}
						p := lens[len(lens)-1]
						for i := 0; i < n; i++ {
							lens = append(lens, p)
						}
					default:
						var n int
						var ok bool
						if s == 17 {
							n, ok = r.bits(3)
							n += 3
						} else {
							n, ok = r.bits(7)
							n += 11
						}
						if !ok {
							return fail("needmore", "rep17/18")
						}
						if len(lens)+n > nlit+ndist {
							return fail("corrupt", "zero run past count")
						}
						for i := 0; i < n; i++ {
							lens = append(lens, 0)
						}
					}
				}
				ll, dl = lens[:nlit], lens[nlit:]
				blk.LitLens, blk.DistLens = ll, dl
			}
			lc, ok := buildCanon(ll, strict && blk.Type == 2)
			if !ok {
				return fail("corrupt", "lit code")
			}
			dc, ok := buildCanon(dl, strict && blk.Type == 2)
			if !ok {
				return fail("corrupt", "dist code")
			}
			for {
				s := lc.decode(r)
				if s == -1 {
					return fail("needmore", "lit sym")
				}
				if s == -2 {
					return fail("corrupt", "lit sym invalid")
				}
				blk.Syms++
				if s < 256 {
					out = append(out, byte(s))
					res.NumLits++
					continue
				}
				if s == 256 {
					break
				}
				if s > 285 {
					return fail("corrupt", "length symbol 286/287")
				}
				e, ok := r.bits(refLenExtra[s-257])
				if !ok {
					return fail("needmore", "len extra")
				}
				length := refLenBase[s-257] + e
				ds := dc.decode(r)
				if ds == -1 {
					return fail("needmore", "dist sym")
				}
				if ds == -2 {
					return fail("corrupt", "dist sym invalid")
				}
				if ds > 29 {
					return fail("corrupt", "dist symbol 30/31")
				}
				de, ok := r.bits(refDistExtra[ds])
				if !ok {
					return fail("needmore", "dist extra")
				}
				dist := refDistBase[ds] + de
				if dist > len(out) {
					return fail("corrupt", "distance beyond output")
				}
				if dist > res.MaxDist {
					res.MaxDist = dist
				}
				res.NumRefs++
				for i := 0; i < length; i++ {
					out = append(out, out[len(out)-dist])
				}
				if maxOut > 0 && len(out)-base > maxOut {
					return fail("corrupt", "output limit")
				}
			}
		default:
			return fail("corrupt", "btype 3")
		}
		blk.EndBit = r.pos
		blk.OutEnd = len(out) - base
		res.Blocks = append(res.Blocks, blk)
		if blk.Final {
			res.Verdict = "done"
			res.Out = out[base:]
			res.EndBit = r.pos
			return res
		}
	}
}
