package main

import (
	"fmt"
	"strings"

	fflate "github.com/intel/fastgo/compress/flate"
)

// W correspondence: the Lean Writer control model is run with leaves that replay what the real match
// finder / block encoder answered (one ordered event log: the hook records match-finder calls, the
// harness's destination records its writes); per-op results and the bookkeeping counters must agree in
// lock-step, and the model must consume the log exactly.

type evDst struct {
	w     *fflate.Writer
	log   *[]fflate.VerifEvent
	calls int
	fails map[int]bool
	last  []byte // the most recent write the destination accepted
	early []byte // everything accepted while no compressor existed (a wrapper's header)
}

func (d *evDst) Write(p []byte) (int, error) {
	k := d.calls
	d.calls++
	toks := 0
	if d.w != nil { // nil while a gzip/zlib wrapper writes its header: the compressor does not exist yet
		toks = d.w.VerifState().Tokens
	}
	ok := !d.fails[k]
	*d.log = append(*d.log, fflate.VerifEvent{Kind: "D", Size: len(p), Tokens: toks, OK: ok})
	if !ok {
		return 0, errInjected
	}
	d.last = append(d.last[:0], p...)
	if d.w == nil {
		d.early = append(d.early, p...)
	}
	return len(p), nil
}

func init() {
	corrGens["W"] = genWCases
}

func genWCases(r *Rng, tier string, n int) []corrCase {
	var cs []corrCase
	for i := 0; i < n; i++ {
		lvl := r.Pick([]int{1, 2, -1})
		win4k := r.Bool()
		window := 32768
		if win4k {
			window = 4096
		}
		var ops []string
		var data [][]byte
		mx := r.Pick([]int{300, 9000, 70000, 140000, 400000})
		if win4k {
			mx = r.Pick([]int{300, 5000, 9000, 20000, 70000})
		}
		nops := 1 + r.Intn(10)
		for j := 0; j < nops; j++ {
			switch r.Intn(10) {
			case 0, 1:
				ops = append(ops, "f")
				data = append(data, nil)
			case 2:
				ops = append(ops, "c")
				data = append(data, nil)
			case 3:
				ops = append(ops, "r")
				data = append(data, nil)
			default:
				_, d := RandPayload(r, mx)
				if r.Intn(6) == 0 {
					d = d[:0]
				}
				ops = append(ops, fmt.Sprintf("w%d", len(d)))
				data = append(data, d)
			}
		}
		if r.Intn(3) != 0 {
			ops = append(ops, "c")
			data = append(data, nil)
		}
		fails := map[int]bool{}
		var failList []string
		if r.Intn(3) == 0 {
			k := r.Intn(12)
			fails[k] = true
			failList = append(failList, fmt.Sprint(k))
			if r.Bool() { // persistent
				for q := k + 1; q < k+60; q++ {
					fails[q] = true
					failList = append(failList, fmt.Sprint(q))
				}
			}
		}
		dst := &evDst{fails: fails}
		var w *fflate.Writer
		if win4k {
			w, _ = fflate.NewWriterwWith4KWindow(dst, lvl)
		} else {
			w, _ = fflate.NewWriter(dst, lvl)
		}
		log := w.VerifRecord()
		dst.w, dst.log = w, log
		var lines []string
		for j, op := range ops {
			var nn int
			var err error
			switch op[0] {
			case 'w':
				nn, err = w.Write(data[j])
			case 'f':
				err = w.Flush()
			case 'c':
				err = w.Close()
			case 'r':
				dst = &evDst{w: w, log: log, fails: map[int]bool{}}
				w.Reset(dst)
			}
			st := w.VerifState()
			e := "ok"
			if err != nil {
				if err == errInjected {
					e = "injected"
				} else {
					e = "closed"
				}
			}
			lines = append(lines, fmt.Sprintf("%d,%s,%d,%d,%d,%d,%d", nn, e, st.Idx, st.End, st.Processed, st.Tokens, dst.calls))
		}
		var evs []string
		for _, e := range *log {
			switch e.Kind {
			case "G":
				evs = append(evs, fmt.Sprintf("g:%d:%d:%d:%d:%d:%d:%d", b2i(e.Flush), e.End, e.Processed, e.Offset, e.TokIn, e.NOffset, e.TokOut))
			case "R":
				evs = append(evs, "r")
			case "D":
				// block chunks only (Tokens > 0 inside encodeBlock), including the one the destination refused
				if e.Tokens > 0 {
					evs = append(evs, fmt.Sprintf("d:%d:%d", e.Size, e.Tokens))
				}
			}
		}
		expect := strings.Join(lines, ";") + " left=0 bad=-"
		fl := "-"
		if len(failList) > 0 {
			fl = strings.Join(failList, ",")
		}
		ev := "-"
		if len(evs) > 0 {
			ev = strings.Join(evs, ";")
		}
		line := fmt.Sprintf("W %d %d %s %s %s", window, 32767, fl, strings.Join(ops, ","), ev)
		cs = append(cs, corrCase{line: line, expect: expect, desc: fmt.Sprintf("L%d win=%d ops=%s fails=%s", lvl, window, strings.Join(ops, ","), fl)})
	}
	return cs
}
