package main

import (
	"bufio"
	"fmt"
	"io"
	"strings"

	fflate "github.com/intel/fastgo/compress/flate"
)

// R correspondence: the Lean Reader control model (bufio + step/Read bookkeeping) is run with a decoder
// that replays what the real decoder answered in each step (hook VerifRecordSteps); the per-Read results,
// the number of bytes consumed from the bufio.Reader and the decoder's inputs must agree in lock-step.

type mChunk struct {
	n   int
	err error // nil, io.EOF or an injected error
	id  int
}

// modelSrc has exactly the semantics of the Lean source: a list of future Read results; a chunk larger
// than the caller's buffer is delivered in pieces (the error stays with the last piece).
type modelSrc struct {
	data   []byte
	pos    int
	chunks []mChunk
	total  int
}

type srcBlocked struct{}

func (s *modelSrc) Read(p []byte) (int, error) {
	if len(p) == 0 {
		return 0, nil
	}
	if len(s.chunks) == 0 {
		panic(srcBlocked{})
	}
	c := &s.chunks[0]
	n := c.n
	if n > len(p) {
		n = len(p)
	}
	copy(p, s.data[s.pos:s.pos+n])
	s.pos += n
	s.total += n
	c.n -= n
	if c.n > 0 {
		return n, nil
	}
	err := c.err
	s.chunks = s.chunks[1:]
	return n, err
}

func init() { corrGens["R"] = genRCases }

func genRCases(r *Rng, tier string, n int) []corrCase {
	var cs []corrCase
	genNoFastgo = false
	for i := 0; i < n; i++ {
		var stream []byte
		desc := ""
		switch r.Intn(6) {
		case 0:
			f := faultNames[r.Intn(len(faultNames))]
			stream, _, desc = Synthesize(r, SynthOpts{MaxBlocks: 3, MaxTokens: r.Pick([]int{5, 60, 600, 5000}), Fault: f})
			desc = "fault:" + f
		case 1:
			stream, _, desc = SynthBoundary(r)
		default:
			stream, _, desc = genValidStream(r, "quick")
			if r.Intn(4) == 0 && len(stream) > 1 {
				stream = stream[:r.Intn(len(stream))]
				desc = "cut:" + desc
			}
		}
		if len(stream) > 6000 {
			// the model replays the bufio byte by byte: keep the compressed side small (outputs may be large)
			stream, _, desc = Synthesize(r, SynthOpts{MaxBlocks: 4, MaxTokens: 3000, StdCompat: true, FarDist: true})
		}
		suffix := r.Bytes(r.Pick([]int{0, 0, 1, 9, 300}))
		all := append(append([]byte{}, stream...), suffix...)
		// chunk schedule
		var chunks []mChunk
		var cstr []string
		pos := 0
		pat := chunkPattern(r)
		ci := 0
		for pos < len(all) {
			sz := len(all) - pos
			if len(pat) > 0 {
				sz = min(sz, max(1, pat[ci%len(pat)]))
				ci++
			}
			chunks = append(chunks, mChunk{n: sz})
			pos += sz
		}
		// how the source ends: EOF alone, EOF with the last bytes, an injected error, or it blocks
		ending := r.Intn(5)
		switch ending {
		case 0, 1:
			chunks = append(chunks, mChunk{n: 0, err: io.EOF})
		case 2:
			if len(chunks) > 0 {
				chunks[len(chunks)-1].err = io.EOF
			} else {
				chunks = append(chunks, mChunk{n: 0, err: io.EOF})
			}
		case 3:
			k := r.Intn(len(chunks) + 1)
			chunks = append(chunks[:k:k], mChunk{n: 0, err: errSrcInjected, id: 7})
		case 4:
			// the source stays silent after the data (blocks)
		}
		for _, c := range chunks {
			s := fmt.Sprintf("c:%d", c.n)
			switch {
			case c.err == io.EOF:
				s += ":e"
			case c.err != nil:
				s += fmt.Sprintf(":f%d", c.id)
			}
			cstr = append(cstr, s)
		}
		size := bufSizes[r.Intn(len(bufSizes))]
		src := &modelSrc{data: all, chunks: append([]mChunk{}, chunks...)}
		br := bufio.NewReaderSize(src, size)
		rd := fflate.NewReader(br)
		log := fflate.VerifRecordSteps(rd)
		reads := readPattern(r)
		var rstr, lines []string
		blocked := false
		for j := 0; j < 4000 && !blocked; j++ {
			want := reads[j%len(reads)]
			rstr = append(rstr, fmt.Sprint(want))
			buf := make([]byte, want)
			var nn int
			var err error
			func() {
				defer func() {
					if p := recover(); p != nil {
						if _, ok := p.(srcBlocked); ok {
							blocked = true
							return
						}
						panic(p)
					}
				}()
				nn, err = rd.Read(buf)
			}()
			if blocked {
				lines = append(lines, "blocked")
				break
			}
			e := "ok"
			switch k := errKind(err); {
			case k == "":
			case strings.HasPrefix(k, "srcinjected"):
				e = "src7"
			default:
				e = k
			}
			lines = append(lines, fmt.Sprintf("%d,%s", nn, e))
			if err != nil {
				// one more Read: the error must stick
				rstr = append(rstr, "5")
				n2, e2 := rd.Read(make([]byte, 5))
				k2 := errKind(e2)
				if strings.HasPrefix(k2, "srcinjected") {
					k2 = "src7"
				}
				lines = append(lines, fmt.Sprintf("%d,%s", n2, k2))
				break
			}
		}
		fflate.VerifStopSteps(rd)
		taken := src.total - br.Buffered()
		var evs []string
		for _, e := range *log {
			evs = append(evs, fmt.Sprintf("%d:%d:%d:%d:%d:%s:%d", e.InBefore, e.BitsBefore, e.InAfter, e.BitsAfter, e.Produced, e.Status, b2i(e.Phase == 4 || e.Phase == 5)))
		}
		ev := "-"
		if len(evs) > 0 {
			ev = strings.Join(evs, ";")
		}
		cc := "-"
		if len(cstr) > 0 {
			cc = strings.Join(cstr, ";")
		}
		line := fmt.Sprintf("R %d %s %s %s", size, cc, strings.Join(rstr, ","), ev)
		expect := fmt.Sprintf("%s taken=%d left=0 bad=-", strings.Join(lines, ";"), taken)
		if blocked {
			// a blocked Read never returns: what the bufio.Reader holds at that moment is not observable
			expect = fmt.Sprintf("%s taken=* left=0 bad=-", strings.Join(lines, ";"))
		}
		cs = append(cs, corrCase{line: line, expect: expect, desc: fmt.Sprintf("%s size=%d ending=%d", desc, size, ending)})
	}
	return cs
}
