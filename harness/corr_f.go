package main

import (
	"bufio"
	"fmt"

	fflate "github.com/intel/fastgo/compress/flate"
)

// F correspondence: complete sessions of the REAL flate Reader (whatever acceleration level is selected; random
// source chunking, bufio size, Read sizes; valid, synthesised, faulty, cut and bit-flipped streams, followed by
// bytes that do not belong to the stream) are judged by the Lean specification inflater directly, through the
// executable check `checkFaithful` (Reader/FaithfulCheck.lean; its meaning is proved there): delivered bytes are a
// prefix of the specification's output, io.EOF only for a complete stream completely delivered with the source left
// exactly behind the final block, CorruptInputError only when the strict specification rejects, io.ErrUnexpectedEOF
// never for a complete stream. This is the leaf contract Reader.Faithful observed end to end against the
// specification itself rather than against compress/flate.

func init() {
	corrGens["F"] = genFCases
}

func genFCases(r *Rng, tier string, n int) []corrCase {
	var cs []corrCase
	kinds := map[string]int{}
	ends := map[string]int{}
	defer func() { fmt.Printf("F-stats: streams=%v ends=%v\n", kinds, ends) }()
	for i := 0; len(cs) < n; i++ {
		var s []byte
		how := ""
		switch i % 6 {
		case 0, 1:
			s, _, how = genValidStream(r, "quick")
			how = "valid:" + how
		case 2:
			f := faultNames[r.Intn(len(faultNames))]
			s, _, how = Synthesize(r, SynthOpts{MaxBlocks: 3, MaxTokens: r.Pick([]int{5, 60, 600}), Fault: f, LongCodes: r.Bool()})
			how = "fault:" + f + ":" + how
		case 3:
			s, _, how = genValidStream(r, "quick")
			if len(s) > 1 {
				s = s[:r.Intn(len(s))]
			}
			how = "cut:" + how
		case 4:
			s, _, how = genValidStream(r, "quick")
			m := append([]byte{}, s...)
			if len(m) > 0 {
				m[r.Intn(len(m))] ^= 1 << uint(r.Intn(8))
			}
			s = m
			how = "flip:" + how
		default:
			s, _, how = Synthesize(r, SynthOpts{MaxBlocks: r.Pick([]int{1, 2, 4}), MaxTokens: r.Pick([]int{5, 60, 600, 3000}), StdCompat: true, FarDist: r.Bool(), LongCodes: r.Bool()})
			how = "synth:" + how
		}
		if len(s) > 12000 {
			continue
		}
		kinds[how[:4]]++
		var suffix []byte
		if i%6 != 3 && r.Intn(2) == 0 { // a cut stream followed by other bytes is no longer a cut stream
			suffix = Payload(r, "random", 1+r.Intn(40))
		}
		src := append(append([]byte{}, s...), suffix...)
		cks := &chunkSrc{data: src, failAfter: -1, chunks: chunkPattern(r), eofWith: r.Intn(4) == 0}
		br := bufio.NewReaderSize(cks, bufSizes[r.Intn(len(bufSizes))])
		fr := fflate.NewReader(br)
		reads := readPattern(r)
		res := runReader(fr, reads, 1<<26)
		k := errClass(res.Err)
		ends[k]++
		if res.Panic != "" {
			k = "panic"
		}
		consumed := len(src) - (len(cks.data) - cks.pos) - br.Buffered()
		cut := "0"
		if i%6 == 3 {
			cut = "1" // a proper prefix of a valid stream: CorruptInputError would be wrong
		}
		line := fmt.Sprintf("F %s %s %s %d %s", hexOrDash(src), hexOrDash(res.Out), k, consumed, cut)
		cs = append(cs, corrCase{line: line, expect: "ok", desc: fmt.Sprintf("%s len=%d suffix=%d bufio=%d chunks=%v reads=%v -> %d bytes, %s", how, len(s), len(suffix), br.Size(), cks.chunks, reads, len(res.Out), k)})
	}
	return cs
}
