package main

import (
	"bufio"
	"bytes"
	"fmt"
	"io"
	"strings"
)

func init() {
	// ------------------------------------------------------------------ C13
	register(&Property{ID: "C13",
		Rule: "earlier stream + read history (nothing read, partial read with undelivered output, complete, error state) then Reset(src) versus a fresh Reader on src; next inputs valid and hostile (back-references reaching before their own start), zlib with dictionaries; non-trivial = earlier stream produced output; distinct by (pkg, history kind, next-input kind, fault, size classes)",
		Gen: func(r *Rng, tier string) []Case {
			var cs []Case
			for i := 0; i < tierN(tier, 400, 5000); i++ {
				pkg := r.Pick2("flate", "flate", "flate", "gzip", "zlib")
				s1, _, _ := genContainerStream(r, pkg, "quick")
				hist := r.Pick2("none", "partial", "partial1", "complete", "error", "truncated", "hdrcut", "fixed-baddyn")
				if hist == "fixed-baddyn" {
					pkg = "flate"
					s1, _, _ = genContainerStream(r, pkg, "quick")
				}
				c := Case{Prop: "C13", Pkg: pkg, Stream: s1, Kind: hist, Reads: readPattern(r), K: 1 + r.Intn(70000)}
				switch {
				case hist == "fixed-baddyn":
					// the next stream relies on the fixed-Huffman tables (shared Reader state) and uses back-references
					s2, _, d := Synthesize(r, SynthOpts{MaxBlocks: r.Pick([]int{1, 2}), MaxTokens: r.Pick([]int{20, 60, 300}), StdCompat: true, ForceKind: 1})
					c.Stream2, c.Note = s2, "valid:synth:fixedonly:"+d
				case pkg == "flate" && r.Intn(2) == 0:
					f := r.Pick2("dist-beyond", "dist-beyond", "unassigned-code", "no-dist-code-used", "unassigned-dist")
					s2, _, d := Synthesize(r, SynthOpts{MaxBlocks: 2, MaxTokens: r.Pick([]int{3, 30, 300}), Fault: f})
					c.Stream2, c.Note = s2, "hostile:"+f+":"+d
				case pkg == "zlib" && r.Intn(2) == 0:
					dict := Payload(r, "text", 1+r.Intn(2000))
					_, data := RandPayload(r, 5000)
					data = append(append([]byte{}, dict[:len(dict)/2]...), data...)
					var b bytes.Buffer
					w, _ := newWriter(WCfg{Pkg: "zlib", Level: 6, Dict: dict}, &b, true)
					w.Write(data)
					w.Close()
					c.Stream2, c.Dict, c.Note = b.Bytes(), dict, "zlib-dict"
				default:
					s2, _, how := genContainerStream(r, pkg, "quick")
					if r.Intn(4) == 0 && len(s2) > 2 {
						s2 = s2[:r.Intn(len(s2))]
						how = "cut:" + how
					}
					c.Stream2, c.Note = s2, "valid:"+how
				}
				cs = append(cs, c)
			}
			return cs
		},
		Check: checkC13})

	// ------------------------------------------------------------------ C15
	register(&Property{ID: "C15",
		Rule: "valid streams (flate/gzip/zlib); the source fails after k bytes for k spread over the whole stream (every byte for short streams), error returned alone or together with the last bytes, two distinct error values, several destination size patterns; non-trivial = k > 0; distinct by (pkg, k class relative to the stream, alone/with-data, error value, origin)",
		Gen: func(r *Rng, tier string) []Case {
			var cs []Case
			for i := 0; i < tierN(tier, 40, 400); i++ {
				pkg := r.Pick2("flate", "flate", "gzip", "zlib")
				s, _, how := genContainerStream(r, pkg, "quick")
				if pkg == "gzip" && i%2 == 1 {
					// several members read in the default (multistream) mode, the source failing at and around every
					// member boundary: between two members a source error is an error, not the end of the file
					var bounds []int
					s, how = nil, "multi"
					for m := 0; m < 2+r.Intn(2); m++ {
						ms, _, h := genContainerStream(r, "gzip", "quick")
						if len(ms) > 3000 {
							ms, _, h = genContainerStream(r, "gzip", "quick")
						}
						s = append(s, ms...)
						bounds = append(bounds, len(s))
						how += "+" + h
					}
					for _, b := range bounds[:len(bounds)-1] {
						for _, kk := range []int{b - 8, b - 1, b, b + 1, b + 3, b + 10} {
							if kk >= 0 && kk <= len(s) {
								cs = append(cs, Case{Prop: "C15", Pkg: pkg, Stream: s, K: kk, Ints: []int{1}, EOFWith: r.Bool(), Kind: r.Pick2("A", "B", "W"), Reads: readPattern(r), Chunks: chunkPattern(r), Ctor: r.Pick2("new", "reset"), Note: how, Src: r.Pick2("plain", "bufio:4096", "bufio:100")})
							}
						}
					}
					continue
				}
				step := 1
				if len(s) > 200 {
					step = len(s) / 100
				}
				for k := 0; k <= len(s); k += step {
					kk := k
					if step > 1 {
						kk = k + r.Intn(step)
						if kk > len(s) {
							kk = len(s)
						}
					}
					cs = append(cs, Case{Prop: "C15", Pkg: pkg, Stream: s, K: kk, EOFWith: r.Bool(), Kind: r.Pick2("A", "B", "W"), Reads: readPattern(r), Chunks: chunkPattern(r), Ctor: r.Pick2("new", "reset"), Note: how, Src: r.Pick2("plain", "bufio:4096", "bufio:100")})
				}
			}
			return cs
		},
		Check: checkC15})

	// ------------------------------------------------------------------ C18
	register(&Property{ID: "C18",
		Rule: "byte strings (valid, truncated, faulty, bit-flipped) x destination size patterns x source chunkings run through the flate/gzip/zlib Readers in separate processes per acceleration level; per-case digests (length, hash, outcome kind) are compared pairwise across levels and with the reference inflater; non-trivial = input >= 8 bytes; distinct by (kind, origin/fault, size class, reads, chunks)",
		Gen: func(r *Rng, tier string) []Case {
			var cs []Case
			genNoFastgo = true
			defer func() { genNoFastgo = false }()
			n := tierN(tier, 1200, 12000)
			for i := 0; i < n; i++ {
				var c Case
				switch i % 4 {
				case 0:
					s, _, how := genValidStream(r, tier)
					c = Case{Kind: "valid", Stream: s, Note: how}
				case 1:
					s, _, how := genValidStream(r, "quick")
					if len(s) > 1 {
						s = s[:r.Intn(len(s))]
					}
					c = Case{Kind: "truncated", Stream: s, Note: how}
				case 2:
					f := faultNames[r.Intn(len(faultNames))]
					s, _, d := Synthesize(r, SynthOpts{MaxBlocks: r.Pick([]int{1, 2, 4}), MaxTokens: r.Pick([]int{5, 60, 600, 5000}), Fault: f, FarDist: r.Intn(4) == 0})
					c = Case{Kind: "fault", Stream: s, Note: f + ":" + d}
				default:
					s, _, how := genValidStream(r, "quick")
					m := append([]byte{}, s...)
					for k := 1 + r.Intn(3); k > 0 && len(m) > 0; k-- {
						m[r.Intn(len(m))] ^= 1 << uint(r.Intn(8))
					}
					c = Case{Kind: "bitflip", Stream: m, Note: how}
				}
				c.Prop = "C18"
				c.K = i
				c.Reads = readPattern(r)
				c.Chunks = chunkPattern(r)
				// big buffers and big inputs so that the AVX2 fast path (>= 24 input bytes, >= 274 output bytes of slack) is entered
				if r.Bool() {
					c.Reads = []int{1 << 16}
					c.Chunks = nil
				}
				cs = append(cs, c)
			}
			return cs
		},
		Check: func(c *Case, st *Stats) *Violation {
			src := &chunkSrc{data: c.Stream, chunks: c.Chunks, failAfter: -1}
			rd, _ := newFastReader("flate", "new", src, nil)
			run := runReader(rd, c.Reads, 1<<23)
			if v := basicReaderViolations(c, run); v != nil {
				return v
			}
			ref := RefInflate(c.Stream, false, nil, 1<<23)
			if ref.Why != "output limit" {
				if !isPrefix(run.Out, ref.Out) {
					return viol(c, "invented-data/"+c.Kind, "level %d: %s input (%s): output deviates from the reference inflater at byte %d (reference %s/%s); error %v", archLevel, c.Kind, c.Note, firstDiff(run.Out, ref.Out), ref.Verdict, ref.Why, run.Err)
				}
				if run.Err == io.EOF && ref.Verdict != "done" {
					return viol(c, "eof-on-malformed/"+c.Kind, "level %d: %s input (%s): io.EOF but the reference inflater says %s (%s)", archLevel, c.Kind, c.Note, ref.Verdict, ref.Why)
				}
			}
			d := digestOf(run.Out, run.Err)
			if c.Kind == "truncated" || ref.Verdict == "needmore" {
				// known granularity (F-C04-1): up to 2 trailing bytes of a truncated stream depend on the table mode
				d = "trunc:" + errKind(run.Err)
				st.Digest(fmt.Sprintf("%06d.len", c.K), fmt.Sprint(len(run.Out)))
			}
			st.Digest(fmt.Sprintf("%06d", c.K), d)
			st.Count("kind:" + c.Kind)
			st.Count("outcome:" + errKind(run.Err))
			c.Sig = fmt.Sprintf("%s|%s|%d|%v|%v", c.Kind, originOf(c.Note), sizeClass(len(c.Stream)), c.Reads, c.Chunks)
			c.Trivial = len(c.Stream) < 8
			return nil
		}})
}

func driveHistory(rd io.Reader, kind string, k int) {
	switch kind {
	case "none":
	case "partial":
		buf := make([]byte, k)
		rd.Read(buf)
	case "partial1":
		buf := make([]byte, 1)
		rd.Read(buf)
	default:
		io.Copy(io.Discard, rd)
	}
}

var c13Suffix = []byte("bytes of the caller that follow the compressed stream")

func checkC13(c *Case, st *Stats) *Violation {
	var bufA, bufB *bufio.Reader
	s1 := c.Stream
	switch c.Kind {
	case "error":
		s1 = append([]byte{}, s1...)
		if len(s1) > 12 {
			for i := len(s1) / 2; i < len(s1)/2+4; i++ {
				s1[i] ^= 0x55
			}
		}
	case "truncated":
		s1 = s1[:len(s1)*2/3]
	case "hdrcut": // cut inside the first block header (after the container header)
		skip := map[string]int{"flate": 0, "gzip": 10, "zlib": 2}[c.Pkg]
		if len(s1) > skip+3 {
			s1 = s1[:skip+1+c.K%min(16, len(s1)-skip-1)]
		}
	}
	// reused reader
	var reused io.Reader
	var rerr error
	{
		rd, err := newFastReader(c.Pkg, "new", bytes.NewReader(s1), nil)
		if err != nil {
			// header already broken: use a pristine earlier stream instead
			rd, err = newFastReader(c.Pkg, "new", bytes.NewReader(c.Stream), nil)
			if err != nil {
				return viol(c, "oracle", "cannot open earlier stream: %v", err)
			}
		}
		driveHistory(rd, c.Kind, c.K)
		if c.Kind == "fixed-baddyn" && c.Pkg == "flate" {
			// a fixed-Huffman stream, then a dynamic header rejected after its distance table was built
			rd.(resetter).Reset(bytes.NewReader(histFixed), nil)
			io.Copy(io.Discard, rd)
			rd.(resetter).Reset(bytes.NewReader(histBadDyn), nil)
			io.Copy(io.Discard, rd)
		}
		if c.Pkg == "zlib" && c.K%2 == 0 {
			// a longer history: a dictionary stream, then a plain one (the Reader swaps inflaters on the way)
			d0 := []byte("an earlier dictionary, an earlier dictionary")
			var b0 bytes.Buffer
			w0, _ := newWriter(WCfg{Pkg: "zlib", Level: 6, Dict: d0}, &b0, true)
			w0.Write(d0[:20])
			w0.Close()
			rd.(resetter).Reset(bytes.NewReader(b0.Bytes()), d0)
			io.Copy(io.Discard, rd)
			if c.K%4 == 0 {
				rd.(resetter).Reset(bytes.NewReader(warmupZlib), nil)
				io.Copy(io.Discard, rd)
			}
		}
		var src2 io.Reader = bytes.NewReader(c.Stream2)
		if c.K%3 == 0 {
			src2 = &chunkSrc{data: c.Stream2, chunks: []int{1 + c.K%7}, failAfter: -1}
		}
		if c.K%5 == 1 {
			// a caller-supplied *bufio.Reader of any size, with the caller's own bytes after the stream
			bufA = bufio.NewReaderSize(bytes.NewReader(append(append([]byte{}, c.Stream2...), c13Suffix...)), 16+c.K%300)
			src2 = bufA
		}
		switch c.Pkg {
		case "flate":
			rerr = rd.(resetter).Reset(src2, nil)
		case "gzip":
			rerr = rd.(interface{ Reset(io.Reader) error }).Reset(src2)
		case "zlib":
			rerr = rd.(resetter).Reset(src2, c.Dict)
		}
		reused = rd
	}
	var fsrc io.Reader = bytes.NewReader(c.Stream2)
	if c.K%3 == 0 {
		fsrc = &chunkSrc{data: c.Stream2, chunks: []int{1 + c.K%7}, failAfter: -1}
	}
	if c.K%5 == 1 {
		bufB = bufio.NewReaderSize(bytes.NewReader(append(append([]byte{}, c.Stream2...), c13Suffix...)), 16+c.K%300)
		fsrc = bufB
	}
	fresh, ferr := newFastReader(c.Pkg, "new", fsrc, c.Dict)
	if errKind(rerr) != errKind(ferr) {
		return viol(c, "reset-error/"+c.Pkg, "%s: Reset returned %v, constructor on the same input returned %v (history %s)", c.Pkg, rerr, ferr, c.Kind)
	}
	if ferr != nil {
		c.Sig = fmt.Sprintf("%s|%s|ctorerr", c.Pkg, c.Kind)
		return nil
	}
	a := runReader(reused, c.Reads, 1<<23)
	b := runReader(fresh, c.Reads, 1<<23)
	if v := basicReaderViolations(c, a); v != nil {
		return v
	}
	if a.Panic != "" {
		return viol(c, "panic", "%s", a.Panic)
	}
	nk := originOf(c.Note)
	if !bytes.Equal(a.Out, b.Out) {
		d := len(a.Out) - len(b.Out)
		if d < 0 {
			d = -d
		}
		if strings.Contains(c.Note, "cut:") && d <= 2 && errKind(a.Err) == errKind(b.Err) && errKind(a.Err) == "UnexpectedEOF" && (isPrefix(a.Out, b.Out) || isPrefix(b.Out, a.Out)) {
			// the tail of a TRUNCATED stream depends on the table mode / inflater in use (F-C04-1)
			return viol(c, "truncated-tail<=2", "%s Reader after Reset: truncated next input, %d vs %d bytes before io.ErrUnexpectedEOF (both correct prefixes)", c.Pkg, len(a.Out), len(b.Out))
		}
		return viol(c, fmt.Sprintf("reset-output/%s/%s", c.Pkg, nk), "%s Reader after history %q and Reset: delivers %d bytes, a fresh Reader on the same input delivers %d (first diff at %d); next input %s; errors %v / %v", c.Pkg, c.Kind, len(a.Out), len(b.Out), firstDiff(a.Out, b.Out), c.Note, a.Err, b.Err)
	}
	if bufA != nil && bufB != nil && a.Err == io.EOF && b.Err == io.EOF {
		restA, _ := io.ReadAll(bufA)
		restB, _ := io.ReadAll(bufB)
		if !bytes.Equal(restA, restB) {
			return viol(c, "reset-consumption/"+c.Pkg, "%s Reader after Reset onto a %d-byte bufio.Reader leaves %d bytes after the stream unread, a fresh Reader leaves %d (the caller's %d bytes follow the stream)", c.Pkg, 16+c.K%300, len(restA), len(restB), len(c13Suffix))
		}
	}
	if errKind(a.Err) != errKind(b.Err) {
		return viol(c, fmt.Sprintf("reset-error/%s/%s", c.Pkg, nk), "%s Reader after history %q and Reset ends with %v, a fresh Reader with %v; next input %s", c.Pkg, c.Kind, a.Err, b.Err, c.Note)
	}
	st.Count("history:" + c.Kind)
	st.Count("next:" + nk)
	c.Sig = fmt.Sprintf("%s|%s|%s|%d|%d", c.Pkg, c.Kind, c.Note, sizeClass(len(c.Stream)), sizeClass(len(c.Stream2)))
	return nil
}

func checkC15(c *Case, st *Stats) *Violation {
	want, err := stdDecode(WCfg{Pkg: c.Pkg}, c.Stream)
	if err != nil {
		c.Trivial = true
		return nil
	}
	e := errSrcInjected
	if c.Kind == "B" {
		e = errSrcInjected2
	}
	if c.Kind == "W" {
		e = errSrcWrapsEOF // an error that is not io.EOF but wraps it
	}
	cs := &chunkSrc{data: c.Stream, chunks: c.Chunks, failAfter: c.K, failErr: e, failWith: c.EOFWith}
	var src io.Reader = cs
	if len(c.Src) > 6 && c.Src[:6] == "bufio:" {
		var n int
		fmt.Sscanf(c.Src, "bufio:%d", &n)
		src = newBufio(cs, n)
	}
	rd, cerr := newFastReader(c.Pkg, c.Ctor, src, nil)
	key := fmt.Sprintf("%s/%s", c.Pkg, map[bool]string{true: "with-data", false: "alone"}[c.EOFWith])
	if cerr != nil {
		if cerr != e {
			return viol(c, "ctor-error/"+key, "%s constructor over a source failing after %d bytes returned %v, want the source's error %v", c.Pkg, c.K, cerr, e)
		}
		c.Sig = fmt.Sprintf("%s|ctor|%v|%s", c.Pkg, c.EOFWith, c.Kind)
		return nil
	}
	if c.Pkg == "gzip" && !(len(c.Ints) > 0 && c.Ints[0] == 1) {
		rd.(interface{ Multistream(bool) }).Multistream(false)
	}
	run := runReader(rd, c.Reads, 1<<23)
	if v := basicReaderViolations(c, run); v != nil {
		return v
	}
	if !isPrefix(run.Out, want) {
		return viol(c, "bad-prefix/"+key, "source fails after %d of %d bytes: the %d bytes handed out are not a prefix of the true data (first diff %d)", c.K, len(c.Stream), len(run.Out), firstDiff(run.Out, want))
	}
	if run.Err == io.EOF && c.K >= len(c.Stream) && len(run.Out) == len(want) {
		// the stream was complete before the failure point: success is legitimate
		c.Sig = fmt.Sprintf("%s|complete|%v|%s", c.Pkg, c.EOFWith, c.Kind)
		return nil
	}
	if run.Err != e {
		return viol(c, "wrong-error/"+key+"/"+errKind(run.Err), "%s Reader (%s over %s): source fails with %q after %d of %d bytes (%s); Reader ended with %v after %d bytes", c.Pkg, c.Ctor, c.Src, e, c.K, len(c.Stream), map[bool]string{true: "together with the last bytes", false: "alone"}[c.EOFWith], run.Err, len(run.Out))
	}
	st.Count("pkg:" + c.Pkg)
	c.Sig = fmt.Sprintf("%s|%d|%v|%s|%s", c.Pkg, c.K*8/(len(c.Stream)+1), c.EOFWith, c.Kind, originOf(c.Note))
	c.Trivial = c.K == 0
	return nil
}
