package main

import (
	"bytes"
	"encoding/hex"
	"fmt"
	"strings"

	fflate "github.com/intel/fastgo/compress/flate"
)

// G correspondence: every recorded match-finder call (Go or assembly, whatever the acceleration level selects)
// is handed to the Lean model's executable leaf-contract check `checkGen` (proved in Proofs/TokenCheck.lean to
// imply Sound.gen for that call and the window discipline of C19): the tokens the call appended, executed the way
// an inflater executes them, must reproduce exactly the buffer bytes the call consumed, every match within the
// window. The harness itself checks that the buffer the match finder was given is the expected slice of the data
// written so far (the control model's buffer invariant).

func init() {
	corrGens["G"] = genGCases
}

type nullDst struct{ n int }

func (d *nullDst) Write(p []byte) (int, error) { d.n += len(p); return len(p), nil }

func tokString(ts []fflate.VerifTok) string {
	if len(ts) == 0 {
		return "-"
	}
	var sb strings.Builder
	for i, t := range ts {
		if i > 0 {
			sb.WriteByte(',')
		}
		switch {
		case t.Lit && t.B == 256:
			fmt.Fprintf(&sb, "l%d", t.A)
		case t.Lit:
			fmt.Fprintf(&sb, "p%d.%d", t.A, t.B)
		default:
			fmt.Fprintf(&sb, "m%d.%d", t.A, t.B)
		}
	}
	return sb.String()
}

func genGCases(r *Rng, tier string, n int) []corrCase {
	var cs []corrCase
	var stTok, stMatch, stPair, stMaxDist, stEarly, stBytes, stLong int
	defer func() {
		fmt.Printf("G-stats: calls=%d bytes=%d tokens=%d matches=%d len258=%d literal-pairs=%d maxdist=%d flush-calls-stopped-early=%d\n",
			len(cs), stBytes, stTok, stMatch, stLong, stPair, stMaxDist, stEarly)
	}()
	for len(cs) < n {
		lvl := r.Pick([]int{1, 2, -1})
		win4k := r.Bool()
		window := 32768
		if win4k {
			window = 4096
		}
		mx := r.Pick([]int{300, 3000, 9000, 70000, 140000})
		if win4k {
			mx = r.Pick([]int{300, 3000, 9000, 20000})
		}
		dst := &nullDst{}
		var w *fflate.Writer
		if win4k {
			w, _ = fflate.NewWriterwWith4KWindow(dst, lvl)
		} else {
			w, _ = fflate.NewWriter(dst, lvl)
		}
		log := w.VerifRecord()
		var all []byte // data of the current stream
		var desc []string
		type mark struct{ upto int } // log length at each Reset
		resetAt := map[int]int{}     // event index -> start of `all` segment is handled by cutting
		_ = resetAt
		segStart := 0 // index in *log where the current stream began
		var segs []struct {
			from, to int
			data     []byte
		}
		nops := 1 + r.Intn(6)
		for j := 0; j < nops; j++ {
			switch r.Intn(8) {
			case 0:
				w.Flush()
				desc = append(desc, "F")
			case 1:
				segs = append(segs, struct {
					from, to int
					data     []byte
				}{segStart, len(*log), all})
				w.Reset(dst)
				all = nil
				segStart = len(*log)
				desc = append(desc, "R")
			default:
				fam, d := RandPayload(r, mx)
				// several smaller writes now and then
				if r.Intn(3) == 0 && len(d) > 10 {
					c := r.Intn(len(d))
					w.Write(d[:c])
					w.Write(d[c:])
				} else {
					w.Write(d)
				}
				all = append(all, d...)
				desc = append(desc, fmt.Sprintf("W:%s:%d", fam, len(d)))
			}
		}
		w.Close()
		segs = append(segs, struct {
			from, to int
			data     []byte
		}{segStart, len(*log), all})
		d := fmt.Sprintf("L%d win=%d %s", lvl, window, strings.Join(desc, ","))
		// pick up to 4 match-finder calls of this history
		var idxs []int
		for si, sg := range segs {
			for k := sg.from; k < sg.to; k++ {
				if (*log)[k].Kind == "G" {
					idxs = append(idxs, si<<24|k)
				}
			}
		}
		for q := 0; q < 4 && len(idxs) > 0; q++ {
			p := r.Intn(len(idxs))
			si, k := idxs[p]>>24, idxs[p]&(1<<24-1)
			idxs = append(idxs[:p], idxs[p+1:]...)
			e := (*log)[k]
			data := segs[si].data
			base := e.Processed - e.Offset // absolute position of buffer[0]
			line := ""
			switch {
			case base < 0 || base+e.End > len(data) || !bytes.Equal(e.Input, data[base:base+e.End]):
				line = fmt.Sprintf("G-buffer-is-not-the-data-slice processed=%d offset=%d end=%d written=%d", e.Processed, e.Offset, e.End, len(data))
			case e.NOffset < e.Offset || e.NOffset > e.End:
				line = fmt.Sprintf("G-offset-out-of-range offset=%d noffset=%d end=%d", e.Offset, e.NOffset, e.End)
			case e.Flush && e.NOffset != e.End && e.NOffset <= e.Offset:
				// Sound.gen: a flush call consumes everything or, when it stops early (token buffer full), makes progress
				line = fmt.Sprintf("G-flush-call-made-no-progress offset=%d noffset=%d end=%d", e.Offset, e.NOffset, e.End)
			default:
				lo := e.Offset - window
				if lo < 0 {
					lo = 0
				}
				line = fmt.Sprintf("G %d %d %d %s %s", window, e.Offset-lo, e.NOffset-lo, hexOrDash(e.Input[lo:e.NOffset]), tokString(e.New))
			}
			_ = hex.EncodeToString
			stBytes += e.NOffset - e.Offset
			stTok += len(e.New)
			if e.Flush && e.NOffset != e.End {
				stEarly++
			}
			for _, t := range e.New {
				switch {
				case !t.Lit:
					stMatch++
					if int(t.B) > stMaxDist {
						stMaxDist = int(t.B)
					}
					if t.A == 258 {
						stLong++
					}
				case t.B != 256:
					stPair++
				}
			}
			cs = append(cs, corrCase{line: line, expect: "ok", desc: fmt.Sprintf("%s call#%d flush=%v offset=%d->%d tokens+%d", d, k, e.Flush, e.Offset, e.NOffset, len(e.New))})
		}
	}
	return cs
}
