package main

import (
	"fmt"
	"io"
	"strings"

	fflate "github.com/intel/fastgo/compress/flate"
	fgzip "github.com/intel/fastgo/compress/gzip"
	fzlib "github.com/intel/fastgo/compress/zlib"
)

// ZW / GW correspondences: the Lean models of zlib.Writer and gzip.Writer (Container/WriterWrap.lean: lazily written
// header, sticky error, closed flag, running checksum, trailer) over the Lean control model of the inner
// flate.Writer with replayed leaves, in lock-step with the implementation. Every history begins with an empty
// Write (it writes the header and creates the compressor, on which the recorder is then installed); destination
// faults are injected after the header (header failures are the business of the C14 oracle).

type wrapW interface {
	io.Writer
	Flush() error
	Close() error
	Reset(io.Writer)
	VerifCompressor() *fflate.Writer
}

func init() {
	corrGens["ZW"] = func(r *Rng, tier string, n int) []corrCase { return genWrapCases(r, tier, n, "zlib") }
	corrGens["GW"] = func(r *Rng, tier string, n int) []corrCase { return genWrapCases(r, tier, n, "gzip") }
}

func genWrapCases(r *Rng, tier string, n int, pkg string) []corrCase {
	var cs []corrCase
	for i := 0; i < n; i++ {
		lvl := r.Pick([]int{1, 2, -1})
		ops := []string{"w0"}
		data := [][]byte{nil}
		mx := r.Pick([]int{300, 9000, 70000, 140000})
		nops := 1 + r.Intn(9)
		for j := 0; j < nops; j++ {
			switch r.Intn(10) {
			case 0, 1:
				ops = append(ops, "f")
				data = append(data, nil)
			case 2:
				ops = append(ops, "c")
				data = append(data, nil)
			case 3:
				ops = append(ops, "r")
				data = append(data, nil)
			default:
				_, d := RandPayload(r, mx)
				if r.Intn(6) == 0 {
					d = d[:0]
				}
				if len(d) > 0 && len(d) <= 12000 {
					ops = append(ops, "x"+hexOrDash(d)) // real bytes: the model computes the trailer from them
				} else {
					ops = append(ops, fmt.Sprintf("w%d", len(d)))
					zeros := make([]byte, len(d)) // the model sees zeros for "w<len>"
					d = zeros
				}
				data = append(data, d)
			}
		}
		if r.Intn(3) != 0 {
			ops = append(ops, "c")
			data = append(data, nil)
		}
		// gzip header fields (Latin-1 without NUL), written as several destination calls
		name, comment, extra := "", "", []byte(nil)
		hdrCalls := 1
		if pkg == "gzip" {
			if r.Bool() {
				name = "n" + strings.Repeat("a", r.Intn(20))
				hdrCalls += 2
			}
			if r.Intn(3) == 0 {
				comment = "c" + strings.Repeat("b", r.Intn(30))
				hdrCalls += 2
			}
			if r.Intn(3) == 0 {
				extra = Payload(r, "text", r.Intn(40))
				if extra == nil {
					extra = []byte{}
				}
				hdrCalls += 2
			}
		}
		fails := map[int]bool{}
		var failList []string
		if r.Intn(3) == 0 {
			k := hdrCalls + r.Intn(12)
			fails[k] = true
			failList = append(failList, fmt.Sprint(k))
			if r.Bool() {
				for q := k + 1; q < k+60; q++ {
					fails[q] = true
					failList = append(failList, fmt.Sprint(q))
				}
			}
		}
		dst := &evDst{fails: fails}
		var w wrapW
		if pkg == "zlib" {
			zw, _ := fzlib.NewWriterLevel(dst, lvl)
			w = zw
		} else {
			gw, _ := fgzip.NewWriterLevel(dst, lvl)
			gw.Name, gw.Comment, gw.Extra = name, comment, extra
			w = gw
		}
		var log *[]fflate.VerifEvent
		empty := []fflate.VerifEvent{}
		dst.log = &empty // header writes happen before the recorder exists
		var lines []string
		for j, op := range ops {
			var nn int
			var err error
			switch op[0] {
			case 'w', 'x':
				nn, err = w.Write(data[j])
			case 'f':
				err = w.Flush()
			case 'c':
				err = w.Close()
			case 'r':
				nd := &evDst{w: dst.w, log: dst.log, fails: map[int]bool{}, last: dst.last}
				dst = nd
				w.Reset(dst)
			}
			if log == nil {
				if c := w.VerifCompressor(); c != nil {
					log = c.VerifRecord()
					dst.w, dst.log = c, log
				}
			}
			e := "ok"
			if err != nil {
				if err == errInjected {
					e = "injected"
				} else {
					e = "closed"
				}
			}
			idx, end, proc, toks := 0, 0, 0, 0
			if c := w.VerifCompressor(); c != nil {
				st := c.VerifState()
				idx, end, proc, toks = st.Idx, st.End, st.Processed, st.Tokens
			}
			extra := ""
			if j == 0 {
				extra = ",h=" + hexOrDash(dst.early)
			}
			if op[0] == 'c' && err == nil {
				extra = ",t=" + hexOrDash(dst.last)
			}
			lines = append(lines, fmt.Sprintf("%d,%s,%d,%d,%d,%d,%d%s", nn, e, idx, end, proc, toks, dst.calls, extra))
		}
		var evs []string
		if log != nil {
			for _, e := range *log {
				switch e.Kind {
				case "G":
					evs = append(evs, fmt.Sprintf("g:%d:%d:%d:%d:%d:%d:%d", b2i(e.Flush), e.End, e.Processed, e.Offset, e.TokIn, e.NOffset, e.TokOut))
				case "R":
					evs = append(evs, "r")
				case "D":
					if e.Tokens > 0 {
						evs = append(evs, fmt.Sprintf("d:%d:%d", e.Size, e.Tokens))
					}
				}
			}
		}
		expect := strings.Join(lines, ";") + " left=0 bad=-"
		fl := "-"
		if len(failList) > 0 {
			fl = strings.Join(failList, ",")
		}
		ev := "-"
		if len(evs) > 0 {
			ev = strings.Join(evs, ";")
		}
		var line string
		if pkg == "zlib" {
			line = fmt.Sprintf("ZW %d %d %d %s %s %s", lvl, 32768, 32767, fl, strings.Join(ops, ","), ev)
		} else {
			ex := "-"
			if extra != nil {
				ex = "e"
				if len(extra) > 0 {
					ex = hexOrDash(extra)
				}
			}
			line = fmt.Sprintf("GW %d %d %d %s %s %s %s %s %s", lvl, 32768, 32767, fl, ex, hexOrDash([]byte(name)), hexOrDash([]byte(comment)), strings.Join(ops, ","), ev)
		}
		cs = append(cs, corrCase{line: line, expect: expect, desc: fmt.Sprintf("%s L%d ops=%s fails=%s name=%q comment=%q extra=%v", pkg, lvl, opsBrief(ops), fl, name, comment, extra != nil)})
	}
	return cs
}

func opsBrief(ops []string) string {
	var b []string
	for _, o := range ops {
		if o[0] == 'x' {
			b = append(b, fmt.Sprintf("x(%d)", (len(o)-1)/2))
		} else {
			b = append(b, o)
		}
	}
	return strings.Join(b, ",")
}
