package main

import (
	"bufio"
	"bytes"
	sflate "compress/flate"
	sgzip "compress/gzip"
	szlib "compress/zlib"
	"errors"
	"fmt"
	"io"
	"runtime"
	"strings"

	fflate "github.com/intel/fastgo/compress/flate"
	fgzip "github.com/intel/fastgo/compress/gzip"
	fzlib "github.com/intel/fastgo/compress/zlib"
)

// chunkSrc is a plain io.Reader delivering data according to a schedule of chunk sizes
// (cycled; empty = everything at once). It can return io.EOF together with the last bytes,
// fail with an injected error after failAfter bytes (alone or together with data), and count reads.
type chunkSrc struct {
	data      []byte
	pos       int
	chunks    []int
	ci        int
	eofWith   bool
	failAfter int // -1 = never
	failErr   error
	failWith  bool // error returned together with the last bytes before it
	reads     int
	afterEnd  int // Read calls after EOF/error was first returned
	ended     bool
}

func (s *chunkSrc) Read(p []byte) (int, error) {
	s.reads++
	if s.ended {
		s.afterEnd++
	}
	if len(p) == 0 {
		return 0, nil
	}
	limit := len(s.data)
	if s.failAfter >= 0 && s.failAfter < limit {
		limit = s.failAfter
	}
	if s.pos >= limit {
		s.ended = true
		if s.failAfter >= 0 && s.failAfter <= len(s.data) && s.pos >= s.failAfter {
			return 0, s.failErr
		}
		return 0, io.EOF
	}
	n := len(p)
	if len(s.chunks) > 0 {
		c := s.chunks[s.ci%len(s.chunks)]
		s.ci++
		if c < 1 {
			c = 1
		}
		if c < n {
			n = c
		}
	}
	if s.pos+n > limit {
		n = limit - s.pos
	}
	copy(p, s.data[s.pos:s.pos+n])
	s.pos += n
	if s.pos == limit {
		if s.failAfter >= 0 && limit == s.failAfter {
			if s.failWith {
				s.ended = true
				return n, s.failErr
			}
		} else if s.eofWith {
			s.ended = true
			return n, io.EOF
		}
	}
	return n, nil
}

// customBR is a ByteReader that is none of the standard types.
type customBR struct {
	data []byte
	pos  int
}

func (c *customBR) Read(p []byte) (int, error) {
	if c.pos >= len(c.data) {
		return 0, io.EOF
	}
	n := copy(p, c.data[c.pos:])
	c.pos += n
	return n, nil
}
func (c *customBR) ReadByte() (byte, error) {
	if c.pos >= len(c.data) {
		return 0, io.EOF
	}
	b := c.data[c.pos]
	c.pos++
	return b, nil
}

// makeSource builds a source of the given kind over data; rest() returns what is still unread.
func makeSource(kind string, data []byte, c *Case) (src io.Reader, rest func() []byte) {
	switch {
	case kind == "bytes.Reader":
		r := bytes.NewReader(data)
		return r, func() []byte { b, _ := io.ReadAll(r); return b }
	case kind == "bytes.Buffer":
		r := bytes.NewBuffer(append([]byte{}, data...))
		return r, func() []byte { return r.Bytes() }
	case kind == "strings.Reader":
		r := strings.NewReader(string(data))
		return r, func() []byte { b, _ := io.ReadAll(r); return b }
	case kind == "custom":
		r := &customBR{data: data}
		return r, func() []byte { return r.data[r.pos:] }
	case strings.HasPrefix(kind, "bufio:"):
		var n int
		fmt.Sscanf(kind, "bufio:%d", &n)
		cs := &chunkSrc{data: data, failAfter: -1}
		if c != nil {
			cs.chunks, cs.eofWith = c.Chunks, c.EOFWith
		}
		r := bufio.NewReaderSize(cs, n)
		return r, func() []byte { b, _ := io.ReadAll(r); return b }
	default: // "plain"
		cs := &chunkSrc{data: data, failAfter: -1}
		if c != nil {
			cs.chunks, cs.eofWith = c.Chunks, c.EOFWith
		}
		return cs, func() []byte { return cs.data[cs.pos:] }
	}
}

type resetter interface {
	Reset(r io.Reader, dict []byte) error
}

// newFastReader builds a fastgo reader of pkg over src; ctor "new" or "reset" (constructed on another
// source first, used a little, then Reset onto src).
func newFastReader(pkg, ctor string, src io.Reader, dict []byte) (io.Reader, error) {
	switch pkg {
	case "flate":
		if ctor == "reset" {
			r := fflate.NewReader(bytes.NewReader(warmupFlate))
			io.ReadAll(r)
			if err := r.(resetter).Reset(src, dict); err != nil {
				return nil, err
			}
			return r, nil
		}
		if dict != nil {
			return fflate.NewReaderDict(src, dict), nil
		}
		return fflate.NewReader(src), nil
	case "gzip":
		if ctor == "reset" {
			r, err := fgzip.NewReader(bytes.NewReader(warmupGzip))
			if err != nil {
				return nil, err
			}
			io.ReadAll(r)
			if err := r.Reset(src); err != nil {
				return nil, err
			}
			return r, nil
		}
		return fgzip.NewReader(src)
	case "zlib":
		if ctor == "reset" {
			r, err := fzlib.NewReader(bytes.NewReader(warmupZlib))
			if err != nil {
				return nil, err
			}
			io.ReadAll(r)
			if err := r.(fzlib.Resetter).Reset(src, dict); err != nil {
				return nil, err
			}
			return r, nil
		}
		return fzlib.NewReaderDict(src, dict)
	}
	return nil, errors.New("bad pkg")
}

func newStdReader(pkg string, src io.Reader, dict []byte) (io.Reader, error) {
	switch pkg {
	case "flate":
		return sflate.NewReaderDict(src, dict), nil
	case "gzip":
		return sgzip.NewReader(src)
	case "zlib":
		return szlib.NewReaderDict(src, dict)
	}
	return nil, errors.New("bad pkg")
}

var warmupFlate, warmupGzip, warmupZlib []byte

func init() {
	text := []byte(strings.Repeat("warm-up stream, previous contents of the reader. ", 40))
	var b bytes.Buffer
	w, _ := sflate.NewWriter(&b, 6)
	w.Write(text)
	w.Close()
	warmupFlate = append([]byte{}, b.Bytes()...)
	b.Reset()
	gw := sgzip.NewWriter(&b)
	gw.Write(text)
	gw.Close()
	warmupGzip = append([]byte{}, b.Bytes()...)
	b.Reset()
	zw := szlib.NewWriter(&b)
	zw.Write(text)
	zw.Close()
	warmupZlib = append([]byte{}, b.Bytes()...)
}

type rRun struct {
	Out    []byte
	Err    error
	Ns     []int
	Panic  string
	Sticky string // "" fine, else description
	BadN   string
}

// runReader reads r with the given destination sizes until an error; then probes stickiness.
func runReader(r io.Reader, reads []int, limit int) (res rRun) {
	defer func() {
		if p := recover(); p != nil {
			buf := make([]byte, 4096)
			n := runtime.Stack(buf, false)
			res.Panic = fmt.Sprintf("%v\n%s", p, firstLines(string(buf[:n]), 16))
		}
	}()
	i, zero := 0, 0
	for {
		sz := 4096
		if len(reads) > 0 {
			sz = reads[i%len(reads)]
			i++
		}
		buf := make([]byte, sz+8)
		for k := range buf {
			buf[k] = 0xA5
		}
		n, e := r.Read(buf[:sz])
		if n < 0 || n > sz {
			res.BadN = fmt.Sprintf("Read returned n=%d for a %d-byte buffer (err=%v)", n, sz, e)
			if n > len(buf) || n < 0 {
				n = 0
			}
		}
		res.Ns = append(res.Ns, n)
		res.Out = append(res.Out, buf[:min(n, sz)]...)
		if e != nil {
			res.Err = e
			break
		}
		if n == 0 && sz > 0 {
			zero++
			if zero > 2000 {
				res.Err = errors.New("Read keeps returning (0, nil)")
				return
			}
		} else {
			zero = 0
		}
		if limit > 0 && len(res.Out) > limit {
			res.Err = errors.New("output limit exceeded")
			return
		}
	}
	for k := 0; k < 2; k++ {
		buf := make([]byte, 64)
		n, e := r.Read(buf)
		if n != 0 || e != res.Err {
			if n != 0 || e == nil || e.Error() != res.Err.Error() {
				res.Sticky = fmt.Sprintf("Read #%d after the first error %v returned (%d, %v)", k+1, res.Err, n, e)
				return
			}
		}
	}
	return
}

func readPattern(r *Rng) []int {
	switch r.Intn(7) {
	case 0:
		return []int{1}
	case 1:
		return []int{1 << 16}
	case 2:
		return []int{4096}
	case 3:
		return []int{1 + r.Intn(16), 1 + r.Intn(4096), 1, 65536}
	case 4:
		return []int{0, 1 + r.Intn(300)}
	case 5:
		return []int{257 + r.Intn(3), 32768 + r.Intn(3)}
	}
	return []int{1 + r.Intn(70000)}
}

func chunkPattern(r *Rng) []int {
	switch r.Intn(7) {
	case 0:
		return nil
	case 1:
		return []int{1}
	case 2:
		return []int{1 + r.Intn(7), 1 + r.Intn(300)}
	case 3:
		return []int{4096}
	case 4:
		return []int{1 + r.Intn(40), 1, 2, 3}
	case 5:
		return []int{23, 24, 25, 1, 273, 274}
	}
	return []int{1 + r.Intn(5000)}
}

var bufSizes = []int{16, 17, 32, 64, 328, 329, 1024, 4095, 4096, 4097, 8192, 65536, 1 << 20}

func newBufio(r io.Reader, n int) *bufio.Reader { return bufio.NewReaderSize(r, n) }
