package main

import (
	"fmt"
	"strings"

	fflate "github.com/intel/fastgo/compress/flate"
)

// E correspondence: every block a real block encoder emits — Huffman code generation, dynamic header, token /
// byte packing in Go or assembly at whatever acceleration level is selected, bit buffer — is handed to the Lean
// check `checkEnc` (Proofs/BlockFrame.lean). The check runs the specification inflater on exactly the bits of that
// block and verifies that the declared codes are prefix-free; `checkEnc_gives_enc` PROVES that a passed check gives
// the `enc` clause of the leaf contract Writer.Sound for that call (the block decodes to the data it stands for
// whatever follows it). The harness reconstructs each call from what its destination saw: the bytes of every
// destination write and the bit-buffer carry (hook VerifState: BitLen/Bits) at that moment; block boundaries come
// from the pending-token count (dynamic compressor) or the block counter (Huffman-only compressor); the data a block
// stands for comes from the recorded match-finder calls (bytes consumed since the previous block). The check is given
// the last 32 KiB of the data encoded before the block as history (no DEFLATE distance reaches further);
// `IsBlock.extend_history` proves that the result holds for the whole history.

func init() {
	corrGens["E"] = genECases
}

type eWrite struct {
	data   []byte
	tokens int
	bitLen int
	bits   uint64
	blocks int
	offset int
	glog   int
}

type eDst struct {
	w   *fflate.Writer
	log *[]fflate.VerifEvent
	ws  []eWrite
}

func (d *eDst) Write(p []byte) (int, error) {
	st := d.w.VerifState()
	g := 0
	if d.log != nil {
		g = len(*d.log)
	}
	d.ws = append(d.ws, eWrite{data: append([]byte(nil), p...), tokens: st.Tokens, bitLen: st.BitLen, bits: st.Bits, blocks: st.Blocks, offset: st.Offset, glog: g})
	return len(p), nil
}

func bitString(bits uint64, n int) string {
	if n <= 0 {
		return "-"
	}
	var sb strings.Builder
	for i := 0; i < n; i++ {
		if bits>>uint(i)&1 == 1 {
			sb.WriteByte('1')
		} else {
			sb.WriteByte('0')
		}
	}
	return sb.String()
}

func genECases(r *Rng, tier string, n int) []corrCase {
	var cs []corrCase
	var stBlocks, stFinal, stBytesIn, stBytesOut, stHuff, stMulti int
	defer func() {
		fmt.Printf("E-stats: blocks=%d final=%d huffman-only=%d multi-chunk=%d data-bytes=%d emitted-bytes=%d\n", stBlocks, stFinal, stHuff, stMulti, stBytesIn, stBytesOut)
	}()
	for len(cs) < n {
		huff := r.Intn(4) == 0
		lvl := r.Pick([]int{1, 2, -1})
		win4k := r.Bool()
		if huff {
			lvl, win4k = -2, false
		}
		mx := r.Pick([]int{40, 300, 300, 3000, 3000, 9000, 9000, 40000, 70000})
		if huff {
			mx = r.Pick([]int{40, 300, 3000, 3000, 9000, 70000, 140000})
		}
		dst := &eDst{}
		var w *fflate.Writer
		if win4k {
			w, _ = fflate.NewWriterwWith4KWindow(dst, lvl)
		} else {
			w, _ = fflate.NewWriter(dst, lvl)
		}
		dst.w = w
		var log *[]fflate.VerifEvent
		if !huff {
			log = w.VerifRecord()
			dst.log = log
		}
		var all []byte
		var desc []string
		type opRec struct {
			kind   string
			w0, w1 int // destination writes of this op
			acc    int // bytes accepted by Write calls up to and including this op
		}
		var ops []opRec
		nops := 1 + r.Intn(5)
		for j := 0; j <= nops; j++ {
			w0 := len(dst.ws)
			k := "W"
			switch {
			case j == nops:
				k = "C"
				w.Close()
			case r.Intn(5) == 0:
				k = "F"
				w.Flush()
			default:
				fam, d := RandPayload(r, mx)
				if huff && r.Intn(3) == 0 { // deepest codes adjacent in the scalar tail of the byte encoder
					fam, d = "steeptail", Payload(r, "steeptail", r.Pick([]int{300, 3000, 33000, 40000}))
				}
				if len(d) > 200000 {
					d = d[:200000]
				}
				if r.Intn(3) == 0 && len(d) > 10 {
					c := r.Intn(len(d))
					w.Write(d[:c])
					w.Write(d[c:])
				} else {
					w.Write(d)
				}
				all = append(all, d...)
				k = fmt.Sprintf("W:%s:%d", fam, len(d))
			}
			desc = append(desc, k)
			ops = append(ops, opRec{kind: k[:1], w0: w0, w1: len(dst.ws), acc: len(all)})
		}
		d := fmt.Sprintf("L%d win4k=%v %s", lvl, win4k, strings.Join(desc, ","))
		// ---- cut the destination writes into blocks
		q := 0       // data bytes covered by the blocks so far
		lastG := 0   // match-finder events consumed so far
		emitted := 0 // bytes at the destination before the current write
		carryLen, carryBits := 0, uint64(0)
		prevBlocks := 0
		for _, op := range ops {
			i := op.w0
			for i < op.w1 {
				wr := dst.ws[i]
				inBlock := false
				if huff {
					inBlock = wr.offset > 0 && wr.blocks > prevBlocks
				} else {
					inBlock = wr.tokens > 0
				}
				if !inBlock {
					// an empty stored block (Flush, or Close with nothing buffered): modelled and proved in Lean (emptyStored_bits)
					emitted += len(wr.data)
					carryLen, carryBits = wr.bitLen, wr.bits
					i++
					continue
				}
				j := i
				var out []byte
				for j < op.w1 {
					x := dst.ws[j]
					same := false
					if huff {
						same = x.offset > 0 && x.blocks == wr.blocks
					} else {
						same = x.tokens > 0 && x.glog == wr.glog
					}
					if !same {
						break
					}
					out = append(out, x.data...)
					j++
				}
				last := dst.ws[j-1]
				// the data this block stands for
				var xlen int
				final := false
				if huff {
					if op.kind == "W" {
						xlen = 65536
					} else {
						xlen = op.acc - q
					}
					final = op.kind == "C"
					prevBlocks = wr.blocks
				} else {
					var lastEv fflate.VerifEvent
					for k := lastG; k < wr.glog; k++ {
						e := (*log)[k]
						if e.Kind == "G" {
							xlen += e.NOffset - e.Offset
							lastEv = e
						}
					}
					lastG = wr.glog
					final = op.kind == "C" && lastEv.NOffset == lastEv.End
				}
				line := ""
				if q+xlen > len(all) || xlen < 0 {
					line = fmt.Sprintf("E-block-covers-more-than-was-written q=%d x=%d written=%d", q, xlen, len(all))
				} else {
					pos := 8*emitted + carryLen
					fin := "0"
					if final {
						fin = "1"
					}
					line = fmt.Sprintf("E %d %s %s %s %s %s %s", pos, bitString(carryBits, carryLen), hexOrDash(out), bitString(last.bits, last.bitLen), fin, hexOrDash(all[max(0, q-32768):q]), hexOrDash(all[q:q+xlen]))
				}
				stBlocks++
				if final {
					stFinal++
				}
				if huff {
					stHuff++
				}
				if j-i > 1 {
					stMulti++
				}
				stBytesIn += xlen
				stBytesOut += len(out)
				cs = append(cs, corrCase{line: line, expect: "ok", desc: fmt.Sprintf("%s block@data[%d:%d] final=%v chunks=%d carry=%d->%d", d, q, q+xlen, final, j-i, carryLen, last.bitLen)})
				q += xlen
				emitted += len(out)
				carryLen, carryBits = last.bitLen, last.bits
				i = j
			}
		}
		if q != len(all) {
			cs = append(cs, corrCase{line: fmt.Sprintf("E-blocks-do-not-cover-the-data covered=%d written=%d", q, len(all)), expect: "ok", desc: d})
		}
	}
	return cs
}
