package main

import (
	"bytes"
	sflate "compress/flate"
	"crypto/sha256"
	"encoding/hex"
	"fmt"
	"io"
)

// genValidStream returns a DEFLATE stream that compress/flate accepts, how it was made, and its output.
func genValidStream(r *Rng, tier string) (stream, out []byte, how string) {
	mx := 70000
	if tier == "thorough" && r.Intn(6) == 0 {
		mx = 600000
	}
	for tries := 0; tries < 20; tries++ {
		pick := r.Intn(10)
		if genNoFastgo && pick >= 7 {
			pick = 4 + r.Intn(3)
		}
		if r.Intn(12) == 0 {
			pick = 10 + r.Intn(3)
			if genNoFastgo && pick == 11 {
				pick = 12
			}
		}
		switch pick {
		case 10: // only fixed-Huffman blocks, with back-references (the fixed tables are shared state of the Reader)
			s, o2, d := Synthesize(r, SynthOpts{MaxBlocks: r.Pick([]int{1, 2, 3}), MaxTokens: r.Pick([]int{20, 60, 600}), StdCompat: true, ForceKind: 1})
			chk, err := stdDecodeRaw(s, nil)
			if err != io.EOF || !bytes.Equal(chk, o2) {
				continue
			}
			return s, o2, "synth:fixedonly:" + d
		case 11: // a data-carrying FINAL block whose output ends within a few bytes of the 64 KiB window
			fam := payloadFamilies[r.Intn(len(payloadFamilies))]
			data := Payload(r, fam, 65536+r.Intn(6)-1)
			if len(data) < 65535 || len(data) > 65541 {
				continue
			}
			cfg := WCfg{Pkg: "flate", Level: accelLevels[r.Intn(4)], Win4K: r.Intn(4) == 0}
			tr := runOps(cfg, []Op{{K: "W", D: data}, {K: "C"}}, 0, false)
			chk, err := stdDecodeRaw(tr.Out, nil)
			if err != io.EOF || !bytes.Equal(chk, data) {
				continue
			}
			return tr.Out, data, "fastgo:edge64k:" + cfg.String()
		case 12:
			return genEdgeStored(r)
		case 0:
			if r.Intn(2) == 0 {
				s, o2, d := SynthBoundary(r)
				chk, err := stdDecodeRaw(s, nil)
				if err != io.EOF || !bytes.Equal(chk, o2) {
					continue
				}
				return s, o2, "synth:" + d
			}
			fallthrough
		case 1, 2, 3:
			o := SynthOpts{MaxBlocks: r.Pick([]int{1, 2, 5, 12}), MaxTokens: r.Pick([]int{5, 60, 600, 6000}), StdCompat: true,
				BigStored: r.Intn(4) == 0, ManyTiny: r.Intn(25) == 0, FarDist: r.Intn(3) == 0, LongCodes: r.Intn(3) == 0, ManyDist: r.Intn(4) == 0, Tight: r.Intn(4) == 0}
			s, o2, d := Synthesize(r, o)
			chk, err := stdDecodeRaw(s, nil)
			if err != io.EOF || !bytes.Equal(chk, o2) {
				continue // synthesiser is untrusted: only streams compress/flate accepts count
			}
			return s, o2, "synth:" + d
		case 4, 5, 6:
			_, data := RandPayload(r, mx)
			lvl := allLevels[r.Intn(len(allLevels))]
			var b bytes.Buffer
			w, _ := sflate.NewWriter(&b, lvl)
			for _, op := range SplitOps(r, data, r.Intn(5), r.Pick([]int{0, 0, 30})) {
				if op.K == "W" {
					w.Write(op.D)
				} else {
					w.Flush()
				}
			}
			w.Close()
			return b.Bytes(), data, fmt.Sprintf("stdlib:L%d", lvl)
		default:
			_, data := RandPayload(r, mx)
			cfg := WCfg{Pkg: "flate", Level: accelLevels[r.Intn(4)], Win4K: r.Intn(4) == 0}
			ops := append(SplitOps(r, data, r.Intn(5), r.Pick([]int{0, 0, 30})), Op{K: "C"})
			tr := runOps(cfg, ops, 0, false)
			chk, err := stdDecodeRaw(tr.Out, nil)
			if err != io.EOF || !bytes.Equal(chk, data) {
				continue // a broken encoder is C01's business; the reader properties need valid streams
			}
			return tr.Out, data, "fastgo:" + cfg.String()
		}
	}
	// fallback: empty stored final block
	return []byte{1, 0, 0, 0xff, 0xff}, []byte{}, "fallback"
}

// genEdgeStored: a block ending exactly at (or next to) output offset 65536 followed, in the same stream, by a
// stored block (what compress/flate emits for incompressible data after a Flush).
func genEdgeStored(r *Rng) (stream, out []byte, how string) {
	n1 := 65536 + r.Pick([]int{0, 0, 0, -1, 1, 2})
	d1 := Payload(r, r.Pick2("text", "alpha", "periodic"), n1)
	for len(d1) < n1 {
		d1 = append(d1, d1...)
	}
	d1 = d1[:n1]
	d2 := Payload(r, "random", r.Pick([]int{1, 2, 300, 3000, 40000}))
	var b bytes.Buffer
	w, _ := sflate.NewWriter(&b, r.Pick([]int{6, 1, 9}))
	w.Write(d1)
	w.Flush()
	w.Write(d2)
	w.Close()
	return b.Bytes(), append(append([]byte{}, d1...), d2...), fmt.Sprintf("stdlib:edge64k%+d-stored", n1-65536)
}

// genNoFastgo makes generated streams independent of the acceleration level (needed when the same
// case list must be produced in different processes).
var genNoFastgo bool

func digestOf(out []byte, err error) string {
	h := sha256.Sum256(out)
	return fmt.Sprintf("%d:%s:%s", len(out), hex.EncodeToString(h[:6]), errKind(err))
}

// errKind maps an error to the outcome kinds the properties distinguish.
func errKind(err error) string {
	c := errClass(err)
	if len(c) > 6 && c[:6] == "other:" {
		return "other"
	}
	return c
}

func isPrefix(p, full []byte) bool { return len(p) <= len(full) && bytes.Equal(p, full[:len(p)]) }

func init() {
	// ------------------------------------------------------------------ C02
	register(&Property{ID: "C02",
		Rule: "streams accepted by compress/flate: synthesised block by block (stored/fixed/dynamic, 1..15-bit codes, degenerate distance trees, overlapping copies, distance 32768, empty blocks, many tiny blocks) and made by the stdlib and fastgo encoders; x destination size patterns x source kinds; non-trivial = output non-empty; distinct by (origin, block-type description, size class, read pattern, source kind)",
		Gen: func(r *Rng, tier string) []Case {
			var cs []Case
			for i := 0; i < tierN(tier, 500, 8000); i++ {
				s, _, how := genValidStream(r, tier)
				if i%5 == 4 {
					// a block (or a match, or a packed literal group) ending right where the 64 KiB output window fills
					s, _, how = SynthBoundary(r)
					how = "synth:" + how
				}
				if i%25 == 7 {
					s, _, how = genEdgeStored(r)
				}
				c := Case{Prop: "C02", Stream: s, Reads: readPattern(r), Note: how, Chunks: chunkPattern(r), EOFWith: r.Bool()}
				c.Src = r.Pick2("bytes.Reader", "plain", "bufio:4096", "bufio:65536", "bufio:64")
				c.Ctor = r.Pick2("new", "new", "reset", "reset4")
				cs = append(cs, c)
			}
			return cs
		},
		Check: func(c *Case, st *Stats) *Violation {
			want, err := stdDecodeRaw(c.Stream, nil)
			if err != io.EOF {
				c.Trivial = true
				st.Count("skipped:std-rejects")
				return nil
			}
			src, _ := makeSource(c.Src, c.Stream, c)
			var rd io.Reader
			if c.Ctor == "reset4" {
				rd = reusedReader(c.Ctor, src)
			} else {
				rd, _ = newFastReader("flate", c.Ctor, src, nil)
			}
			run := runReader(rd, c.Reads, len(want)+4096)
			if v := basicReaderViolations(c, run); v != nil {
				return v
			}
			if !bytes.Equal(run.Out, want) || run.Err != io.EOF {
				return viol(c, "differs/"+originOf(c.Note), "stream (%s, %d bytes) that compress/flate decodes to %d bytes: fastgo returned %d bytes (first diff at %d) and %v", c.Note, len(c.Stream), len(want), len(run.Out), firstDiff(run.Out, want), run.Err)
			}
			st.Count("origin:" + originOf(c.Note))
			c.Sig = fmt.Sprintf("%s|%d|%v|%s|%s", c.Note, sizeClass(len(want)), c.Reads, c.Src, c.Ctor)
			c.Trivial = len(want) == 0
			return nil
		}})

	// ------------------------------------------------------------------ C03
	register(&Property{ID: "C03",
		Rule: "malformed inputs: synthesised streams with one injected fault (14 fault kinds), every-byte truncations of valid streams, single/multi bit flips of valid streams, random bytes; each first in a fresh Reader or after another stream in a reused one; non-trivial = the reference inflater does not accept the input; distinct by (kind, fault, verdict, reference reason, fresh/reused, size class)",
		Gen: func(r *Rng, tier string) []Case {
			var cs []Case
			for i := 0; i < tierN(tier, 1400, 25000); i++ {
				f := faultNames[i%len(faultNames)]
				o := SynthOpts{MaxBlocks: r.Pick([]int{1, 2, 4}), MaxTokens: r.Pick([]int{5, 60, 600, 5000}), Fault: f, FarDist: r.Intn(4) == 0, LongCodes: r.Intn(3) == 0}
				s, _, d := Synthesize(r, o)
				cs = append(cs, Case{Prop: "C03", Kind: "fault", Stream: s, Note: f + ":" + d, Ctor: r.Pick2("new", "reset", "reset2", "reset3", "reset4"), Reads: readPattern(r), Chunks: chunkPattern(r), Src: r.Pick2("bytes.Reader", "plain", "bufio:4096")})
			}
			for i := 0; i < tierN(tier, 20, 200); i++ {
				s, _, how := genValidStream(r, "quick")
				if len(s) > 600 {
					// every byte near the start and the end, sampled in the middle
					for k := 0; k < len(s); k++ {
						if k < 150 || k > len(s)-150 || r.Intn(len(s)/100+1) == 0 {
							cs = append(cs, Case{Prop: "C03", Kind: "truncated-valid", Stream: s[:k], Note: how, Ctor: r.Pick2("new", "reset"), Reads: readPattern(r), Src: r.Pick2("bytes.Reader", "plain")})
						}
					}
				} else {
					for k := 0; k < len(s); k++ {
						cs = append(cs, Case{Prop: "C03", Kind: "truncated-valid", Stream: s[:k], Note: how, Ctor: r.Pick2("new", "reset"), Reads: readPattern(r), Src: r.Pick2("bytes.Reader", "plain")})
					}
				}
			}
			for i := 0; i < tierN(tier, 1500, 30000); i++ {
				s, _, how := genValidStream(r, "quick")
				if len(s) > 20000 {
					s = s[:20000]
				}
				m := append([]byte{}, s...)
				for k := 1 + r.Intn(3); k > 0 && len(m) > 0; k-- {
					p := r.Intn(len(m))
					if r.Intn(3) == 0 && len(m) > 40 {
						p = r.Intn(40) // headers are where structure lives
					}
					m[p] ^= 1 << uint(r.Intn(8))
				}
				cs = append(cs, Case{Prop: "C03", Kind: "bitflip", Stream: m, Note: how, Ctor: r.Pick2("new", "reset", "reset3", "reset4"), Reads: readPattern(r), Src: r.Pick2("bytes.Reader", "plain"), Chunks: chunkPattern(r)})
			}
			for i := 0; i < tierN(tier, 300, 5000); i++ {
				m := r.Bytes(1 + r.Intn(300))
				m[0] = m[0]&0xf8 | byte(r.Pick([]int{4, 5, 2, 3, 0, 1}))
				cs = append(cs, Case{Prop: "C03", Kind: "random", Stream: m, Ctor: r.Pick2("new", "reset"), Reads: readPattern(r), Src: "bytes.Reader"})
			}
			return cs
		},
		Check: checkC03})

	// ------------------------------------------------------------------ C04
	register(&Property{ID: "C04",
		Rule: "valid streams and valid streams cut at a random byte x delivery schedules (1 byte per read, random short reads, data+EOF together, bufio sizes 16..1 MiB via NewReader and Reset) x destination size patterns, compared with the all-at-once run; non-trivial = stream >= 16 bytes and schedule != all-at-once; distinct by (origin, cut?, chunk pattern, bufsize, reads, ctor)",
		Gen: func(r *Rng, tier string) []Case {
			var cs []Case
			for i := 0; i < tierN(tier, 150, 2000); i++ {
				s, _, how := genValidStream(r, tier)
				if i%3 == 2 {
					s, _, how = SynthBoundary(r)
					how = "synth:" + how
				}
				if i%12 == 6 {
					s, _, how = genEdgeStored(r)
				}
				if i%3 == 1 {
					// small alphabet, output a little beyond the 64 KiB window: packed [literal.., length] table
					// entries meet the window edge while the distance code is still missing from the input
					alpha := 2 + r.Intn(7)
					d := make([]byte, 65536+200+r.Intn(500))
					for q := range d {
						d[q] = byte('a' + r.Intn(alpha))
					}
					s = stdDeflate(d, r.Pick([]int{1, 6, 9}))
					how = fmt.Sprintf("stdlib:alpha%d", alpha)
				}
				kind := "valid"
				nSched := 8
				for j := 0; j < nSched; j++ {
					st := s
					kind = "valid"
					if j%2 == 1 && len(s) > 1 {
						st = s[:r.Intn(len(s))]
						kind = "truncated"
					}
					c := Case{Prop: "C04", Kind: kind, Stream: st, Note: how, Chunks: chunkPattern(r), EOFWith: r.Bool(), Reads: readPattern(r), Ctor: r.Pick2("new", "reset")}
					if j == 0 {
						c.Chunks = []int{1} // one byte per source read: every symbol that needs more input is rolled back
					}
					if r.Intn(3) != 0 {
						c.BufSize = bufSizes[r.Intn(len(bufSizes))]
					}
					cs = append(cs, c)
				}
			}
			// small-alphabet streams a little longer than the 64 KiB window, one byte per source read
			for i := 0; i < tierN(tier, 400, 4000); i++ {
				alpha := 2 + r.Intn(7)
				d := make([]byte, 65536+100+r.Intn(700))
				for q := range d {
					d[q] = byte('a' + r.Intn(alpha))
				}
				s := stdDeflate(d, r.Pick([]int{1, 6, 9, -1}))
				cs = append(cs, Case{Prop: "C04", Kind: "valid", Stream: s, Note: fmt.Sprintf("stdlib:alpha%d", alpha), Chunks: []int{1}, Reads: readPattern(r), Ctor: r.Pick2("new", "reset"), BufSize: r.Pick([]int{0, 0, 64, 4096})})
			}
			return cs
		},
		Check: checkC04})
}

func originOf(note string) string {
	for i := 0; i < len(note); i++ {
		if note[i] == ':' {
			return note[:i]
		}
	}
	return note
}

func basicReaderViolations(c *Case, run rRun) *Violation {
	if run.Panic != "" {
		return viol(c, "panic", "Reader panicked: %s", run.Panic)
	}
	if run.BadN != "" {
		return viol(c, "bad-count", "%s", run.BadN)
	}
	if run.Sticky != "" {
		return viol(c, "not-sticky", "%s", run.Sticky)
	}
	return nil
}

// prevStreamFor builds the earlier use of a reused Reader: its output is long and distinctive so that a
// leak of old history or old undelivered output is visible.
func reusedReader(ctor string, src io.Reader) io.Reader {
	rd, _ := newFastReader("flate", "new", bytes.NewReader(warmupFlate), nil)
	switch ctor {
	case "reset":
		io.ReadAll(rd)
	case "reset2": // abandon the first stream in the middle, with undelivered output pending
		buf := make([]byte, 100)
		rd.Read(buf)
	case "reset3": // earlier stream cut inside its (dynamic) block header: staged header bytes pending
		rd, _ = newFastReader("flate", "new", bytes.NewReader(warmupFlate[:3+len(warmupFlate)%17]), nil)
		io.ReadAll(rd)
	case "reset4": // a fixed-Huffman stream, then a dynamic header rejected AFTER its distance table was built
		rd, _ = newFastReader("flate", "new", bytes.NewReader(histFixed), nil)
		io.ReadAll(rd)
		rd.(resetter).Reset(bytes.NewReader(histBadDyn), nil)
		io.ReadAll(rd)
	}
	rd.(resetter).Reset(src, nil)
	return rd
}

// histories for the "reset4" reuse: streams built once from a fixed seed
var histFixed, histBadDyn []byte

func init() {
	r0 := NewRng(20260929)
	for {
		s, o, _ := Synthesize(r0, SynthOpts{MaxBlocks: 1, MaxTokens: 40, StdCompat: true, ForceKind: 1})
		if chk, err := stdDecodeRaw(s, nil); err == io.EOF && bytes.Equal(chk, o) && len(o) > 10 {
			histFixed = s
			break
		}
	}
	for {
		s, _, _ := Synthesize(r0, SynthOpts{MaxBlocks: 1, MaxTokens: 200, Fault: "oversubscribed", ForceKind: 2, ManyDist: true})
		if _, err := stdDecodeRaw(s, nil); err != io.EOF {
			histBadDyn = s
			break
		}
	}
}

func checkC03(c *Case, st *Stats) *Violation {
	limit := 1 << 22
	ref := RefInflate(c.Stream, false, nil, limit)
	strict := RefInflate(c.Stream, true, nil, limit)
	src, _ := makeSource(c.Src, c.Stream, c)
	var rd io.Reader
	if c.Ctor == "new" {
		rd, _ = newFastReader("flate", "new", src, nil)
	} else {
		rd = reusedReader(c.Ctor, src)
	}
	run := runReader(rd, c.Reads, limit+4096)
	if v := basicReaderViolations(c, run); v != nil {
		return v
	}
	kind := errKind(run.Err)
	key := c.Kind + "/" + c.Ctor
	if ref.Why == "output limit" {
		c.Trivial = true
		return nil
	}
	if !isPrefix(run.Out, ref.Out) {
		return viol(c, "invented-data/"+key, "%s input (%s): Reader handed out %d bytes, byte %d is not what the reference inflater produces there (reference: %s/%s, %d bytes); error %v", c.Kind, c.Note, len(run.Out), firstDiff(run.Out, ref.Out), ref.Verdict, ref.Why, len(ref.Out), run.Err)
	}
	switch {
	case kind == "EOF":
		if ref.Verdict != "done" {
			return viol(c, "eof-on-malformed/"+key, "%s input (%s): Reader ended with io.EOF after %d bytes but the input is not a complete well-formed stream (reference: %s, %s)", c.Kind, c.Note, len(run.Out), ref.Verdict, ref.Why)
		}
		if len(run.Out) != len(ref.Out) {
			return viol(c, "eof-short/"+key, "Reader ended with io.EOF after %d of %d bytes", len(run.Out), len(ref.Out))
		}
	case kind == "UnexpectedEOF":
		if strict.Verdict == "done" {
			return viol(c, "valid-rejected/"+key, "complete valid stream ended in unexpected EOF")
		}
	case kind == "Corrupt":
		if strict.Verdict == "done" {
			return viol(c, "valid-rejected/"+key, "complete valid stream reported as corrupt")
		}
		if c.Kind == "truncated-valid" {
			return viol(c, "truncated-as-corrupt/"+key, "valid stream (%s) cut at byte %d ended in %v, want io.ErrUnexpectedEOF", c.Note, len(c.Stream), run.Err)
		}
	default:
		return viol(c, "wrong-error/"+key, "%s input: Reader ended with %v (want io.EOF, io.ErrUnexpectedEOF or flate.CorruptInputError)", c.Kind, run.Err)
	}
	st.Count("kind:" + c.Kind)
	st.Count("verdict:" + ref.Verdict + "/" + kind)
	st.Count("why:" + ref.Why)
	c.Sig = fmt.Sprintf("%s|%s|%s|%s|%s|%d", c.Kind, originOf(c.Note), ref.Verdict, ref.Why, c.Ctor, sizeClass(len(c.Stream)))
	c.Trivial = strict.Verdict == "done"
	return nil
}

// runSchedule runs the fastgo flate Reader over stream under the case's delivery schedule.
func runSchedule(c *Case, stream []byte, baseline bool) rRun {
	var src io.Reader
	cs := &chunkSrc{data: stream, failAfter: -1}
	reads := c.Reads
	ctor := c.Ctor
	if baseline {
		reads = []int{1 << 16}
		ctor = "new"
	} else {
		cs.chunks, cs.eofWith = c.Chunks, c.EOFWith
	}
	src = cs
	if !baseline && c.BufSize > 0 {
		src = newBufio(cs, c.BufSize)
	}
	rd, _ := newFastReader("flate", ctor, src, nil)
	return runReader(rd, reads, 1<<23)
}

func checkC04(c *Case, st *Stats) *Violation {
	a := runSchedule(c, c.Stream, true)
	b := runSchedule(c, c.Stream, false)
	if v := basicReaderViolations(c, a); v != nil {
		return v
	}
	if v := basicReaderViolations(c, b); v != nil {
		return v
	}
	if errKind(a.Err) != errKind(b.Err) {
		return viol(c, "error-differs/"+c.Kind, "%s stream (%s): all-at-once run ends with %v, scheduled run (chunks %v eof-with-data=%v bufsize=%d reads %v ctor=%s) ends with %v", c.Kind, c.Note, a.Err, c.Chunks, c.EOFWith, c.BufSize, c.Reads, c.Ctor, b.Err)
	}
	if !bytes.Equal(a.Out, b.Out) {
		key := "output-differs/" + c.Kind
		d := len(a.Out) - len(b.Out)
		if d < 0 {
			d = -d
		}
		if c.Kind == "truncated" && d <= 2 && (isPrefix(a.Out, b.Out) || isPrefix(b.Out, a.Out)) {
			key = "truncated-tail<=2"
		}
		return viol(c, key, "%s stream (%s, %d bytes): all-at-once run delivers %d bytes, scheduled run (chunks %v eof-with-data=%v bufsize=%d reads %v ctor=%s) delivers %d bytes (first diff at %d); final error %v", c.Kind, c.Note, len(c.Stream), len(a.Out), c.Chunks, c.EOFWith, c.BufSize, c.Reads, c.Ctor, len(b.Out), firstDiff(a.Out, b.Out), b.Err)
	}
	st.Count("kind:" + c.Kind)
	c.Sig = fmt.Sprintf("%s|%s|%v|%v|%d|%v|%s", c.Kind, originOf(c.Note), c.Chunks, c.EOFWith, c.BufSize, c.Reads, c.Ctor)
	c.Trivial = len(c.Stream) < 16 || (len(c.Chunks) == 0 && c.BufSize == 0)
	return nil
}
