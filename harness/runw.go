package main

import (
	"bytes"
	sflate "compress/flate"
	sgzip "compress/gzip"
	szlib "compress/zlib"
	"errors"
	"fmt"
	"io"
	"runtime"
	"strings"

	fflate "github.com/intel/fastgo/compress/flate"
	fgzip "github.com/intel/fastgo/compress/gzip"
	fzlib "github.com/intel/fastgo/compress/zlib"
)

type anyWriter interface {
	Write([]byte) (int, error)
	Flush() error
	Close() error
}

type flateResetter interface{ Reset(io.Writer) }

// recDst records every call; it can fail at the k-th call (1-based).
type recDst struct {
	buf       bytes.Buffer
	calls     int
	failAt    int
	failErr   error
	oneShot   bool // only the failAt-th call fails; later calls succeed again
	afterFail int  // calls made after the failing call
	failed    bool
	callSizes []int
	retired   bool // a later Reset moved the Writer to another destination
	lateBytes int  // bytes received after that
}

var errInjected = errors.New("injected destination failure")

func (d *recDst) Write(p []byte) (int, error) {
	d.calls++
	if d.retired {
		d.lateBytes += len(p)
	}
	if d.failed {
		d.afterFail++
		if !d.oneShot {
			return 0, d.failErr
		}
		d.callSizes = append(d.callSizes, len(p))
		d.buf.Write(p)
		return len(p), nil
	}
	if d.failAt > 0 && d.calls == d.failAt {
		d.failed = true
		return 0, d.failErr
	}
	d.callSizes = append(d.callSizes, len(p))
	d.buf.Write(p)
	return len(p), nil
}

func newWriter(cfg WCfg, dst io.Writer, std bool) (anyWriter, error) {
	switch cfg.Pkg {
	case "flate":
		if std {
			if cfg.Win4K {
				return nil, errors.New("no stdlib twin for the 4K-window constructor")
			}
			if cfg.Dict != nil {
				return sflate.NewWriterDict(dst, cfg.Level, cfg.Dict)
			}
			return sflate.NewWriter(dst, cfg.Level)
		}
		if cfg.Win4K {
			return fflate.NewWriterwWith4KWindow(dst, cfg.Level)
		}
		if cfg.Dict != nil {
			return fflate.NewWriterDict(dst, cfg.Level, cfg.Dict)
		}
		return fflate.NewWriter(dst, cfg.Level)
	case "gzip":
		if std {
			return sgzip.NewWriterLevel(dst, cfg.Level)
		}
		return fgzip.NewWriterLevel(dst, cfg.Level)
	case "zlib":
		if std {
			return szlib.NewWriterLevelDict(dst, cfg.Level, cfg.Dict)
		}
		return fzlib.NewWriterLevelDict(dst, cfg.Level, cfg.Dict)
	}
	return nil, errors.New("bad pkg")
}

func resetWriter(w anyWriter, dst io.Writer) {
	switch x := w.(type) {
	case flateResetter:
		x.Reset(dst)
	default:
		panic(fmt.Sprintf("no Reset on %T", w))
	}
}

type opRes struct {
	N       int
	Err     string // "" nil, else class
	ErrIs   bool   // errors.Is(err, injected)
	Emitted int    // bytes that reached the destination during this op
	Calls   int    // destination calls during this op
	Panic   string
}

type wTrace struct {
	Ops          []opRes
	Out          []byte   // everything emitted to the (last) destination
	Outs         [][]byte // per destination (Reset switches to a new one)
	NewErr       string
	Panic        string
	FlushAt      []int // len(Out) after each successful Flush (current destination)
	FlushData    []int // amount of data written when that Flush happened
	DstAfterFail int
	LateBytes    int // bytes written to a destination after Reset had moved the Writer away from it
}

func errClass(err error) string {
	if err == nil {
		return ""
	}
	switch {
	case errors.Is(err, errInjected):
		return "injected"
	case err == errSrcWrapsEOF:
		return "srcinjected:" + err.Error()
	case err == io.EOF:
		return "EOF"
	case err == io.ErrUnexpectedEOF:
		return "UnexpectedEOF"
	}
	var ce sflate.CorruptInputError
	if errors.As(err, &ce) {
		return "Corrupt"
	}
	switch err {
	case sgzip.ErrChecksum, szlib.ErrChecksum, fgzip.ErrChecksum, fzlib.ErrChecksum:
		return "Checksum"
	case sgzip.ErrHeader, szlib.ErrHeader, fgzip.ErrHeader, fzlib.ErrHeader:
		return "Header"
	case szlib.ErrDictionary, fzlib.ErrDictionary:
		return "Dict"
	}
	if errors.Is(err, errSrcInjected) || errors.Is(err, errSrcInjected2) {
		return "srcinjected:" + err.Error()
	}
	return "other:" + err.Error()
}

// runOps runs ops on a writer for cfg (fastgo, or the standard library when std). failAt>0 makes the
// FIRST destination fail at its failAt-th call. Each "R" op switches to a fresh recording destination.
func runOps(cfg WCfg, ops []Op, failAt int, std bool) (tr wTrace) {
	oneShot := false
	if failAt < 0 {
		failAt, oneShot = -failAt, true
	}
	dst := &recDst{failAt: failAt, failErr: errInjected, oneShot: oneShot}
	dsts := []*recDst{dst}
	w, err := newWriter(cfg, dst, std)
	if err != nil {
		tr.NewErr = err.Error()
		return
	}
	data := 0
	for _, op := range ops {
		before, callsBefore := dst.buf.Len(), dst.calls
		var r opRes
		func() {
			defer func() {
				if p := recover(); p != nil {
					buf := make([]byte, 2048)
					n := runtime.Stack(buf, false)
					r.Panic = fmt.Sprintf("%v\n%s", p, firstLines(string(buf[:n]), 12))
				}
			}()
			switch op.K {
			case "W":
				n, e := w.Write(op.D)
				r.N, r.Err = n, errClass(e)
				if e == nil {
					data += n
				}
			case "F":
				r.Err = errClass(w.Flush())
			case "C":
				r.Err = errClass(w.Close())
			case "R":
				dst.retired = true
				dst = &recDst{}
				dsts = append(dsts, dst)
				resetWriter(w, dst)
				before, callsBefore = 0, 0
				data = 0
				tr.FlushAt, tr.FlushData = nil, nil
			}
		}()
		r.Emitted = dst.buf.Len() - before
		r.Calls = dst.calls - callsBefore
		tr.Ops = append(tr.Ops, r)
		if r.Panic != "" {
			tr.Panic = r.Panic
			break
		}
		if op.K == "F" && r.Err == "" {
			tr.FlushAt = append(tr.FlushAt, dst.buf.Len())
			tr.FlushData = append(tr.FlushData, data)
		}
	}
	for _, d := range dsts {
		tr.Outs = append(tr.Outs, append([]byte{}, d.buf.Bytes()...))
	}
	tr.Out = tr.Outs[len(tr.Outs)-1]
	tr.DstAfterFail = dsts[0].afterFail
	for _, d := range dsts {
		tr.LateBytes += d.lateBytes
	}
	return
}

// ---------------------------------------------------------------- decoding oracles

// stripContainer returns the raw deflate part of a gzip/zlib container produced with default headers
// (used only to feed the reference inflater; the container readers are exercised separately).
func stripContainer(pkg string, b []byte, dict []byte) (raw []byte, ok bool) {
	switch pkg {
	case "flate":
		return b, true
	case "gzip":
		if len(b) < 10 || b[0] != 0x1f || b[1] != 0x8b || b[3] != 0 {
			return nil, false
		}
		return b[10:], true
	case "zlib":
		if len(b) < 2 {
			return nil, false
		}
		if b[1]&0x20 != 0 {
			if len(b) < 6 {
				return nil, false
			}
			return b[6:], true
		}
		return b[2:], true
	}
	return nil, false
}

func trailerLen(pkg string) int {
	switch pkg {
	case "gzip":
		return 8
	case "zlib":
		return 4
	}
	return 0
}

// readAllLimited reads r to the end (or error) with a growth cap.
func readAllLimited(r io.Reader, readSizes []int, limit int) (out []byte, err error) {
	i := 0
	zero := 0
	for {
		sz := 4096
		if len(readSizes) > 0 {
			sz = readSizes[i%len(readSizes)]
			i++
		}
		buf := make([]byte, sz)
		n, e := r.Read(buf)
		if n > sz || n < 0 {
			return out, fmt.Errorf("Read returned n=%d for a %d-byte buffer", n, sz)
		}
		out = append(out, buf[:n]...)
		if e != nil {
			return out, e
		}
		if n == 0 && sz > 0 {
			zero++
			if zero > 1000 {
				return out, errors.New("Read keeps returning (0, nil)")
			}
		} else {
			zero = 0
		}
		if limit > 0 && len(out) > limit {
			return out, errors.New("output limit exceeded")
		}
	}
}

func stdDecode(cfg WCfg, b []byte) ([]byte, error) {
	var r io.Reader
	switch cfg.Pkg {
	case "flate":
		r = sflate.NewReaderDict(bytes.NewReader(b), cfg.Dict)
	case "gzip":
		zr, err := sgzip.NewReader(bytes.NewReader(b))
		if err != nil {
			return nil, err
		}
		r = zr
	case "zlib":
		zr, err := szlib.NewReaderDict(bytes.NewReader(b), cfg.Dict)
		if err != nil {
			return nil, err
		}
		r = zr
	}
	out, err := readAllLimited(r, nil, 0)
	if err == io.EOF {
		err = nil
	}
	return out, err
}

func fastDecode(cfg WCfg, b []byte) ([]byte, error) {
	var r io.Reader
	switch cfg.Pkg {
	case "flate":
		if cfg.Dict != nil {
			r = fflate.NewReaderDict(bytes.NewReader(b), cfg.Dict)
		} else {
			r = fflate.NewReader(bytes.NewReader(b))
		}
	case "gzip":
		zr, err := fgzip.NewReader(bytes.NewReader(b))
		if err != nil {
			return nil, err
		}
		r = zr
	case "zlib":
		zr, err := fzlib.NewReaderDict(bytes.NewReader(b), cfg.Dict)
		if err != nil {
			return nil, err
		}
		r = zr
	}
	out, err := readAllLimited(r, nil, 0)
	if err == io.EOF {
		err = nil
	}
	return out, err
}

// checkCompleteStream verifies that b is one complete valid stream of want for cfg, using the three
// decoders the property names. Returns "" when fine.
func checkCompleteStream(cfg WCfg, b, want []byte) string {
	out, err := stdDecode(cfg, b)
	if len(cfg.Dict) > 0 && bytes.Equal(out, append(append([]byte{}, cfg.Dict...), want...)) {
		// F-C01-1 (for zlib the symptom is a checksum error after dict ++ data has been delivered)
		return fmt.Sprintf("dict-prepended: compress/%s decodes to the %d dictionary bytes followed by the %d data bytes (%v)", cfg.Pkg, len(cfg.Dict), len(want), err)
	}
	if err != nil {
		return fmt.Sprintf("compress/%s cannot decode the emitted stream: %v (got %d of %d bytes)", cfg.Pkg, err, len(out), len(want))
	}
	if !bytes.Equal(out, want) {
		if cfg.Dict != nil && len(cfg.Dict) > 0 && bytes.Equal(out, append(append([]byte{}, cfg.Dict...), want...)) {
			// compress/flate's own NewWriterDict (to which fastgo delegates every dictionary Writer) writes the
			// dictionary into the stream as data when the first block is stored: reproducible without fastgo
			return fmt.Sprintf("dict-prepended: compress/%s decodes to the %d dictionary bytes followed by the %d data bytes", cfg.Pkg, len(cfg.Dict), len(want))
		}
		return fmt.Sprintf("compress/%s decodes to different data (%d bytes, want %d, first diff at %d)", cfg.Pkg, len(out), len(want), firstDiff(out, want))
	}
	raw, ok := stripContainer(cfg.Pkg, b, cfg.Dict)
	if !ok {
		return "container header malformed"
	}
	ref := RefInflate(raw, true, cfg.Dict, len(want)+1024)
	if ref.Verdict != "done" {
		return fmt.Sprintf("reference inflater: %s (%s) at bit %d", ref.Verdict, ref.Why, ref.EndBit)
	}
	if !bytes.Equal(ref.Out, want) {
		return fmt.Sprintf("reference inflater decodes to different data (first diff at %d)", firstDiff(ref.Out, want))
	}
	if (ref.EndBit+7)/8+trailerLen(cfg.Pkg) != len(raw) {
		return fmt.Sprintf("stream is not exactly one complete stream: final block ends at byte %d, %d bytes emitted after the header", (ref.EndBit+7)/8+trailerLen(cfg.Pkg), len(raw))
	}
	out, err = fastDecode(cfg, b)
	if err != nil {
		return fmt.Sprintf("fastgo's own Reader cannot decode the emitted stream: %v", err)
	}
	if !bytes.Equal(out, want) {
		return fmt.Sprintf("fastgo's own Reader decodes to different data (first diff at %d)", firstDiff(out, want))
	}
	return ""
}

func firstDiff(a, b []byte) int {
	n := len(a)
	if len(b) < n {
		n = len(b)
	}
	for i := 0; i < n; i++ {
		if a[i] != b[i] {
			return i
		}
	}
	return n
}

func stdDecodeRaw(b []byte, dict []byte) ([]byte, error) {
	r := sflate.NewReaderDict(bytes.NewReader(b), dict)
	return readAllLimited(r, nil, 0)
}

func stdDecodeContainerPartial(cfg WCfg, b []byte) ([]byte, error) {
	switch cfg.Pkg {
	case "gzip":
		zr, err := sgzip.NewReader(bytes.NewReader(b))
		if err != nil {
			return nil, err
		}
		return readAllLimited(zr, nil, 0)
	case "zlib":
		zr, err := szlib.NewReaderDict(bytes.NewReader(b), cfg.Dict)
		if err != nil {
			return nil, err
		}
		return readAllLimited(zr, nil, 0)
	}
	return nil, errors.New("bad pkg")
}

// keyFor gives violations caused by the dictionary-prepending behaviour of compress/flate's NewWriterDict
// their own key, so that the known finding about it cannot hide any other round-trip failure.
func keyFor(base string, cfg WCfg, msg string) string {
	if strings.HasPrefix(msg, "dict-prepended") {
		return "dict-prepended/" + cfg.Pkg
	}
	return base
}
