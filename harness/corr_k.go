package main

import (
	"bufio"
	"bytes"
	"encoding/hex"
	"fmt"
	"hash/adler32"
	"hash/crc32"
	"strings"
	"time"

	fgzip "github.com/intel/fastgo/compress/gzip"
	fzlib "github.com/intel/fastgo/compress/zlib"
)

// K correspondence: the Lean container / checksum definitions versus hash/crc32, hash/adler32 and the
// header and trailer bytes fastgo's gzip/zlib Writers emit and Readers accept.

func init() { corrGens["K"] = genKCases }

func latin1(s string) []byte {
	var b []byte
	for _, r := range s {
		b = append(b, byte(r))
	}
	return b
}

func optHexStr(b []byte, isNil bool) string {
	if isNil {
		return "-"
	}
	if len(b) == 0 {
		return "e"
	}
	return hex.EncodeToString(b)
}

func genKCases(r *Rng, tier string, n int) []corrCase {
	var cs []corrCase
	for i := 0; len(cs) < n; i++ {
		switch i % 8 {
		case 0:
			_, d := RandPayload(r, 3000)
			cs = append(cs, corrCase{line: "K crc " + hexOrDash(d), expect: fmt.Sprint(crc32.ChecksumIEEE(d)), desc: "crc32"})
			cs = append(cs, corrCase{line: "K adler " + hexOrDash(d), expect: fmt.Sprint(adler32.Checksum(d)), desc: "adler32"})
		case 1: // gzip header emitted by fastgo
			h := randGzHeader(r)
			if len(h.Extra) > 2000 {
				h.Extra = h.Extra[:r.Intn(2000)]
			}
			lvl := allLevels[r.Intn(len(allLevels))]
			var b bytes.Buffer
			w, _ := fgzip.NewWriterLevel(&b, lvl)
			w.Name, w.Comment, w.Extra, w.OS = h.Name, h.Comment, h.Extra, h.OS
			if h.ModTime != 0 {
				w.ModTime = time.Unix(h.ModTime, 0)
			}
			w.Write(nil)
			line := fmt.Sprintf("GH %d %d %d %s %s %s", lvl, h.ModTime, h.OS, optHexStr(h.Extra, h.Extra == nil), hexOrDash(latin1(h.Name)), hexOrDash(latin1(h.Comment)))
			cs = append(cs, corrCase{line: line, expect: hexOrDash(b.Bytes()), desc: "gzip header emit"})
		case 2, 3: // gzip header parsed by fastgo (valid, with FHCRC, mutated, truncated)
			h := randGzHeader(r)
			if len(h.Extra) > 300 {
				h.Extra = h.Extra[:r.Intn(300)]
			}
			hb := buildGzHeader(r, h, r.Intn(3) == 0)
			suffix := r.Bytes(r.Intn(12))
			in := append(append([]byte{}, hb...), suffix...)
			switch r.Intn(5) {
			case 0:
				if len(in) > 0 {
					in = in[:r.Intn(len(in))]
				}
			case 1:
				if len(in) > 0 {
					in[r.Intn(min(len(in), 14))] ^= 1 << uint(r.Intn(8))
				}
			}
			src := bytes.NewReader(in)
			br := bufio.NewReaderSize(src, 4096)
			zr, err := fgzip.NewReader(br)
			exp := ""
			switch errKind(err) {
			case "":
				mt := int64(0)
				if !zr.ModTime.IsZero() {
					mt = zr.ModTime.Unix()
				}
				rest := src.Len() + br.Buffered()
				exp = fmt.Sprintf("ok %d %d %s %s %s %d", mt, zr.OS, optHexStr(zr.Extra, zr.Extra == nil), hexOrDash(latin1(zr.Name)), hexOrDash(latin1(zr.Comment)), rest)
			case "EOF":
				exp = "cleaneof"
			case "UnexpectedEOF":
				exp = "unexpectedeof"
			case "Header":
				exp = "badheader"
			default:
				exp = "other:" + fmt.Sprint(err)
			}
			cs = append(cs, corrCase{line: "GP " + hexOrDash(in), expect: exp, desc: "gzip header parse"})
		case 4: // zlib header emitted by fastgo
			lvl := allLevels[r.Intn(len(allLevels))]
			var dict []byte
			if r.Bool() {
				dict = Payload(r, "text", 1+r.Intn(200))
			}
			var b bytes.Buffer
			w, _ := fzlib.NewWriterLevelDict(&b, lvl, dict)
			w.Write(nil)
			cs = append(cs, corrCase{line: fmt.Sprintf("ZH %d %s", lvl, optHexStr(dict, dict == nil)), expect: hexOrDash(b.Bytes()), desc: "zlib header emit"})
		case 5: // zlib header checked by fastgo
			var dict []byte
			if r.Bool() {
				dict = Payload(r, "text", 1+r.Intn(200))
			}
			var b bytes.Buffer
			w, _ := fzlib.NewWriterLevelDict(&b, allLevels[r.Intn(len(allLevels))], dict)
			w.Write(nil)
			in := append(append([]byte{}, b.Bytes()...), r.Bytes(r.Intn(8))...)
			rdDict := dict
			switch r.Intn(6) {
			case 0:
				in = in[:r.Intn(len(in))]
			case 1:
				in[r.Intn(min(len(in), 6))] ^= 1 << uint(r.Intn(8))
			case 2:
				rdDict = []byte("another dictionary")
			}
			src := bytes.NewReader(in)
			br := bufio.NewReaderSize(src, 4096)
			_, err := fzlib.NewReaderDict(br, rdDict)
			exp := ""
			switch errKind(err) {
			case "":
				exp = fmt.Sprintf("ok %v %d", in[1]&0x20 != 0, src.Len()+br.Buffered())
			case "UnexpectedEOF":
				exp = "unexpectedeof"
			case "Header":
				exp = "badheader"
			case "Dict":
				exp = "baddict"
			default:
				exp = "other:" + fmt.Sprint(err)
			}
			cs = append(cs, corrCase{line: fmt.Sprintf("ZP %s %s", optHexStr(rdDict, rdDict == nil), hexOrDash(in)), expect: exp, desc: "zlib header parse"})
		default: // trailers
			var ws []string
			var all []byte
			k := r.Intn(5)
			var gb, zb bytes.Buffer
			gw, _ := fgzip.NewWriterLevel(&gb, accelLevels[r.Intn(4)])
			zw, _ := fzlib.NewWriterLevel(&zb, accelLevels[r.Intn(4)])
			for j := 0; j < k; j++ {
				_, d := RandPayload(r, 400)
				if len(d) == 0 {
					continue
				}
				ws = append(ws, hex.EncodeToString(d))
				all = append(all, d...)
				gw.Write(d)
				zw.Write(d)
				if r.Intn(3) == 0 {
					gw.Flush()
					zw.Flush()
				}
			}
			gw.Close()
			zw.Close()
			arg := "-"
			if len(ws) > 0 {
				arg = strings.Join(ws, ";")
			}
			g, z := gb.Bytes(), zb.Bytes()
			cs = append(cs, corrCase{line: "GT " + arg, expect: hex.EncodeToString(g[len(g)-8:]), desc: "gzip trailer"})
			cs = append(cs, corrCase{line: "ZT " + arg, expect: hex.EncodeToString(z[len(z)-4:]), desc: "zlib trailer"})
		}
	}
	return cs
}

// buildGzHeader hand-builds a gzip header (optionally with FHCRC), independent of any Writer.
func buildGzHeader(r *Rng, h gzHeader, fhcrc bool) []byte {
	flg := byte(0)
	if h.Extra != nil {
		flg |= 4
	}
	if h.Name != "" {
		flg |= 8
	}
	if h.Comment != "" {
		flg |= 16
	}
	if fhcrc {
		flg |= 2
	}
	b := []byte{0x1f, 0x8b, 8, flg, byte(h.ModTime), byte(h.ModTime >> 8), byte(h.ModTime >> 16), byte(h.ModTime >> 24), byte(r.Intn(5)), h.OS}
	if h.Extra != nil {
		b = append(b, byte(len(h.Extra)), byte(len(h.Extra)>>8))
		b = append(b, h.Extra...)
	}
	if h.Name != "" {
		b = append(append(b, latin1(h.Name)...), 0)
	}
	if h.Comment != "" {
		b = append(append(b, latin1(h.Comment)...), 0)
	}
	if fhcrc {
		c := crc32.ChecksumIEEE(b)
		b = append(b, byte(c), byte(c>>8))
	}
	return b
}
