package main

import (
	"bytes"
	sgzip "compress/gzip"
	szlib "compress/zlib"
	"encoding/binary"
	"fmt"
	"hash/adler32"
	"hash/crc32"
	"io"
	"sync"
	"time"

	fgzip "github.com/intel/fastgo/compress/gzip"
	fzlib "github.com/intel/fastgo/compress/zlib"
)

type gzHeader struct {
	Name, Comment string
	Extra         []byte
	ModTime       int64
	OS            byte
}

func randLatin1(r *Rng, n int) string {
	rs := make([]rune, n)
	for i := range rs {
		rs[i] = rune(1 + r.Intn(255))
	}
	return string(rs)
}

func randGzHeader(r *Rng) gzHeader {
	var h gzHeader
	if r.Bool() {
		h.Name = randLatin1(r, r.Intn(40))
	}
	if r.Bool() {
		h.Comment = randLatin1(r, r.Intn(300))
	}
	if r.Bool() {
		h.Extra = r.Bytes(r.Pick([]int{0, 1, 10, 300, 65535}))
	}
	if r.Bool() {
		h.ModTime = int64(r.Intn(1 << 31))
		switch r.Intn(4) {
		case 0: // MTIME is an unsigned 32-bit field: times from 2038-01-19 to 2106
			h.ModTime = 1<<31 + int64(r.Intn(1<<31))
		case 1:
			h.ModTime = []int64{1, 1<<31 - 1, 1 << 31, 1<<32 - 1}[r.Intn(4)]
		}
	}
	h.OS = byte(r.Pick([]int{0, 3, 255, 7}))
	return h
}

func init() {
	// ------------------------------------------------------------------ C06
	register(&Property{ID: "C06",
		Rule: "payload x level x gzip header fields (Latin-1 name/comment, extra up to 65535, mtime, OS) / zlib dictionary x Write/Flush partition x writer reuse through Reset, both directions fastgo<->stdlib; trailer recomputed from the payload; non-trivial = payload non-empty; distinct by (pkg, direction, level, header shape, size class, partition shape)",
		Gen: func(r *Rng, tier string) []Case {
			var cs []Case
			for i := 0; i < tierN(tier, 400, 5000); i++ {
				pkg := r.Pick2("gzip", "zlib")
				lvl := allLevels[r.Intn(len(allLevels))]
				if r.Bool() {
					lvl = accelLevels[r.Intn(4)]
				}
				_, data := RandPayload(r, r.Pick([]int{300, 9000, 70000, 200000}))
				ops := SplitOps(r, data, r.Intn(5), r.Pick([]int{0, 0, 30}))
				c := Case{Prop: "C06", Pkg: pkg, K: lvl, Ops: ops, Kind: r.Pick2("f2s", "s2f"), Ints: []int{int(r.U64() >> 33), r.Intn(2)}}
				if pkg == "zlib" && r.Intn(3) == 0 {
					c.Dict = HexB(Payload(r, "text", 1+r.Intn(500)))
				}
				cs = append(cs, c)
			}
			return cs
		},
		Check: checkC06})

	// ------------------------------------------------------------------ C07
	register(&Property{ID: "C07",
		Rule: "well-formed gzip/zlib containers (both encoders, 1-2 members): every truncation point, single/multi bit flips and byte substitutions anywhere (header, payload, trailer), several destination sizes incl. tiny ones; non-trivial = the mutation changes the container; distinct by (pkg, mutation kind, region hit, outcome, read pattern)",
		Gen: func(r *Rng, tier string) []Case {
			var cs []Case
			for i := 0; i < tierN(tier, 30, 300); i++ {
				pkg := r.Pick2("gzip", "zlib")
				s, _, how := genContainerStream(r, pkg, "quick")
				if len(s) > 3000 {
					_, data := RandPayload(r, 2000)
					var b bytes.Buffer
					w, _ := newWriter(WCfg{Pkg: pkg, Level: accelLevels[r.Intn(4)]}, &b, r.Bool())
					w.Write(data)
					w.Close()
					s = b.Bytes()
				}
				if pkg == "gzip" && r.Intn(3) == 0 {
					// a member with every optional header field incl. the header CRC (no Go writer emits FHCRC)
					h := randGzHeader(r)
					if len(h.Extra) > 40 {
						h.Extra = h.Extra[:r.Intn(40)]
					}
					hb := buildGzHeader(r, h, true)
					s = append(append([]byte{}, hb...), s[10:]...)
				}
				if pkg == "gzip" && r.Intn(3) == 0 {
					s2, _, _ := genContainerStream(r, pkg, "quick")
					if len(s2) < 3000 {
						s = append(append([]byte{}, s...), s2...)
					}
				}
				for k := 0; k < len(s); k++ {
					cs = append(cs, Case{Prop: "C07", Pkg: pkg, Kind: "cut", Stream: s, K: k, Reads: smallReads(r), Note: how, Ints: []int{0, 0, r.Intn(2)}})
				}
				for j := 0; j < tierN(tier, 70, 170); j++ {
					cs = append(cs, Case{Prop: "C07", Pkg: pkg, Kind: "flip", Stream: s, K: int(r.U64() >> 34), Ints: []int{1 + r.Intn(3), r.Intn(4), r.Intn(2)}, Reads: smallReads(r), Note: how})
				}
			}
			return cs
		},
		Check: checkC07})

	// ------------------------------------------------------------------ C08
	register(&Property{ID: "C08",
		Rule: "sequences of 1..k gzip members (payloads incl. empty, both encoders, all levels, random headers) + optional trailing non-gzip data; default mode must give the concatenation; Multistream(false)+Reset on a bufio source must give each member separately and leave the trailing data unread; non-trivial = >= 2 members; distinct by (member count, empties, encoders, trailing kind, mode, read pattern)",
		Gen: func(r *Rng, tier string) []Case {
			var cs []Case
			for i := 0; i < tierN(tier, 250, 3000); i++ {
				k := 1 + r.Intn(tierN(tier, 6, 40))
				c := Case{Prop: "C08", K: k, Ints: []int{int(r.U64() >> 33)}, Kind: r.Pick2("multi", "single"), Reads: readPattern(r), BufSize: bufSizes[r.Intn(len(bufSizes))], Chunks: chunkPattern(r)}
				switch r.Intn(4) {
				case 0:
					c.Suffix = HexB{}
				case 1:
					c.Suffix = HexB("trailing non-gzip data")
				case 2:
					c.Suffix = HexB{0}
				default:
					c.Suffix = HexB(r.Bytes(1 + r.Intn(5000)))
					c.Suffix[0] = 0x42
				}
				cs = append(cs, c)
			}
			return cs
		},
		Check: checkC08})

	// ------------------------------------------------------------------ C17
	register(&Property{ID: "C17", Serial: true,
		Rule: "N goroutines, each with its own Writer/Reader instances (flate/gzip/zlib, mixed settings, valid and malformed inputs) run concurrently under GOMAXPROCS 1..16 (also in a -race build); every instance's bytes and errors are compared with the same workload run alone; non-trivial = workload has >= 1 KiB of data; distinct by (workload kind, setting, size class)",
		Gen: func(r *Rng, tier string) []Case {
			var cs []Case
			for i := 0; i < tierN(tier, 16, 80); i++ {
				cs = append(cs, Case{Prop: "C17", K: int(r.U64() >> 33), Ints: []int{r.Pick([]int{1, 2, 4, 8, 16, 16}), r.Pick([]int{8, 16, 32})}})
			}
			return cs
		},
		Check: checkC17})
}

func smallReads(r *Rng) []int {
	switch r.Intn(5) {
	case 0:
		return []int{1}
	case 1:
		return []int{3}
	case 2:
		return []int{2, 5, 1}
	case 3:
		return []int{4096}
	}
	return []int{1 + r.Intn(64)}
}

func checkC06(c *Case, st *Stats) *Violation {
	r := NewRng(uint64(c.Ints[0]))
	data := opsData(c.Ops)
	lvl := c.K
	reuse := c.Ints[1] == 1
	key := c.Pkg + "/" + c.Kind
	var container bytes.Buffer
	var hdr gzHeader
	// ---- encode
	write := func(w anyWriter) error {
		for _, op := range c.Ops {
			var err error
			if op.K == "W" {
				_, err = w.Write(op.D)
			} else {
				err = w.Flush()
			}
			if err != nil {
				return err
			}
		}
		return w.Close()
	}
	if c.Pkg == "gzip" {
		hdr = randGzHeader(r)
		if c.Kind == "f2s" {
			var junk bytes.Buffer
			w, err := fgzip.NewWriterLevel(&junk, lvl)
			if err != nil {
				return viol(c, "ctor/"+key, "NewWriterLevel(%d): %v", lvl, err)
			}
			if reuse {
				w.Name = "old name"
				w.Write([]byte("previous stream contents"))
				if r.Bool() {
					w.Close()
				}
				w.Reset(&container)
			} else {
				w, _ = fgzip.NewWriterLevel(&container, lvl)
			}
			w.Name, w.Comment, w.Extra, w.OS = hdr.Name, hdr.Comment, hdr.Extra, hdr.OS
			if hdr.ModTime != 0 {
				w.ModTime = time.Unix(hdr.ModTime, 0)
			}
			if err := write(w); err != nil {
				return viol(c, "write/"+key, "fastgo gzip writer failed: %v", err)
			}
		} else {
			w, _ := sgzip.NewWriterLevel(&container, lvl)
			w.Name, w.Comment, w.Extra, w.OS = hdr.Name, hdr.Comment, hdr.Extra, hdr.OS
			if hdr.ModTime != 0 {
				w.ModTime = time.Unix(hdr.ModTime, 0)
			}
			if err := write(w); err != nil {
				c.Trivial = true
				return nil
			}
		}
	} else {
		if c.Kind == "f2s" {
			var junk bytes.Buffer
			w, err := fzlib.NewWriterLevelDict(&junk, lvl, c.Dict)
			if err != nil {
				return viol(c, "ctor/"+key, "NewWriterLevelDict(%d): %v", lvl, err)
			}
			if reuse {
				w.Write([]byte("previous stream contents"))
				if r.Bool() {
					w.Close()
				}
				w.Reset(&container)
			} else {
				w, _ = fzlib.NewWriterLevelDict(&container, lvl, c.Dict)
			}
			if err := write(w); err != nil {
				return viol(c, "write/"+key, "fastgo zlib writer failed: %v", err)
			}
		} else {
			w, _ := szlib.NewWriterLevelDict(&container, lvl, c.Dict)
			write(w)
		}
	}
	b := container.Bytes()
	// ---- trailer (of what was written)
	if c.Kind == "f2s" {
		if c.Pkg == "gzip" {
			if len(b) < 18 {
				return viol(c, "trailer/"+key, "container too short: %d bytes", len(b))
			}
			t := b[len(b)-8:]
			if binary.LittleEndian.Uint32(t) != crc32.ChecksumIEEE(data) || binary.LittleEndian.Uint32(t[4:]) != uint32(len(data)) {
				return viol(c, "trailer/"+key, "gzip trailer %x is not CRC-32 %08x / size %d of the payload written", t, crc32.ChecksumIEEE(data), len(data))
			}
		} else {
			if len(b) < 6 {
				return viol(c, "trailer/"+key, "container too short: %d bytes", len(b))
			}
			t := b[len(b)-4:]
			if binary.BigEndian.Uint32(t) != adler32.Checksum(data) {
				return viol(c, "trailer/"+key, "zlib trailer %x is not Adler-32 %08x of the payload written", t, adler32.Checksum(data))
			}
			if (int(b[0])<<8|int(b[1]))%31 != 0 || b[0] != 0x78 || (b[1]&0x20 != 0) != (c.Dict != nil) {
				return viol(c, "header/"+key, "zlib header %x malformed (CMF must be 0x78, FCHECK multiple of 31, FDICT=%v)", b[:2], c.Dict != nil)
			}
			if c.Dict != nil && binary.BigEndian.Uint32(b[2:6]) != adler32.Checksum(c.Dict) {
				return viol(c, "header/"+key, "zlib DICTID wrong")
			}
		}
	}
	// ---- decode with the opposite implementation
	var got []byte
	var gh gzHeader
	var err error
	if c.Pkg == "gzip" {
		if c.Kind == "f2s" {
			zr, e := sgzip.NewReader(bytes.NewReader(b))
			if e != nil {
				return viol(c, "interop-header/"+key, "compress/gzip rejects the header fastgo wrote: %v", e)
			}
			gh = gzHeader{zr.Name, zr.Comment, zr.Extra, zr.ModTime.Unix(), zr.OS}
			if zr.ModTime.IsZero() {
				gh.ModTime = 0
			}
			got, err = readAllLimited(zr, c.Reads, 0)
		} else {
			zr, e := fgzip.NewReader(bytes.NewReader(b))
			if e != nil {
				return viol(c, "interop-header/"+key, "fastgo gzip rejects the header compress/gzip wrote: %v", e)
			}
			gh = gzHeader{zr.Name, zr.Comment, zr.Extra, zr.ModTime.Unix(), zr.OS}
			if zr.ModTime.IsZero() {
				gh.ModTime = 0
			}
			got, err = readAllLimited(zr, c.Reads, 0)
		}
		if gh.Name != hdr.Name || gh.Comment != hdr.Comment || !bytes.Equal(gh.Extra, hdr.Extra) || gh.ModTime != hdr.ModTime || gh.OS != hdr.OS {
			return viol(c, "interop-fields/"+key, "header fields differ after the round trip: wrote %+q, read %+q", fmt.Sprint(hdr), fmt.Sprint(gh))
		}
	} else {
		var zr io.Reader
		var e error
		if c.Kind == "f2s" {
			zr, e = szlib.NewReaderDict(bytes.NewReader(b), c.Dict)
		} else {
			zr, e = fzlib.NewReaderDict(bytes.NewReader(b), c.Dict)
		}
		if e != nil {
			return viol(c, "interop-header/"+key, "zlib header rejected by the opposite implementation: %v", e)
		}
		got, err = readAllLimited(zr, c.Reads, 0)
	}
	if len(c.Dict) > 0 && bytes.Equal(got, append(append([]byte{}, c.Dict...), data...)) {
		// F-C01-1: both compress/zlib's and fastgo's dictionary Writers are compress/flate's NewWriterDict
		return viol(c, "dict-prepended/zlib", "dictionary stream decodes to the %d dictionary bytes followed by the %d data bytes (%v; level %d)", len(c.Dict), len(data), err, lvl)
	}
	if err != io.EOF {
		return viol(c, "interop-error/"+key, "opposite implementation ends with %v after %d of %d bytes (level %d)", err, len(got), len(data), lvl)
	}
	if !bytes.Equal(got, data) {
		return viol(c, "interop-data/"+key, "payload differs after the round trip (first diff %d of %d)", firstDiff(got, data), len(data))
	}
	st.Count(key)
	c.Sig = fmt.Sprintf("%s|%d|%d%d%d|%d|%s|%v|%v", key, lvl, b2i(hdr.Name != ""), b2i(hdr.Comment != ""), len(hdr.Extra), sizeClass(len(data)), opsShape(c.Ops), reuse, c.Dict != nil)
	c.Trivial = len(data) == 0
	return nil
}

func checkC07(c *Case, st *Stats) *Violation {
	orig := []byte(c.Stream)
	want, err := stdDecode(WCfg{Pkg: c.Pkg}, orig)
	if err != nil {
		c.Trivial = true
		return nil
	}
	m := append([]byte{}, orig...)
	region := ""
	if c.Kind == "cut" {
		m = m[:c.K]
	} else {
		r := NewRng(uint64(c.K))
		for i := 0; i < c.Ints[0]; i++ {
			p := r.Intn(len(m))
			switch c.Ints[1] {
			case 0: // trailer region
				p = len(m) - 1 - r.Intn(min(8, len(m)))
			case 1: // header region
				p = r.Intn(min(12, len(m)))
			}
			if r.Intn(4) == 0 {
				m[p] = byte(r.Intn(256))
			} else {
				m[p] ^= 1 << uint(r.Intn(8))
			}
			region = fmt.Sprintf("%d", p*4/len(m))
		}
	}
	changed := !bytes.Equal(m, orig)
	rd, cerr := newFastReader(c.Pkg, "new", bytes.NewReader(m), nil)
	single := c.Pkg == "gzip" && len(c.Ints) > 2 && c.Ints[2] == 1
	if single && cerr == nil {
		// member-by-member mode: only the first member is read; its trailer must still be verified
		rd.(interface{ Multistream(bool) }).Multistream(false)
		if first, err := firstGzipMember(orig); err == nil {
			want = first
		}
	}
	key := c.Pkg + "/" + c.Kind
	if single {
		key += "/single"
	}
	if cerr != nil {
		k := errKind(cerr)
		if c.Kind == "cut" && !(c.Pkg == "gzip" && c.K == 0) && k != "UnexpectedEOF" {
			return viol(c, "cut-error/"+key, "%s container cut at byte %d (inside the header): constructor returned %v, want io.ErrUnexpectedEOF", c.Pkg, c.K, cerr)
		}
		c.Sig = fmt.Sprintf("%s|ctor|%s", key, k)
		return nil
	}
	run := runReader(rd, c.Reads, 1<<22)
	if v := basicReaderViolations(c, run); v != nil {
		return v
	}
	k := errKind(run.Err)
	if k == "EOF" {
		// success: the bytes handed out must match a trailer that really is in the input
		ok := false
		if single {
			ok = gzipFirstMemberConsistent(m, run.Out) || gzipMembersConsistentRef(m, run.Out, true)
		} else if c.Pkg == "gzip" {
			ok = gzipMembersConsistent(m, run.Out) || gzipMembersConsistentRef(m, run.Out, false)
		} else if len(m) >= 4 {
			ok = binary.BigEndian.Uint32(m[len(m)-4:]) == adler32.Checksum(run.Out) || zlibTrailerMatches(m, run.Out)
		}
		if !ok {
			return viol(c, "eof-bad-checksum/"+key, "%s Reader ended with io.EOF after %d bytes that do not match the checksum/length recorded in the (mutated) container", c.Pkg, len(run.Out))
		}
		if c.Kind == "cut" && !bytes.Equal(run.Out, want) {
			// a cut exactly between members is a shorter valid file
			if !(c.Pkg == "gzip" && isPrefix(run.Out, want)) {
				return viol(c, "cut-eof/"+key, "container cut at %d ended with io.EOF and %d bytes", c.K, len(run.Out))
			}
		}
	} else {
		switch k {
		case "Checksum", "Header", "Corrupt", "UnexpectedEOF":
		default:
			return viol(c, "wrong-error/"+key, "mutated container ended with %v", run.Err)
		}
		if c.Kind == "cut" {
			if k != "UnexpectedEOF" {
				return viol(c, "cut-error/"+key, "%s container cut at byte %d of %d ended with %v, want io.ErrUnexpectedEOF", c.Pkg, c.K, len(orig), run.Err)
			}
			if !isPrefix(run.Out, want) {
				return viol(c, "cut-not-prefix/"+key, "%s container cut at byte %d: the %d bytes handed out (Read sizes %v) are not a prefix of the true payload (first diff at %d of %d)", c.Pkg, c.K, len(run.Out), c.Reads, firstDiff(run.Out, want), len(want))
			}
		}
	}
	st.Count(key + ":" + k)
	c.Sig = fmt.Sprintf("%s|%s|%s|%v", key, region, k, c.Reads)
	c.Trivial = !changed
	return nil
}

// gzipMembersConsistent: out must split into segments matching the (crc,size) trailers of the members of m,
// as far as the standard library can parse m.
func gzipMembersConsistent(m, out []byte) bool {
	zr, err := sgzip.NewReader(bytes.NewReader(m))
	if err != nil {
		return len(out) == 0 && len(m) == 0
	}
	got, err := io.ReadAll(zr)
	return err == nil && bytes.Equal(got, out)
}

// gzipHeaderLen returns the length of the gzip member header at the start of b (RFC 1952 section 2.3).
func gzipHeaderLen(b []byte) (int, bool) {
	if len(b) < 10 || b[0] != 0x1f || b[1] != 0x8b || b[2] != 8 {
		return 0, false
	}
	flg := b[3]
	n := 10
	if flg&4 != 0 {
		if len(b) < n+2 {
			return 0, false
		}
		n += 2 + int(b[n]) + int(b[n+1])<<8
	}
	for _, bit := range []byte{8, 16} {
		if flg&bit != 0 {
			for {
				if n >= len(b) {
					return 0, false
				}
				n++
				if b[n-1] == 0 {
					break
				}
			}
		}
	}
	if flg&2 != 0 {
		n += 2
	}
	if n > len(b) {
		return 0, false
	}
	return n, true
}

// gzipMembersConsistentRef decides "the bytes handed out match trailers that really are in the input" without
// the standard library's inflater (which rejects some streams fastgo legitimately accepts, e.g. incomplete
// codes whose unassigned codewords are never used): each member's body is decoded by the permissive reference
// inflater, must equal the corresponding slice of out, and that slice must have the CRC-32 and length stored
// in the 8 bytes that follow the body in m.
func gzipMembersConsistentRef(m, out []byte, firstOnly bool) bool {
	pos, o := 0, 0
	for pos < len(m) {
		hl, ok := gzipHeaderLen(m[pos:])
		if !ok {
			return false
		}
		res := RefInflate(m[pos+hl:], false, nil, 0)
		if res.Verdict != "done" {
			return false
		}
		end := pos + hl + (res.EndBit+7)/8
		if end+8 > len(m) {
			return false
		}
		seg := res.Out
		if o+len(seg) > len(out) || !bytes.Equal(out[o:o+len(seg)], seg) {
			return false
		}
		if crc32.ChecksumIEEE(seg) != binary.LittleEndian.Uint32(m[end:]) || uint32(len(seg)) != binary.LittleEndian.Uint32(m[end+4:]) {
			return false
		}
		o += len(seg)
		pos = end + 8
		if firstOnly {
			break
		}
	}
	return o == len(out)
}

func firstGzipMember(m []byte) ([]byte, error) {
	zr, err := sgzip.NewReader(bytes.NewReader(m))
	if err != nil {
		return nil, err
	}
	zr.Multistream(false)
	return io.ReadAll(zr)
}

func gzipFirstMemberConsistent(m, out []byte) bool {
	got, err := firstGzipMember(m)
	return err == nil && bytes.Equal(got, out)
}

func zlibTrailerMatches(m, out []byte) bool {
	zr, err := szlib.NewReader(bytes.NewReader(m))
	if err != nil {
		return false
	}
	got, err := io.ReadAll(zr)
	return err == nil && bytes.Equal(got, out)
}

func checkC08(c *Case, st *Stats) *Violation {
	r := NewRng(uint64(c.Ints[0]))
	var file bytes.Buffer
	var payloads [][]byte
	var hdrs []gzHeader
	desc := ""
	for i := 0; i < c.K; i++ {
		var data []byte
		if r.Intn(4) != 0 {
			_, data = RandPayload(r, r.Pick([]int{50, 3000, 70000}))
		}
		h := randGzHeader(r)
		if len(h.Extra) > 1000 {
			h.Extra = h.Extra[:100]
		}
		lvl := allLevels[r.Intn(len(allLevels))]
		std := r.Bool()
		// member whose payload fills the decoder's 64 KiB output window exactly (65536 + k*32768 bytes), then a sync
		// flush, then a tiny final block of 1-2 literals: the end-of-block code shares a packed table entry with the
		// last literal exactly when the window is full, with the next member's bytes already in the input
		tinyTail := 0
		if r.Intn(5) == 0 {
			tinyTail = 1 + r.Intn(2)
			data = Payload(r, r.Pick2("text", "random", "alpha"), 65536+32768*r.Intn(3)+tinyTail)
			std = false
			lvl = r.Pick([]int{1, 2, -1, -2})
		}
		var w anyWriter
		if std {
			zw, _ := sgzip.NewWriterLevel(&file, lvl)
			zw.Name, zw.Comment, zw.Extra, zw.OS = h.Name, h.Comment, h.Extra, h.OS
			w = zw
			desc += "s"
		} else {
			zw, _ := fgzip.NewWriterLevel(&file, lvl)
			zw.Name, zw.Comment, zw.Extra, zw.OS = h.Name, h.Comment, h.Extra, h.OS
			w = zw
			desc += "f"
		}
		if len(data) == 0 {
			desc += "0"
		}
		if tinyTail > 0 {
			desc += "t"
			w.Write(data[:len(data)-tinyTail])
			w.Flush()
			w.Write(data[len(data)-tinyTail:])
		} else {
			w.Write(data)
		}
		if err := w.Close(); err != nil {
			c.Trivial = true
			return nil
		}
		payloads = append(payloads, data)
		hdrs = append(hdrs, h)
	}
	members := append([]byte{}, file.Bytes()...)
	// the encoders are not under test here: members must be readable by the standard library
	if chk, err := stdDecode(WCfg{Pkg: "gzip"}, members); err != nil || !bytes.Equal(chk, bytes.Join(payloads, nil)) {
		c.Trivial = true
		st.Count("skipped:encoder-broken")
		return nil
	}
	all := append(append([]byte{}, members...), c.Suffix...)
	cs := &chunkSrc{data: all, chunks: c.Chunks, failAfter: -1}
	if c.Kind == "multi" {
		zr, err := fgzip.NewReader(cs)
		if err != nil {
			return viol(c, "multi/ctor", "NewReader: %v", err)
		}
		run := runReader(zr, c.Reads, 1<<24)
		if v := basicReaderViolations(c, run); v != nil {
			return v
		}
		want := bytes.Join(payloads, nil)
		if !isPrefix(run.Out, want) || (len(c.Suffix) == 0 && (!bytes.Equal(run.Out, want) || run.Err != io.EOF)) {
			return viol(c, "multi/concat", "%d members (%s): default mode delivered %d bytes and %v, want the %d-byte concatenation and io.EOF", c.K, desc, len(run.Out), run.Err, len(want))
		}
		if len(c.Suffix) > 0 {
			// trailing garbage: the standard library reports a header error after the data
			if !bytes.Equal(run.Out, want) {
				return viol(c, "multi/concat-garbage", "%d members + trailing data: delivered %d of %d bytes before %v", c.K, len(run.Out), len(want), run.Err)
			}
			k := errKind(run.Err)
			if k != "Header" && k != "UnexpectedEOF" {
				return viol(c, "multi/garbage-error", "trailing non-gzip data: ended with %v (compress/gzip reports gzip: invalid header / unexpected EOF)", run.Err)
			}
		}
	} else {
		br := newBufio(cs, c.BufSize)
		zr, err := fgzip.NewReader(br)
		if err != nil {
			return viol(c, "single/ctor", "NewReader: %v", err)
		}
		for i := 0; i < c.K; i++ {
			zr.Multistream(false)
			if zr.Name != hdrs[i].Name || zr.Comment != hdrs[i].Comment || !bytes.Equal(zr.Extra, hdrs[i].Extra) || zr.OS != hdrs[i].OS {
				return viol(c, "single/header", "member %d of %d: header fields differ", i, c.K)
			}
			run := runReader(zr, c.Reads, 1<<24)
			if v := basicReaderViolations(c, run); v != nil {
				return v
			}
			if !bytes.Equal(run.Out, payloads[i]) || run.Err != io.EOF {
				return viol(c, "single/payload", "member %d of %d (%s, bufio size %d): got %d bytes and %v, want %d bytes and io.EOF", i, c.K, desc, c.BufSize, len(run.Out), run.Err, len(payloads[i]))
			}
			err := zr.Reset(br)
			if i < c.K-1 {
				if err != nil {
					return viol(c, "single/reset", "Reset before member %d of %d: %v", i+1, c.K, err)
				}
			} else {
				// after the last member: EOF (nothing left) or a header error (trailing data); the data must
				// not have been consumed beyond what header parsing needs. We check the stricter, documented
				// contract on what is left BEFORE this Reset by re-running without it below.
				_ = err
			}
		}
		// second pass: stop before the final Reset and look at the source
		cs2 := &chunkSrc{data: all, chunks: c.Chunks, failAfter: -1}
		br2 := newBufio(cs2, c.BufSize)
		zr2, _ := fgzip.NewReader(br2)
		for i := 0; i < c.K; i++ {
			zr2.Multistream(false)
			io.Copy(io.Discard, zr2)
			if i < c.K-1 {
				zr2.Reset(br2)
			}
		}
		left, _ := io.ReadAll(br2)
		if !bytes.Equal(left, c.Suffix) {
			return viol(c, "single/trailing", "after the last of %d members (bufio size %d) %d bytes are left in the source, want the %d bytes of trailing data intact", c.K, c.BufSize, len(left), len(c.Suffix))
		}
	}
	st.Count("mode:" + c.Kind)
	c.Sig = fmt.Sprintf("%s|%s|%d|%v|%d", c.Kind, desc, len(c.Suffix), c.Reads, c.BufSize)
	c.Trivial = c.K < 2
	return nil
}

// ---------------------------------------------------------------- C17

type workload struct {
	kind string
	cfg  WCfg
	ops  []Op
	in   []byte
	pkg  string
}

func (w workload) run() string {
	switch w.kind {
	case "write":
		tr := runOps(w.cfg, w.ops, 0, false)
		errs := ""
		for _, o := range tr.Ops {
			errs += o.Err + ","
		}
		return digestOf(tr.Out, nil) + errs + tr.Panic
	case "recycle":
		// the pooled-reader idiom: read, Close, Reset onto the next stream, read
		rd, err := newFastReader(w.pkg, "new", bytes.NewReader(w.in), nil)
		if err != nil {
			return "ctor:" + errKind(err)
		}
		out := ""
		for round := 0; round < 3; round++ {
			run := runReader(rd, []int{4096}, 1<<23)
			out += digestOf(run.Out, run.Err) + run.Panic + ";"
			if c, ok := rd.(io.Closer); ok {
				c.Close()
			}
			var e error
			switch w.pkg {
			case "gzip":
				e = rd.(interface{ Reset(io.Reader) error }).Reset(bytes.NewReader(w.in))
			default:
				e = rd.(resetter).Reset(bytes.NewReader(w.in), nil)
			}
			if e != nil {
				out += "reset:" + errKind(e)
				break
			}
		}
		return out
	default:
		rd, err := newFastReader(w.pkg, "new", bytes.NewReader(w.in), nil)
		if err != nil {
			return "ctor:" + errKind(err)
		}
		run := runReader(rd, []int{4096}, 1<<23)
		return digestOf(run.Out, run.Err) + run.Panic
	}
}

func checkC17(c *Case, st *Stats) *Violation {
	r := NewRng(uint64(c.K))
	procs, n := c.Ints[0], c.Ints[1]
	var ws []workload
	for i := 0; i < n; i++ {
		if r.Intn(3) == 0 {
			// very skewed symbol counts: the length-limiting path of the code-length generator, block after block
			cfg := RandCfg(r, allPkgs, true)
			var ops []Op
			for k := 0; k < 12; k++ {
				ops = append(ops, Op{K: "W", D: HexB(Payload(r, "fib", 3000+r.Intn(3000)))}, Op{K: "F"})
			}
			ops = append(ops, Op{K: "C"})
			ws = append(ws, workload{kind: "write", cfg: cfg, ops: ops})
		} else if r.Intn(3) == 0 {
			pkg := r.Pick2("flate", "gzip", "zlib")
			s, _, _ := genContainerStream(r, pkg, "quick")
			ws = append(ws, workload{kind: "recycle", pkg: pkg, in: s})
		} else if r.Bool() {
			cfg := RandCfg(r, allPkgs, r.Intn(3) != 0)
			_, data := RandPayload(r, 150000)
			ops := append(SplitOps(r, data, r.Intn(5), r.Pick([]int{0, 20})), Op{K: "C"})
			ws = append(ws, workload{kind: "write", cfg: cfg, ops: ops})
		} else {
			pkg := r.Pick2("flate", "gzip", "zlib")
			s, _, _ := genContainerStream(r, pkg, "quick")
			if r.Intn(4) == 0 && len(s) > 4 {
				s = append([]byte{}, s...)
				s[r.Intn(len(s))] ^= 0x10
			}
			if pkg == "flate" && r.Intn(4) == 0 {
				s, _, _ = Synthesize(r, SynthOpts{MaxBlocks: 6, MaxTokens: 3000, LongCodes: true})
			}
			ws = append(ws, workload{kind: "read", pkg: pkg, in: s})
		}
	}
	solo := make([]string, n)
	for i := range ws {
		solo[i] = ws[i].run()
	}
	old := setProcs(procs)
	defer setProcs(old)
	for round := 0; round < 3; round++ {
		conc := make([]string, n)
		var wg sync.WaitGroup
		start := make(chan struct{})
		for i := range ws {
			wg.Add(1)
			go func(i int) {
				defer wg.Done()
				<-start
				conc[i] = ws[i].run()
			}(i)
		}
		close(start)
		wg.Wait()
		for i := range ws {
			if conc[i] != solo[i] {
				return viol(c, "interference/"+ws[i].kind, "instance %d (%s %s %s) produced %s when run concurrently with %d others (GOMAXPROCS %d) but %s alone", i, ws[i].kind, ws[i].cfg, ws[i].pkg, conc[i], n-1, procs, solo[i])
			}
		}
	}
	st.Count(fmt.Sprintf("procs:%d", procs))
	c.Sig = fmt.Sprintf("%d|%d|%d", c.K, procs, n)
	return nil
}
