package main

import (
	"bytes"
	"fmt"
	"io"
)

var allPkgs = []string{"flate", "flate", "gzip", "zlib"}

func maxPayload(tier string) int {
	if tier == "thorough" {
		return 1 << 20
	}
	return 200 * 1024
}

func genWriterCase(r *Rng, prop string, tier string, accelOnly bool, flushProb int) Case {
	cfg := RandCfg(r, allPkgs, accelOnly)
	mx := maxPayload(tier)
	if r.Intn(3) != 0 {
		mx = 20000
	}
	if r.Intn(20) == 0 {
		mx = maxPayload(tier)
	}
	fam, data := RandPayload(r, mx)
	var ops []Op
	if cfg.Accelerated() && r.Intn(3) == 0 {
		// sizes and cut points aligned with the internal buffer edges of this setting
		n := EdgeSize(r, cfg, maxPayload(tier))
		f := payloadFamilies[2+r.Intn(7)]
		data = Payload(r, f, n)
		if len(data) > n {
			data = data[:n]
		}
		fam = "edge:" + f
		ops = EdgeOps(r, cfg, data, flushProb)
	} else {
		ops = SplitOps(r, data, r.Intn(5), flushProb)
	}
	if r.Intn(6) == 0 {
		ops = append([]Op{{K: "F"}}, ops...)
	}
	ops = append(ops, Op{K: "C"})
	return Case{Prop: prop, Cfg: &cfg, Ops: ops, Note: fam}
}

func init() {
	// ------------------------------------------------------------------ C01
	register(&Property{ID: "C01",
		Rule: "random (setting, payload family, size incl. buffer-edge sizes, Write/Flush partition); non-trivial = data non-empty and (>=2 blocks or a Flush); distinct by (setting, family, size class, op shape, block-type multiset)",
		Gen: func(r *Rng, tier string) []Case {
			var cs []Case
			for i := 0; i < tierN(tier, 400, 5000); i++ {
				cs = append(cs, genWriterCase(r, "C01", tier, false, r.Pick([]int{0, 0, 10, 40})))
			}
			return cs
		},
		Check: func(c *Case, st *Stats) *Violation {
			tr := runOps(*c.Cfg, c.Ops, 0, false)
			if tr.NewErr != "" {
				return viol(c, "ctor", "constructor failed: %s", tr.NewErr)
			}
			if tr.Panic != "" {
				return viol(c, "panic", "panic: %s", tr.Panic)
			}
			for i, o := range tr.Ops {
				if o.Err != "" {
					return viol(c, "op-error", "op %d (%s) failed on a healthy destination: %s", i, c.Ops[i].K, o.Err)
				}
			}
			want := opsData(c.Ops)
			if msg := checkCompleteStream(*c.Cfg, tr.Out, want); msg != "" {
				return viol(c, keyFor("roundtrip/"+cfgClass(*c.Cfg), *c.Cfg, msg), "%s: %s", c.Cfg, msg)
			}
			raw, _ := stripContainer(c.Cfg.Pkg, tr.Out, c.Cfg.Dict)
			ref := RefInflate(raw, true, c.Cfg.Dict, 0)
			st.Count("setting:" + c.Cfg.String())
			st.Count(fmt.Sprintf("blocks:%s", clampS(len(ref.Blocks))))
			c.Sig = fmt.Sprintf("%s|%s|%d|%s|%d", c.Cfg, c.Note, sizeClass(len(want)), opsShape(c.Ops), len(ref.Blocks))
			c.Trivial = len(want) == 0 || (len(ref.Blocks) < 2 && !hasFlush(c.Ops))
			return nil
		}})

	// ------------------------------------------------------------------ C09
	register(&Property{ID: "C09",
		Rule: "random accelerated setting and payload, two random partitions with identical Flush positions; non-trivial = >=2 Write calls in one partition and data >= 2 bytes; distinct by (setting, family, size class, both op shapes)",
		Gen: func(r *Rng, tier string) []Case {
			var cs []Case
			for i := 0; i < tierN(tier, 300, 3000); i++ {
				cfg := RandCfg(r, allPkgs, true)
				mx := maxPayload(tier)
				if r.Intn(3) != 0 {
					mx = 70000
				}
				fam, data := RandPayload(r, mx)
				edgy := r.Intn(2) == 0
				if edgy {
					n := EdgeSize(r, cfg, maxPayload(tier)) + r.Pick([]int{0, 0, 1, 300, 5000})
					f := payloadFamilies[2+r.Intn(7)]
					data = Payload(r, f, n)
					fam = "edge:" + f
				}
				// flush positions
				var cuts []int
				for k := r.Intn(3); k > 0 && len(data) > 0; k-- {
					if edgy {
						cuts = append(cuts, min(len(data), EdgeSize(r, cfg, len(data))+r.Pick([]int{0, 0, 50, 200})))
					} else {
						cuts = append(cuts, r.Intn(len(data)+1))
					}
				}
				sortInts(cuts)
				mk := func() []Op {
					var ops []Op
					prev := 0
					for _, cpos := range append(cuts, len(data)) {
						seg := data[prev:cpos]
						if edgy && r.Bool() {
							// cut this segment at absolute buffer edges
							sub := EdgeOps(r, cfg, data[:cpos], 0)
							// keep only the part of the partition that lies in [prev, cpos)
							off := 0
							for _, o := range sub {
								a, b := off, off+len(o.D)
								off = b
								if b <= prev {
									continue
								}
								if a < prev {
									a = prev
								}
								ops = append(ops, Op{K: "W", D: HexB(append([]byte{}, data[a:b]...))})
							}
							if prev == cpos {
								ops = append(ops, Op{K: "W", D: HexB{}})
							}
							goto flushed
						}
						ops = append(ops, SplitOps(r, seg, r.Intn(5), 0)...)
					flushed:
						if cpos != len(data) || false {
							ops = append(ops, Op{K: "F"})
						}
						prev = cpos
					}
					// cuts equal to len(data) produce a trailing flush in both partitions
					return append(ops, Op{K: "C"})
				}
				cs = append(cs, Case{Prop: "C09", Cfg: &cfg, Ops: mk(), Ops2: mk(), Note: fam})
			}
			return cs
		},
		Check: func(c *Case, st *Stats) *Violation {
			a := runOps(*c.Cfg, c.Ops, 0, false)
			b := runOps(*c.Cfg, c.Ops2, 0, false)
			if a.Panic != "" || b.Panic != "" {
				return viol(c, "panic", "panic: %s%s", a.Panic, b.Panic)
			}
			if !bytes.Equal(a.Out, b.Out) {
				return viol(c, "partition/"+cfgClass(*c.Cfg), "%s: same data and Flush positions, different Write partitions, different bytes (%d vs %d bytes, first diff at %d); shapes %s vs %s",
					c.Cfg, len(a.Out), len(b.Out), firstDiff(a.Out, b.Out), opsShape(c.Ops), opsShape(c.Ops2))
			}
			st.Count("setting:" + c.Cfg.String())
			c.Sig = fmt.Sprintf("%s|%s|%d|%s|%s", c.Cfg, c.Note, sizeClass(len(opsData(c.Ops))), opsShape(c.Ops), opsShape(c.Ops2))
			c.Trivial = len(opsData(c.Ops)) < 2 || (countK(c.Ops, "W") < 2 && countK(c.Ops2, "W") < 2)
			return nil
		}})

	// ------------------------------------------------------------------ C10
	register(&Property{ID: "C10",
		Rule: "random setting/payload/partition with Flush calls (incl. Flush first, repeated, with nothing pending); every successful Flush prefix is decoded; non-trivial = at least one Flush with data before it; distinct by (setting, family, size class, op shape)",
		Gen: func(r *Rng, tier string) []Case {
			var cs []Case
			for i := 0; i < tierN(tier, 300, 4000); i++ {
				c := genWriterCase(r, "C10", tier, r.Intn(4) != 0, r.Pick([]int{30, 60, 100}))
				if r.Intn(4) == 0 { // flush with nothing pending right before close
					c.Ops = append(c.Ops[:len(c.Ops)-1], Op{K: "F"}, Op{K: "F"}, Op{K: "C"})
				}
				cs = append(cs, c)
			}
			return cs
		},
		Check: func(c *Case, st *Stats) *Violation {
			tr := runOps(*c.Cfg, c.Ops, 0, false)
			if tr.Panic != "" {
				return viol(c, "panic", "panic: %s", tr.Panic)
			}
			for i, o := range tr.Ops {
				if o.Err != "" {
					return viol(c, "op-error", "op %d (%s) failed on a healthy destination: %s", i, c.Ops[i].K, o.Err)
				}
			}
			all := opsData(c.Ops)
			for i, at := range tr.FlushAt {
				want := all[:tr.FlushData[i]]
				prefix := tr.Out[:at]
				if msg := checkFlushPrefix(*c.Cfg, prefix, want); msg != "" {
					return viol(c, keyFor("flush-prefix/"+cfgClass(*c.Cfg), *c.Cfg, msg), "%s: after Flush #%d (data so far %d bytes, %d bytes emitted): %s", c.Cfg, i+1, len(want), at, msg)
				}
			}
			if msg := checkCompleteStream(*c.Cfg, tr.Out, all); msg != "" {
				return viol(c, keyFor("flush-continuation/"+cfgClass(*c.Cfg), *c.Cfg, msg), "%s: stream invalid after continuing past Flush: %s", c.Cfg, msg)
			}
			st.Count("setting:" + c.Cfg.String())
			st.Count(fmt.Sprintf("flushes:%s", clampS(len(tr.FlushAt))))
			c.Sig = fmt.Sprintf("%s|%s|%d|%s", c.Cfg, c.Note, sizeClass(len(all)), opsShape(c.Ops))
			c.Trivial = len(tr.FlushAt) == 0 || tr.FlushData[len(tr.FlushData)-1] == 0
			return nil
		}})

	// ------------------------------------------------------------------ C12
	register(&Property{ID: "C12",
		Rule: "random history h1 (Write/Flush/Close, abandoned mid-stream, failed destination), Reset, random h2; fresh Writer runs h2; non-trivial = h1 left pending or emitted state (data written) and h2 writes data; distinct by (setting, h1 shape, fault, h2 shape, size classes)",
		Gen: func(r *Rng, tier string) []Case {
			var cs []Case
			for i := 0; i < tierN(tier, 300, 4000); i++ {
				cfg := RandCfg(r, allPkgs, r.Intn(5) != 0)
				mx := 140000
				if r.Intn(3) != 0 {
					mx = 9000
				}
				_, d1 := RandPayload(r, mx)
				h1 := SplitOps(r, d1, r.Intn(5), r.Pick([]int{0, 20}))
				switch r.Intn(4) {
				case 0:
					h1 = append(h1, Op{K: "C"})
				case 1:
					h1 = append(h1, Op{K: "F"})
				}
				// histories that already contain Reset calls (pooled writers: Reset on Put and on Get),
				// also with nothing written in between
				switch r.Intn(5) {
				case 0:
					h1 = append(h1, Op{K: "R"})
				case 1:
					h1 = append(h1, Op{K: "R"}, Op{K: "W", D: HexB("x")}, Op{K: "R"})
				case 2:
					h1 = append([]Op{{K: "R"}}, h1...)
				}
				fam, d2 := RandPayload(r, 20000)
				h2 := SplitOps(r, d2, r.Intn(5), r.Pick([]int{0, 20}))
				h2 = append(h2, Op{K: "C"})
				c := Case{Prop: "C12", Cfg: &cfg, Ops: h1, Ops2: h2, Note: fam}
				if r.Intn(4) == 0 {
					c.FailAt = 1 + r.Intn(4)
				}
				cs = append(cs, c)
			}
			return cs
		},
		Check: func(c *Case, st *Stats) *Violation {
			seq := append(append([]Op{}, c.Ops...), Op{K: "R"})
			seq = append(seq, c.Ops2...)
			a := runOps(*c.Cfg, seq, c.FailAt, false)
			b := runOps(*c.Cfg, c.Ops2, 0, false)
			if a.Panic != "" || b.Panic != "" {
				return viol(c, "panic", "panic: %s%s", a.Panic, b.Panic)
			}
			after := a.Ops[len(c.Ops)+1:]
			for i := range after {
				if after[i].Err != b.Ops[i].Err || after[i].N != b.Ops[i].N {
					return viol(c, "reset-results/"+cfgClass(*c.Cfg), "%s: op %d after Reset returned (%d,%q), fresh Writer (%d,%q)", c.Cfg, i, after[i].N, after[i].Err, b.Ops[i].N, b.Ops[i].Err)
				}
			}
			if a.LateBytes > 0 {
				return viol(c, "reset-old-sink/"+cfgClass(*c.Cfg), "%s: %d bytes were written to a destination the Writer had been Reset away from; history shape %s", c.Cfg, a.LateBytes, opsShape(c.Ops))
			}
			if !bytes.Equal(a.Out, b.Out) {
				return viol(c, "reset-bytes/"+cfgClass(*c.Cfg), "%s: bytes after Reset differ from a fresh Writer (%d vs %d bytes, first diff at %d); history shape %s fail_at=%d", c.Cfg, len(a.Out), len(b.Out), firstDiff(a.Out, b.Out), opsShape(c.Ops), c.FailAt)
			}
			st.Count("setting:" + c.Cfg.String())
			c.Sig = fmt.Sprintf("%s|%s|%d|%s|%d|%d", c.Cfg, opsShape(c.Ops), c.FailAt, opsShape(c.Ops2), sizeClass(len(opsData(c.Ops))), sizeClass(len(opsData(c.Ops2))))
			c.Trivial = len(opsData(c.Ops)) == 0 || len(opsData(c.Ops2)) == 0
			return nil
		}})

	// ------------------------------------------------------------------ C14
	register(&Property{ID: "C14",
		Rule: "for random op sequences: the destination fails at its k-th call for EVERY k up to the fault-free call count (capped per sequence); non-trivial = the failing call happens inside Flush/Close or a Write that triggers compression; distinct by (setting, op shape, k, failing op kind)",
		Gen: func(r *Rng, tier string) []Case {
			var cs []Case
			for i := 0; i < tierN(tier, 60, 600); i++ {
				cfg := RandCfg(r, allPkgs, r.Intn(4) != 0)
				mx := 150000
				if r.Intn(2) == 0 {
					mx = 5000
				}
				fam, data := RandPayload(r, mx)
				ops := SplitOps(r, data, r.Intn(5), r.Pick([]int{0, 20, 50}))
				ops = append(ops, Op{K: "C"})
				if r.Intn(3) == 0 {
					ops = append(ops, Op{K: "W", D: HexB("more")}, Op{K: "F"}, Op{K: "C"})
				}
				base := runOps(cfg, ops, 0, false)
				calls := 0
				for _, o := range base.Ops {
					calls += o.Calls
				}
				maxk := calls
				if maxk > 40 {
					maxk = 40
				}
				for k := 1; k <= maxk; k++ {
					kk := k
					if calls > 40 && k > 20 {
						kk = calls - (40 - k)
					}
					cs = append(cs, Case{Prop: "C14", Cfg: &cfg, Ops: ops, FailAt: kk, Note: fam})
					if k%2 == 0 {
						// one-shot fault: only this call fails, the destination works again afterwards
						cs = append(cs, Case{Prop: "C14", Cfg: &cfg, Ops: ops, FailAt: -kk, Note: fam, Kind: "oneshot"})
					}
				}
			}
			return cs
		},
		Check: func(c *Case, st *Stats) *Violation {
			tr := runOps(*c.Cfg, c.Ops, c.FailAt, false)
			if tr.Panic != "" {
				return viol(c, "panic", "panic with a failing destination: %s", tr.Panic)
			}
			failedOp := -1
			calls := 0
			fa := c.FailAt
			if fa < 0 {
				fa = -fa
			}
			for i, o := range tr.Ops {
				calls += o.Calls
				if failedOp < 0 && calls >= fa {
					failedOp = i
				}
			}
			if failedOp < 0 {
				c.Trivial = true
				return nil
			}
			if tr.Ops[failedOp].Err != "injected" {
				return viol(c, "not-reported/"+c.Ops[failedOp].K+"/"+cfgClass(*c.Cfg), "%s: destination failed at call %d during op %d (%s) but the op returned %q", c.Cfg, fa, failedOp, c.Ops[failedOp].K, tr.Ops[failedOp].Err)
			}
			for i := failedOp + 1; i < len(tr.Ops); i++ {
				if tr.Ops[i].Err == "" {
					return viol(c, "not-sticky/"+c.Ops[failedOp].K+">"+c.Ops[i].K+"/"+cfgClass(*c.Cfg), "%s: after the failure in op %d (%s), op %d (%s) returned nil", c.Cfg, failedOp, c.Ops[failedOp].K, i, c.Ops[i].K)
				}
			}
			if tr.DstAfterFail > 0 {
				return viol(c, "touched-again/"+c.Ops[failedOp].K+"/"+cfgClass(*c.Cfg), "%s: destination was called %d more time(s) after it failed (failure in op %d %s)", c.Cfg, tr.DstAfterFail, failedOp, c.Ops[failedOp].K)
			}
			st.Count("failop:" + c.Ops[failedOp].K)
			c.Sig = fmt.Sprintf("%s|%s|%d|%s", c.Cfg, opsShape(c.Ops), c.FailAt, c.Ops[failedOp].K)
			return nil
		}})

	// ------------------------------------------------------------------ C16
	register(&Property{ID: "C16",
		Rule: "exhaustive sequences over {W-empty, W-small, W-large, Flush, Close, Reset} up to a bounded length per setting plus random longer ones, run side by side with the standard library; non-trivial = contains a call after Close or a Reset; distinct by (setting, sequence)",
		Gen: func(r *Rng, tier string) []Case {
			var cs []Case
			small := HexB("hello, hello, hello world")
			large := HexB(Payload(r, "text", 70000))
			alphabet := []Op{{K: "W", D: HexB{}}, {K: "W", D: small}, {K: "W", D: large}, {K: "F"}, {K: "C"}, {K: "R"}}
			settings := []WCfg{{Pkg: "flate", Level: -2}, {Pkg: "flate", Level: 1}, {Pkg: "flate", Level: 2}, {Pkg: "flate", Level: -1},
				{Pkg: "flate", Level: 0}, {Pkg: "flate", Level: 6}, {Pkg: "gzip", Level: -1}, {Pkg: "gzip", Level: -2}, {Pkg: "zlib", Level: 1}, {Pkg: "zlib", Level: -2},
				{Pkg: "flate", Level: 1, Win4K: true}, {Pkg: "flate", Level: -2, Win4K: true}}
			maxLen := tierN(tier, 4, 5)
			var rec func(prefix []Op)
			for si := range settings {
				cfg := settings[si]
				rec = func(prefix []Op) {
					if len(prefix) > 0 {
						cs = append(cs, Case{Prop: "C16", Cfg: &cfg, Ops: append([]Op{}, prefix...), Kind: "seq"})
					}
					if len(prefix) == maxLen {
						return
					}
					for _, o := range alphabet {
						if o.K == "W" && len(o.D) > 1000 && len(prefix) >= 2 && maxLen > 3 && countBig(prefix) >= 1 {
							continue // at most one large write per sequence keeps it fast
						}
						rec(append(prefix, o))
					}
				}
				rec(nil)
			}
			for i := 0; i < tierN(tier, 300, 5000); i++ {
				cfg := RandCfg(r, allPkgs, r.Intn(3) != 0)
				n := 5 + r.Intn(12)
				var ops []Op
				for j := 0; j < n; j++ {
					o := alphabet[r.Intn(len(alphabet))]
					if o.K == "W" && len(o.D) > 0 && r.Bool() {
						_, d := RandPayload(r, 9000)
						o.D = HexB(d)
					}
					ops = append(ops, o)
				}
				cs = append(cs, Case{Prop: "C16", Cfg: &cfg, Ops: ops, Kind: "seq"})
			}
			for _, pkg := range []string{"flate", "flate4k", "flatedict", "gzip", "zlib"} {
				for lvl := -4; lvl <= 11; lvl++ {
					cs = append(cs, Case{Prop: "C16", Kind: "ctor", Pkg: pkg, K: lvl})
				}
			}
			return cs
		},
		Check: checkC16})

	// ------------------------------------------------------------------ C19
	register(&Property{ID: "C19",
		Rule: "window-edge payload families (repeats at W-2..W+2, 65535..65537 aliasing, runs, periodic, text) x levels {1,2,-1} x {4K,32K} x partitions; non-trivial = the output contains back-references; distinct by (setting, family, size class, op shape)",
		Gen: func(r *Rng, tier string) []Case {
			var cs []Case
			fams := []string{"wedge", "wedge", "alias", "run", "periodic", "text", "mixed", "alpha"}
			for i := 0; i < tierN(tier, 200, 3000); i++ {
				cfg := WCfg{Pkg: "flate", Level: r.Pick([]int{1, 2, -1}), Win4K: r.Intn(3) != 0}
				if r.Intn(8) == 0 {
					cfg.Pkg = r.Pick2("gzip", "zlib")
					cfg.Win4K = false
				}
				fam := fams[r.Intn(len(fams))]
				n := r.Pick([]int{5000, 9000, 20000, 70000, 140000})
				if tier == "thorough" && r.Intn(10) == 0 {
					n = 1 << 20
				}
				data := Payload(r, fam, n)
				ops := SplitOps(r, data, r.Intn(5), r.Pick([]int{0, 0, 20}))
				ops = append(ops, Op{K: "C"})
				cs = append(cs, Case{Prop: "C19", Cfg: &cfg, Ops: ops, Note: fam})
			}
			return cs
		},
		Check: func(c *Case, st *Stats) *Violation {
			tr := runOps(*c.Cfg, c.Ops, 0, false)
			if tr.Panic != "" {
				return viol(c, "panic", "panic: %s", tr.Panic)
			}
			raw, ok := stripContainer(c.Cfg.Pkg, tr.Out, nil)
			if !ok {
				return viol(c, "container", "bad container")
			}
			ref := RefInflate(raw, true, nil, 0)
			want := opsData(c.Ops)
			if ref.Verdict != "done" || !bytes.Equal(ref.Out, want) {
				return viol(c, "undecodable/"+cfgClass(*c.Cfg), "%s: output does not decode to the input (%s %s)", c.Cfg, ref.Verdict, ref.Why)
			}
			if ref.MaxDist > c.Cfg.Window() {
				return viol(c, "window/"+cfgClass(*c.Cfg), "%s: back-reference distance %d exceeds the %d-byte window (family %s, %d bytes)", c.Cfg, ref.MaxDist, c.Cfg.Window(), c.Note, len(want))
			}
			st.Count("setting:" + c.Cfg.String())
			st.Count("maxdist:" + distClass(ref.MaxDist, c.Cfg.Window()))
			c.Sig = fmt.Sprintf("%s|%s|%d|%s", c.Cfg, c.Note, sizeClass(len(want)), opsShape(c.Ops))
			c.Trivial = ref.NumRefs == 0
			return nil
		}})

	// ------------------------------------------------------------------ C20
	register(&Property{ID: "C20",
		Rule: "adversarial payload families (uniform, near-uniform, Fibonacci-skewed, small alphabets; periodic with every period <= 64 and n >= 64 KiB) x accelerated levels x windows, one Write... Close without Flush; non-trivial = n >= 1024; distinct by (setting, family, size class, period)",
		Gen: func(r *Rng, tier string) []Case {
			var cs []Case
			for i := 0; i < tierN(tier, 150, 2500); i++ {
				cfg := WCfg{Pkg: "flate", Level: accelLevels[r.Intn(4)], Win4K: r.Bool()}
				fam := r.Pick2("random", "nearuniform", "fib", "alpha", "text", "mixed", "run", "one", "empty", "dominant", "dominant", "gaps")
				n := r.Pick([]int{0, 1, 100, 1000, 8192, 65536, 65537, 70000, 131072, 200000})
				if tier == "thorough" && r.Intn(8) == 0 {
					n = 1<<20 + r.Intn(1<<20)
				}
				data := Payload(r, fam, n)
				ops := SplitOps(r, data, r.Intn(5), 0)
				ops = append(ops, Op{K: "C"})
				cs = append(cs, Case{Prop: "C20", Cfg: &cfg, Ops: ops, Note: fam, Kind: "expand"})
			}
			for _, n := range []int{65536, 131072, 196608, 262144} {
				for k := 0; k < tierN(tier, 3, 12); k++ {
					cfg := WCfg{Pkg: "flate", Level: r.Pick([]int{-2, -2, 1, 2}), Win4K: r.Bool()}
					data := Payload(r, "dominant", n)
					ops := append(SplitOps(r, data, r.Intn(5), 0), Op{K: "C"})
					cs = append(cs, Case{Prop: "C20", Cfg: &cfg, Ops: ops, Note: "dominant", Kind: "expand"})
				}
			}
			np := tierN(tier, 1, 4)
			for p := 1; p <= 64; p++ {
				for k := 0; k < np; k++ {
					cfg := WCfg{Pkg: "flate", Level: r.Pick([]int{1, 2, -1}), Win4K: r.Bool()}
					n := 65536 + r.Pick([]int{0, 1, 1000, 65536, 200000})
					unit := r.Bytes(p)
					data := make([]byte, n)
					for i := range data {
						data[i] = unit[i%p]
					}
					ops := SplitOps(r, data, r.Intn(5), 0)
					ops = append(ops, Op{K: "C"})
					cs = append(cs, Case{Prop: "C20", Cfg: &cfg, Ops: ops, Note: "periodic", Kind: "periodic", K: p})
				}
			}
			return cs
		},
		Check: func(c *Case, st *Stats) *Violation {
			tr := runOps(*c.Cfg, c.Ops, 0, false)
			if tr.Panic != "" {
				return viol(c, "panic", "panic: %s", tr.Panic)
			}
			n := len(opsData(c.Ops))
			if len(tr.Out) > n+n/32+256 {
				return viol(c, "expansion/"+cfgClass(*c.Cfg), "%s: %d input bytes (%s) -> %d output bytes > n + n/32 + 256 = %d", c.Cfg, n, c.Note, len(tr.Out), n+n/32+256)
			}
			if c.Kind == "periodic" && len(tr.Out) > n/32+1200 {
				return viol(c, "ineffective/"+cfgClass(*c.Cfg), "%s: period-%d input of %d bytes -> %d output bytes > n/32 + 1200 = %d", c.Cfg, c.K, n, len(tr.Out), n/32+1200)
			}
			st.Count("setting:" + c.Cfg.String())
			c.Sig = fmt.Sprintf("%s|%s|%d|%d", c.Cfg, c.Note, sizeClass(n), c.K)
			c.Trivial = n < 1024
			return nil
		}})
}

func (r *Rng) Pick2(xs ...string) string { return xs[r.Intn(len(xs))] }

func countBig(ops []Op) int {
	n := 0
	for _, o := range ops {
		if o.K == "W" && len(o.D) > 1000 {
			n++
		}
	}
	return n
}

func checkC16(c *Case, st *Stats) *Violation {
	if c.Kind == "ctor" {
		var fe, se error
		var d bytes.Buffer
		dict := []byte("dictionary")
		switch c.Pkg {
		case "flate":
			_, fe = newWriter(WCfg{Pkg: "flate", Level: c.K}, &d, false)
			_, se = newWriter(WCfg{Pkg: "flate", Level: c.K}, &d, true)
		case "flate4k":
			// mirrors no stdlib constructor: out of the property's scope, only "no panic"
			_, fe = newWriter(WCfg{Pkg: "flate", Level: c.K, Win4K: true}, &d, false)
			se = fe
		case "flatedict":
			_, fe = newWriter(WCfg{Pkg: "flate", Level: c.K, Dict: dict}, &d, false)
			_, se = newWriter(WCfg{Pkg: "flate", Level: c.K, Dict: dict}, &d, true)
		case "gzip":
			_, fe = newWriter(WCfg{Pkg: "gzip", Level: c.K}, &d, false)
			_, se = newWriter(WCfg{Pkg: "gzip", Level: c.K}, &d, true)
		case "zlib":
			_, fe = newWriter(WCfg{Pkg: "zlib", Level: c.K}, &d, false)
			_, se = newWriter(WCfg{Pkg: "zlib", Level: c.K}, &d, true)
		}
		if (fe == nil) != (se == nil) {
			return viol(c, "ctor-level/"+c.Pkg, "%s constructor with level %d: fastgo err=%v, standard library err=%v", c.Pkg, c.K, fe, se)
		}
		c.Sig = fmt.Sprintf("ctor|%s|%d", c.Pkg, c.K)
		return nil
	}
	f := runOps(*c.Cfg, c.Ops, 0, false)
	if f.Panic != "" {
		return viol(c, "panic/"+cfgClass(*c.Cfg), "%s: sequence %s panics: %s", c.Cfg, opsShape(c.Ops), f.Panic)
	}
	hasStd := !(c.Cfg.Win4K)
	var s wTrace
	if hasStd {
		s = runOps(*c.Cfg, c.Ops, 0, true)
	}
	closed := false
	emitted := 0
	for i, o := range c.Ops {
		r := f.Ops[i]
		if o.K == "R" {
			closed = false
			emitted = 0
			continue
		}
		if hasStd && (r.Err == "") != (s.Ops[i].Err == "") {
			return viol(c, "errpattern/"+stateName(closed)+o.K+"/"+cfgClass(*c.Cfg), "%s: op %d (%s, %s) returned %q but the standard library returned %q; sequence %s", c.Cfg, i, o.K, stateName(closed), r.Err, s.Ops[i].Err, opsShape(c.Ops))
		}
		if closed {
			if r.Emitted != 0 {
				k := "after-close-emits/" + o.K
				if o.K == "C" {
					k = "reclose-emits"
				}
				return viol(c, k+"/"+cfgClass(*c.Cfg), "%s: %s after a successful Close emitted %d more bytes (sequence %s)", c.Cfg, o.K, r.Emitted, opsShape(c.Ops))
			}
			if !hasStd {
				// no standard-library twin (4 KiB-window constructor): the protocol of compress/flate applies
				if o.K == "C" && r.Err != "" && !failedSince(f, c.Ops, i) {
					return viol(c, "reclose-error/"+cfgClass(*c.Cfg), "%s: repeated Close returned %q", c.Cfg, r.Err)
				}
				if o.K != "C" && r.Err == "" {
					return viol(c, "after-close-ok/"+o.K+"/"+cfgClass(*c.Cfg), "%s: %s after Close returned nil", c.Cfg, o.K)
				}
			}
			continue
		}
		emitted += r.Emitted
		if o.K == "C" && r.Err == "" {
			closed = true
			// bytes of this stream up to its first successful Close form a complete stream of the data before it
			seg := segmentOut(f, c.Ops, i)
			want := segmentData(c.Ops, i)
			if msg := checkCompleteStream(*c.Cfg, seg[:min(len(seg), emitted)], want); msg != "" {
				return viol(c, keyFor("first-close-stream/"+cfgClass(*c.Cfg), *c.Cfg, msg), "%s: bytes up to the first Close (sequence %s): %s", c.Cfg, opsShape(c.Ops), msg)
			}
		}
	}
	st.Count("setting:" + c.Cfg.String())
	c.Sig = fmt.Sprintf("%s|%s", c.Cfg, opsShapeFull(c.Ops))
	c.Trivial = !sequenceInteresting(c.Ops)
	return nil
}

// failedSince reports whether an op since the last Reset before i returned an error.
func failedSince(tr wTrace, ops []Op, i int) bool {
	for j := i - 1; j >= 0 && ops[j].K != "R"; j-- {
		if tr.Ops[j].Err != "" {
			return true
		}
	}
	return false
}

func stateName(closed bool) string {
	if closed {
		return "closed:"
	}
	return "open:"
}

// segmentOut returns the destination contents of the segment (since the last Reset) containing op i.
func segmentOut(tr wTrace, ops []Op, i int) []byte {
	seg := 0
	for j := 0; j <= i; j++ {
		if ops[j].K == "R" {
			seg++
		}
	}
	return tr.Outs[seg]
}

func segmentData(ops []Op, i int) []byte {
	var b []byte
	for j := 0; j <= i; j++ {
		switch ops[j].K {
		case "R":
			b = nil
		case "W":
			b = append(b, ops[j].D...)
		}
	}
	return b
}

func sequenceInteresting(ops []Op) bool {
	closed := false
	for _, o := range ops {
		if o.K == "R" {
			return true
		}
		if closed {
			return true
		}
		if o.K == "C" {
			closed = true
		}
	}
	return false
}

func opsShapeFull(ops []Op) string {
	s := ""
	for _, o := range ops {
		if o.K == "W" {
			s += fmt.Sprintf("w%d,", len(o.D))
		} else {
			s += o.K + ","
		}
	}
	return s
}

// checkFlushPrefix: prefix must end on a byte boundary (it is a byte string), decode to exactly want and then ask for more.
func checkFlushPrefix(cfg WCfg, prefix, want []byte) string {
	// standard library
	var r io.Reader
	var err error
	switch cfg.Pkg {
	case "flate":
		out, e := stdDecodeRaw(prefix, cfg.Dict)
		if len(cfg.Dict) > 0 && !bytes.Equal(out, want) && bytes.Equal(out, append(append([]byte{}, cfg.Dict...), want...)) {
			return fmt.Sprintf("dict-prepended: compress/flate reproduces the %d dictionary bytes followed by the %d data bytes", len(cfg.Dict), len(want))
		}
		if !bytes.Equal(out, want) {
			return fmt.Sprintf("compress/flate reproduces %d bytes, want %d (first diff %d), err=%v", len(out), len(want), firstDiff(out, want), e)
		}
		if e != io.ErrUnexpectedEOF {
			return fmt.Sprintf("compress/flate ends with %v, want unexpected EOF (more input)", e)
		}
	default:
		_ = r
		_ = err
		out, e := stdDecodeContainerPartial(cfg, prefix)
		if len(cfg.Dict) > 0 && !bytes.Equal(out, want) && bytes.Equal(out, append(append([]byte{}, cfg.Dict...), want...)) {
			return fmt.Sprintf("dict-prepended: compress/%s reproduces the %d dictionary bytes followed by the %d data bytes", cfg.Pkg, len(cfg.Dict), len(want))
		}
		if !bytes.Equal(out, want) {
			return fmt.Sprintf("compress/%s reproduces %d bytes, want %d (first diff %d), err=%v", cfg.Pkg, len(out), len(want), firstDiff(out, want), e)
		}
		if e != io.ErrUnexpectedEOF {
			return fmt.Sprintf("compress/%s ends with %v, want unexpected EOF (more input)", cfg.Pkg, e)
		}
	}
	raw, ok := stripContainer(cfg.Pkg, prefix, cfg.Dict)
	if !ok {
		return "container header missing or malformed in the flushed prefix"
	}
	ref := RefInflate(raw, true, cfg.Dict, len(want)+1024)
	if ref.Verdict != "needmore" {
		return fmt.Sprintf("reference inflater verdict %s (%s), want needmore", ref.Verdict, ref.Why)
	}
	if !bytes.Equal(ref.Out, want) {
		return fmt.Sprintf("reference inflater reproduces %d bytes, want %d", len(ref.Out), len(want))
	}
	if ref.Why != "block header" || ref.EndBit != len(raw)*8 {
		return fmt.Sprintf("reference inflater stopped inside a block (%s at bit %d of %d): the flushed bytes do not end at a block boundary", ref.Why, ref.EndBit, len(raw)*8)
	}
	return ""
}

func cfgClass(c WCfg) string {
	k := "std"
	if c.Accelerated() {
		if c.Level == -2 {
			k = "huff"
		} else {
			k = "dyn"
		}
	}
	return c.Pkg + "/" + k
}

func sizeClass(n int) int {
	c := 0
	for n > 0 {
		n >>= 2
		c++
	}
	return c
}

func clampS(n int) string {
	if n > 8 {
		return "9+"
	}
	return fmt.Sprint(n)
}

func distClass(d, w int) string {
	switch {
	case d == 0:
		return "none"
	case d == w:
		return "=W"
	case d > w:
		return ">W"
	case d > w-64:
		return "W-64..W-1"
	case d > w/2:
		return "W/2.."
	}
	return "<W/2"
}

func hasFlush(ops []Op) bool { return countK(ops, "F") > 0 }
func countK(ops []Op, k string) int {
	n := 0
	for _, o := range ops {
		if o.K == k {
			n++
		}
	}
	return n
}

func sortInts(a []int) {
	for i := 1; i < len(a); i++ {
		for j := i; j > 0 && a[j-1] > a[j]; j-- {
			a[j-1], a[j] = a[j], a[j-1]
		}
	}
}
