package main

import (
	"bufio"
	"bytes"
	"encoding/hex"
	"fmt"
	"io"
	"os"
	"os/exec"
	"strings"
)

// Correspondence between the Lean model driver ($FGMODEL) and the Go side. Each kind generates cases,
// writes one line per case, pipes them through the driver and compares answer lines.

func fnv64(b []byte) uint64 {
	h := uint64(14695981039346656037)
	for _, x := range b {
		h = (h ^ uint64(x)) * 1099511628211
	}
	return h
}

func refAnswer(res RefResult) string {
	st := fmt.Sprintf("blocks=%d lits=%d refs=%d maxdist=%d", len(res.Blocks), res.NumLits, res.NumRefs, res.MaxDist)
	switch res.Verdict {
	case "done":
		return fmt.Sprintf("done n=%d h=%d endbit=%d %s", len(res.Out), fnv64(res.Out), res.EndBit, st)
	case "needmore":
		return fmt.Sprintf("needmore n=%d h=%d atblockstart=%v %s", len(res.Out), fnv64(res.Out), res.Why == "block header", st)
	}
	return fmt.Sprintf("corrupt n=%d h=%d %s", len(res.Out), fnv64(res.Out), st)
}

func hexOrDash(b []byte) string {
	if len(b) == 0 {
		return "-"
	}
	return hex.EncodeToString(b)
}

type corrCase struct {
	line   string
	expect string
	desc   string
}

func runModel(lines []string) ([]string, error) {
	drv := os.Getenv("FGMODEL")
	if drv == "" {
		return nil, fmt.Errorf("FGMODEL not set")
	}
	cmd := exec.Command(drv)
	cmd.Stdin = strings.NewReader(strings.Join(lines, "\n") + "\n")
	var out bytes.Buffer
	cmd.Stdout = &out
	cmd.Stderr = os.Stderr
	if err := cmd.Run(); err != nil {
		return nil, err
	}
	var res []string
	sc := bufio.NewScanner(&out)
	sc.Buffer(make([]byte, 1<<20), 1<<28)
	for sc.Scan() {
		res = append(res, sc.Text())
	}
	return res, nil
}

func runCorrespondence(kind string, r *Rng, tier string, n int) int {
	var cases []corrCase
	switch kind {
	case "I":
		cases = genICases(r, tier, n)
	default:
		if f, ok := corrGens[kind]; ok {
			cases = f(r, tier, n)
		} else {
			fmt.Println("unknown correspondence kind", kind)
			return 2
		}
	}
	lines := make([]string, len(cases))
	for i, c := range cases {
		lines[i] = c.line
	}
	got, err := runModel(lines)
	if err != nil {
		fmt.Println("model driver failed:", err)
		return 1
	}
	if len(got) != len(cases) {
		fmt.Printf("model driver answered %d of %d lines\n", len(got), len(cases))
		return 1
	}
	bad := 0
	for i, c := range cases {
		if !answerMatches(got[i], c.expect) {
			if bad < 5 {
				l := c.line
				if len(l) > 3000 {
					l = l[:3000] + "…"
				}
				fmt.Printf("DIVERGENCE kind=%s case=%d (%s)\n  model : %s\n  expect: %s\n  line  : %s\n", kind, i, c.desc, got[i], c.expect, l)
			}
			bad++
		}
	}
	fmt.Printf("correspondence %s: %d cases, %d divergences\n", kind, len(cases), bad)
	if bad > 0 {
		return 1
	}
	return 0
}

var corrGens = map[string]func(r *Rng, tier string, n int) []corrCase{}

// genICases: spec inflater (Lean) vs reference inflater (Go) vs compress/flate on valid, faulty,
// truncated and bit-flipped streams, strict and permissive.
func genICases(r *Rng, tier string, n int) []corrCase {
	var cs []corrCase
	genNoFastgo = false
	add := func(s []byte, dict []byte, desc string) {
		if len(s) > 30000 {
			return
		}
		for _, strict := range []bool{true, false} {
			mode := "permissive"
			if strict {
				mode = "strict"
			}
			res := RefInflate(s, strict, dict, 0)
			if strict && len(dict) == 0 {
				// the reference inflater itself is tied to compress/flate here
				out, err := stdDecodeRaw(s, nil)
				if (err == io.EOF) != (res.Verdict == "done") || (err == io.EOF && !bytes.Equal(out, res.Out)) {
					res.Why = "REFERENCE-INFLATER-DISAGREES-WITH-COMPRESS/FLATE:" + fmt.Sprint(err)
					cs = append(cs, corrCase{line: "I " + mode + " " + hexOrDash(dict) + " " + hexOrDash(s), expect: "stdlib:" + fmt.Sprint(err), desc: desc})
					continue
				}
				if err != io.EOF && err != io.ErrUnexpectedEOF && res.Verdict == "needmore" || err == io.ErrUnexpectedEOF && res.Verdict == "corrupt" {
					// compress/flate detects some corruption earlier/later than the bit-exact reference;
					// only the accept/reject line and the output are tied to it
				}
			}
			cs = append(cs, corrCase{line: "I " + mode + " " + hexOrDash(dict) + " " + hexOrDash(s), expect: refAnswer(res), desc: desc})
		}
	}
	for i := 0; len(cs) < n; i++ {
		switch i % 5 {
		case 0:
			s, _, how := genValidStream(r, "quick")
			add(s, nil, "valid:"+how)
		case 1:
			f := faultNames[r.Intn(len(faultNames))]
			s, _, d := Synthesize(r, SynthOpts{MaxBlocks: 3, MaxTokens: r.Pick([]int{5, 60, 600}), Fault: f, LongCodes: r.Bool()})
			add(s, nil, "fault:"+f+":"+d)
		case 2:
			s, _, how := genValidStream(r, "quick")
			if len(s) > 1 {
				s = s[:r.Intn(len(s))]
			}
			add(s, nil, "cut:"+how)
		case 3:
			s, _, how := genValidStream(r, "quick")
			m := append([]byte{}, s...)
			if len(m) > 0 {
				m[r.Intn(len(m))] ^= 1 << uint(r.Intn(8))
			}
			add(m, nil, "flip:"+how)
		default:
			dict := Payload(r, "text", 1+r.Intn(300))
			_, data := RandPayload(r, 3000)
			data = append(append([]byte{}, dict[len(dict)/2:]...), data...)
			tr := runOps(WCfg{Pkg: "flate", Level: 6, Dict: dict}, []Op{{K: "W", D: data}, {K: "C"}}, 0, true)
			add(tr.Out, dict, "dict")
		}
	}
	return cs
}

// answerMatches compares an answer line with the expectation; a field written `name=*` in the expectation
// matches any value.
func answerMatches(got, expect string) bool {
	if got == expect {
		return true
	}
	g, e := strings.Fields(got), strings.Fields(expect)
	if len(g) != len(e) {
		return false
	}
	for i := range g {
		if g[i] == e[i] {
			continue
		}
		if strings.HasSuffix(e[i], "=*") && strings.HasPrefix(g[i], strings.TrimSuffix(e[i], "*")) {
			continue
		}
		return false
	}
	return true
}
