package main

import (
	"bytes"
	"fmt"
	"io"
	"strings"

	"bufio"
	sgzip "compress/gzip"
	szlib "compress/zlib"

	fflate "github.com/intel/fastgo/compress/flate"
	fgzip "github.com/intel/fastgo/compress/gzip"
	fzlib "github.com/intel/fastgo/compress/zlib"
)

// S correspondence: whole streams the real flate Writers emit (levels 1, 2, -1, -2, both windows; Write / Flush / Close
// histories) are handed to the Lean check `checkStream` (Proofs/StreamFrame.lean): the specification inflater decodes the
// stream to the end and every block declares prefix-free codes. `inflate_frame` / `specInflater_exact` PROVE that such a
// stream decodes to the same data whatever follows it and that the specification inflater stops exactly behind it.
//
// FG correspondence: whole gzip files (1..4 members from both encoders, optionally followed by garbage, cut, or with a
// flipped bit) are read by the REAL gzip Reader in its default mode and by the Lean Reader model `readAllMembers` over the
// SPECIFICATION inflater (header grammar, CRC-32, ISIZE, member loop all inside Lean): io.EOF iff the model accepts the
// file, with the same payload; any other outcome iff the (strict) model rejects it.

func init() {
	corrGens["S"] = genSCases
	corrGens["FG"] = genFGCases
	corrGens["FZ"] = genFZCases
}

// FZ: the same for zlib streams (no preset dictionary) followed by bytes of the caller, read through a *bufio.Reader:
// outcome, payload AND the number of bytes left in the source after io.EOF must agree with the Lean model `readZlib` over
// the specification inflater (`zlib_stream_reads_back_spec` proves the model reads back what the Writer model emits).
func genFZCases(r *Rng, tier string, n int) []corrCase {
	var cs []corrCase
	ends := map[string]int{}
	defer func() { fmt.Printf("FZ-stats: ends=%v\n", ends) }()
	for i := 0; len(cs) < n; i++ {
		var file bytes.Buffer
		_, data := RandPayload(r, r.Pick([]int{30, 300, 2500, 9000}))
		if len(data) > 10000 {
			data = data[:10000]
		}
		lvl := allLevels[r.Intn(len(allLevels))]
		desc := "f"
		var w anyWriter
		if r.Bool() {
			zw, _ := szlib.NewWriterLevel(&file, lvl)
			w = zw
			desc = "s"
		} else {
			zw, _ := fzlib.NewWriterLevel(&file, lvl)
			w = zw
		}
		w.Write(data)
		if r.Intn(4) == 0 {
			w.Flush()
			w.Write(data[:len(data)/3])
		}
		w.Close()
		f := append([]byte{}, file.Bytes()...)
		switch i % 4 {
		case 1:
			f = append(f, Payload(r, "random", 1+r.Intn(30))...)
			desc += "+suffix"
		case 2:
			f = f[:r.Intn(len(f))]
			desc += "+cut"
		case 3:
			f[r.Intn(len(f))] ^= 1 << uint(r.Intn(8))
			desc += "+flip"
		}
		var out []byte
		var err error
		br := bufio.NewReaderSize(&chunkSrc{data: f, failAfter: -1, chunks: chunkPattern(r)}, bufSizes[r.Intn(len(bufSizes))])
		zr, e := fzlib.NewReader(br)
		if e != nil {
			err = e
		} else {
			out, err = io.ReadAll(zr)
			if err == nil {
				err = io.EOF
			}
		}
		left, _ := io.ReadAll(br)
		kcls := errClass(err)
		if kcls == "" {
			kcls = "other"
		}
		if e != nil {
			kcls = "ctor-" + kcls // NewReader itself failed (an empty source gives io.EOF there, as in compress/gzip): never a clean end of data
		}
		ends[kcls]++
		cs = append(cs, corrCase{line: fmt.Sprintf("FZ %s %s %d %d %d", hexOrDash(f), kcls, len(out), fnv64(out), len(left)), expect: "ok",
			desc: fmt.Sprintf("zlib L%d (%s), %d bytes -> %d bytes, %s, %d left", lvl, desc, len(f), len(out), kcls, len(left))})
	}
	return cs
}

func genSCases(r *Rng, tier string, n int) []corrCase {
	var cs []corrCase
	for len(cs) < n {
		lvl := r.Pick([]int{1, 2, -1, -2})
		win4k := lvl != -2 && r.Bool()
		var b bytes.Buffer
		var w *fflate.Writer
		if win4k {
			w, _ = fflate.NewWriterwWith4KWindow(&b, lvl)
		} else {
			w, _ = fflate.NewWriter(&b, lvl)
		}
		var all []byte
		var desc []string
		for j := 0; j < 1+r.Intn(4); j++ {
			if r.Intn(4) == 0 {
				w.Flush()
				desc = append(desc, "F")
				continue
			}
			fam, d := RandPayload(r, r.Pick([]int{40, 300, 3000, 9000}))
			if len(d) > 12000 {
				d = d[:12000]
			}
			w.Write(d)
			all = append(all, d...)
			desc = append(desc, fmt.Sprintf("W:%s:%d", fam, len(d)))
		}
		w.Close()
		cs = append(cs, corrCase{line: "S " + hexOrDash(b.Bytes()) + " " + hexOrDash(all), expect: "ok",
			desc: fmt.Sprintf("L%d win4k=%v %s -> %d bytes", lvl, win4k, strings.Join(desc, ","), b.Len())})
	}
	return cs
}

func genFGCases(r *Rng, tier string, n int) []corrCase {
	var cs []corrCase
	ends := map[string]int{}
	defer func() { fmt.Printf("FG-stats: ends=%v\n", ends) }()
	for i := 0; len(cs) < n; i++ {
		var file bytes.Buffer
		k := 1 + r.Intn(4)
		desc := ""
		for m := 0; m < k; m++ {
			var data []byte
			if r.Intn(5) != 0 {
				_, data = RandPayload(r, r.Pick([]int{30, 300, 2500}))
				if len(data) > 4000 {
					data = data[:4000]
				}
			}
			h := randGzHeader(r)
			if len(h.Extra) > 60 {
				h.Extra = h.Extra[:60]
			}
			lvl := allLevels[r.Intn(len(allLevels))]
			var w anyWriter
			if r.Bool() {
				zw, _ := sgzip.NewWriterLevel(&file, lvl)
				zw.Name, zw.Comment, zw.Extra, zw.OS = h.Name, h.Comment, h.Extra, h.OS
				w = zw
				desc += "s"
			} else {
				zw, _ := fgzip.NewWriterLevel(&file, lvl)
				zw.Name, zw.Comment, zw.Extra, zw.OS = h.Name, h.Comment, h.Extra, h.OS
				w = zw
				desc += "f"
			}
			w.Write(data)
			w.Close()
		}
		f := append([]byte{}, file.Bytes()...)
		switch i % 4 {
		case 1:
			f = append(f, Payload(r, "random", 1+r.Intn(30))...)
			desc += "+garbage"
		case 2:
			f = f[:r.Intn(len(f))]
			desc += "+cut"
		case 3:
			f[r.Intn(len(f))] ^= 1 << uint(r.Intn(8))
			desc += "+flip"
		}
		if len(f) > 14000 {
			continue
		}
		var out []byte
		var err error
		zr, e := fgzip.NewReader(&chunkSrc{data: f, failAfter: -1, chunks: chunkPattern(r)})
		if e != nil {
			err = e
		} else {
			out, err = io.ReadAll(zr)
			if err == nil {
				err = io.EOF
			}
		}
		kcls := errClass(err)
		if kcls == "" {
			kcls = "other"
		}
		if e != nil {
			kcls = "ctor-" + kcls // NewReader itself failed (an empty source gives io.EOF there, as in compress/gzip): never a clean end of data
		}
		ends[kcls]++
		cs = append(cs, corrCase{line: fmt.Sprintf("FG %s %s %d %d", hexOrDash(f), kcls, len(out), fnv64(out)), expect: "ok",
			desc: fmt.Sprintf("%d members (%s), %d bytes -> %d bytes, %s", k, desc, len(f), len(out), kcls)})
	}
	return cs
}
