package main

import (
	"fmt"
	"sort"
)

// Stream synthesiser: builds DEFLATE streams block by block with a bit writer. It is NOT trusted:
// every synthesised stream is judged by the reference inflater(s) and compress/flate.

type bitWriter struct {
	b    []byte
	nbit int
}

func (w *bitWriter) bits(v, n int) {
	for i := 0; i < n; i++ {
		if w.nbit&7 == 0 {
			w.b = append(w.b, 0)
		}
		if (v>>uint(i))&1 == 1 {
			w.b[len(w.b)-1] |= 1 << uint(w.nbit&7)
		}
		w.nbit++
	}
}

// code writes a Huffman code (MSB first as RFC 1951 demands).
func (w *bitWriter) code(c, n int) {
	for i := n - 1; i >= 0; i-- {
		w.bits((c>>uint(i))&1, 1)
	}
}
func (w *bitWriter) align() {
	for w.nbit&7 != 0 {
		w.bits(0, 1)
	}
}

type tok struct{ lit, length, dist int } // length==0 => literal

// firstUnassigned returns a bit pattern (value, length) that no codeword of the (incomplete) canonical code
// for lens is a prefix of, and that is no prefix of a codeword: the first free code of the greatest length.
func firstUnassigned(lens []int) (code, n int, ok bool) {
	var cnt [17]int
	maxl := 0
	for _, l := range lens {
		cnt[l]++
		if l > maxl {
			maxl = l
		}
	}
	if maxl == 0 {
		return 0, 0, false
	}
	cnt[0] = 0
	c := 0
	for l := 1; l <= maxl; l++ {
		c = (c + cnt[l-1]) << 1
	}
	c += cnt[maxl] // next free code of length maxl
	if c >= 1<<uint(maxl) {
		return 0, 0, false // complete code
	}
	return c, maxl, true
}

func canonCodes(lens []int) []int {
	var cnt [17]int
	for _, l := range lens {
		cnt[l]++
	}
	cnt[0] = 0
	var next [17]int
	c := 0
	for l := 1; l <= 16; l++ {
		c = (c + cnt[l-1]) << 1
		next[l] = c
	}
	codes := make([]int, len(lens))
	for s, l := range lens {
		if l != 0 {
			codes[s] = next[l]
			next[l]++
		}
	}
	return codes
}

// randLens assigns Kraft-complete code lengths (max L) to the symbols in used (sorted), size n = alphabet size.
// skew in [0,100]: probability of splitting the deepest leaf (produces long codes beside short ones).
func randLens(r *Rng, used []int, n, L, skew int) []int {
	lens := make([]int, n)
	if len(used) == 0 {
		return lens
	}
	if len(used) == 1 {
		lens[used[0]] = 1
		return lens
	}
	depths := []int{1, 1}
	for len(depths) < len(used) {
		// choose a leaf with depth < L
		idx := -1
		if r.Intn(100) < skew {
			best := -1
			for i, d := range depths {
				if d < L && d > best {
					best, idx = d, i
				}
			}
		} else {
			for tries := 0; tries < 50; tries++ {
				i := r.Intn(len(depths))
				if depths[i] < L {
					idx = i
					break
				}
			}
			if idx < 0 {
				for i, d := range depths {
					if d < L {
						idx = i
						break
					}
				}
			}
		}
		if idx < 0 {
			panic("randLens: alphabet too large for L")
		}
		depths[idx]++
		depths = append(depths, depths[idx])
	}
	perm := make([]int, len(used))
	for i := range perm {
		perm[i] = i
	}
	for i := len(perm) - 1; i > 0; i-- {
		j := r.Intn(i + 1)
		perm[i], perm[j] = perm[j], perm[i]
	}
	for i, s := range used {
		lens[s] = depths[perm[i]]
	}
	return lens
}

func lenSym(length int) (sym, extraBits, extra int) {
	for i := len(refLenBase) - 1; i >= 0; i-- {
		if length >= refLenBase[i] {
			if i == 28 && length != 258 {
				continue
			}
			return 257 + i, refLenExtra[i], length - refLenBase[i]
		}
	}
	panic("len")
}
func distSym(dist int) (sym, extraBits, extra int) {
	for i := len(refDistBase) - 1; i >= 0; i-- {
		if dist >= refDistBase[i] {
			return i, refDistExtra[i], dist - refDistBase[i]
		}
	}
	panic("dist")
}

type SynthOpts struct {
	MaxBlocks  int
	MaxTokens  int
	Fault      string // "" or a fault name
	BigStored  bool
	ManyTiny   bool
	FarDist    bool
	LongCodes  bool
	StdCompat  bool // only shapes compress/flate accepts (complete codes)
	ManyDist   bool // code many distance symbols (long distance codes, long-code tables)
	Tight      bool // no unused-but-coded symbols: short codes, packed multi-symbol table entries
	SmallAlpha int  // >0: literals drawn from this many symbols
	ForceKind  int  // 0 = any block type; 1 = only fixed-Huffman blocks; 2 = only dynamic blocks
	LastStored bool // the final block is a stored block
}

var faultNames = []string{"dist-beyond", "unassigned-code", "oversubscribed", "missing-eob", "repeat-nothing", "run-past-count", "bad-nlen", "btype3", "len-286", "dist-30", "unassigned-dist", "no-dist-code-used", "oversub-cl", "hlit-range", "unassigned-dist-long", "stale-dist", "stale-lit"}

type Synth struct {
	r     *Rng
	w     bitWriter
	out   []byte
	desc  []string
	fault string
	done  bool // fault injected
	small int
	// code lengths of the previous dynamic block (for the stale-table faults)
	prevLL, prevDL []int
}

func (s *Synth) randTokens(n int, farDist bool, allowRefs bool) []tok {
	var toks []tok
	cur := len(s.out)
	alpha := 1 + s.r.Intn(s.r.Pick([]int{2, 8, 64, 256}))
	if s.small > 0 {
		alpha = s.small
	}
	base := s.r.Intn(256)
	for i := 0; i < n; i++ {
		if allowRefs && cur > 0 && s.r.Intn(3) == 0 {
			length := s.r.Pick([]int{3, 4, 5, 10, 11, 12, 13, 18, 19, 66, 67, 130, 131, 226, 227, 257, 258, 3 + s.r.Intn(256)})
			var dist int
			switch s.r.Intn(6) {
			case 0:
				dist = 1
			case 1:
				dist = cur // maximal legal
			case 2:
				dist = 1 + s.r.Intn(min(cur, 8))
			default:
				dist = 1 + s.r.Intn(cur)
			}
			if farDist && cur >= 32768 && s.r.Intn(2) == 0 {
				dist = 32768 - s.r.Intn(3)
			}
			if dist > 32768 {
				dist = 32768 - s.r.Intn(100)
			}
			if dist > cur {
				dist = cur
			}
			toks = append(toks, tok{length: length, dist: dist})
			cur += length
		} else {
			toks = append(toks, tok{lit: (base + s.r.Intn(alpha)) & 255})
			cur++
		}
	}
	return toks
}

func (s *Synth) apply(toks []tok) {
	for _, t := range toks {
		if t.length == 0 {
			s.out = append(s.out, byte(t.lit))
		} else {
			for i := 0; i < t.length; i++ {
				if t.dist > len(s.out) {
					s.out = append(s.out, 0)
				} else {
					s.out = append(s.out, s.out[len(s.out)-t.dist])
				}
			}
		}
	}
}

func (s *Synth) stored(final bool, n int) {
	s.w.bits(b2i(final), 1)
	s.w.bits(0, 2)
	// arbitrary padding bits (RFC: ignored)
	for s.w.nbit&7 != 0 {
		s.w.bits(s.r.Intn(2), 1)
	}
	data := s.r.Bytes(n)
	if s.r.Intn(3) == 0 {
		for i := range data {
			data[i] = byte('a' + i%7)
		}
	}
	nlen := (^n) & 0xffff
	if s.fault == "bad-nlen" && !s.done {
		nlen ^= 1 << uint(s.r.Intn(16))
		s.done = true
	}
	s.w.bits(n, 16)
	s.w.bits(nlen, 16)
	s.w.b = append(s.w.b, data...)
	s.w.nbit += 8 * n
	s.out = append(s.out, data...)
	s.desc = append(s.desc, "stored")
}

func b2i(b bool) int {
	if b {
		return 1
	}
	return 0
}

func (s *Synth) emitTokens(toks []tok, ll, dl []int) {
	lc, dc := canonCodes(ll), canonCodes(dl)
	for _, t := range toks {
		if t.length == 0 {
			s.w.code(lc[t.lit], ll[t.lit])
			continue
		}
		sym, eb, e := lenSym(t.length)
		s.w.code(lc[sym], ll[sym])
		s.w.bits(e, eb)
		ds, deb, de := distSym(t.dist)
		s.w.code(dc[ds], dl[ds])
		s.w.bits(de, deb)
	}
	s.w.code(lc[256], ll[256])
}

func (s *Synth) fixed(final bool, toks []tok) {
	s.w.bits(b2i(final), 1)
	s.w.bits(1, 2)
	ll, dl := fixedLens()
	dl = append(dl, 5, 5)
	if !s.done && (s.fault == "len-286" || s.fault == "dist-30") {
		// emit tokens, then the bad symbol
		lc, dc := canonCodes(ll), canonCodes(dl)
		s.emitNoEOB(toks, ll, dl)
		s.apply(toks)
		if s.fault == "len-286" {
			sym := 286 + s.r.Intn(2)
			s.w.code(lc[sym], ll[sym])
		} else {
			if len(s.out) == 0 {
				s.w.code(lc['x'], ll['x'])
				s.out = append(s.out, 'x')
			}
			s.w.code(lc[257], ll[257])
			sym := 30 + s.r.Intn(2)
			s.w.code(dc[sym], dl[sym])
		}
		s.done = true
		s.w.bits(int(s.r.U64()&0xffff), 16)
		s.desc = append(s.desc, "fixed+"+s.fault)
		return
	}
	s.emitTokens(toks, ll, dl)
	s.apply(toks)
	s.desc = append(s.desc, "fixed")
}

func (s *Synth) emitNoEOB(toks []tok, ll, dl []int) {
	lc, dc := canonCodes(ll), canonCodes(dl)
	for _, t := range toks {
		if t.length == 0 {
			s.w.code(lc[t.lit], ll[t.lit])
			continue
		}
		sym, eb, e := lenSym(t.length)
		s.w.code(lc[sym], ll[sym])
		s.w.bits(e, eb)
		ds, deb, de := distSym(t.dist)
		s.w.code(dc[ds], dl[ds])
		s.w.bits(de, deb)
	}
}

// rle produces the code-length-alphabet symbol stream for lens (lit ++ dist concatenated: runs may cross the boundary).
type clSym struct{ sym, extra, ebits int }

func (s *Synth) rle(lens []int, useRuns int) []clSym {
	var outp []clSym
	i := 0
	for i < len(lens) {
		v := lens[i]
		j := i
		for j < len(lens) && lens[j] == v {
			j++
		}
		run := j - i
		if s.r.Intn(100) >= useRuns {
			run = 1
		}
		if v == 0 && run >= 3 {
			if run > 138 {
				run = 138
			}
			if s.r.Intn(4) == 0 {
				run = 3 + s.r.Intn(run-2)
			}
			if run <= 10 {
				outp = append(outp, clSym{17, run - 3, 3})
			} else {
				outp = append(outp, clSym{18, run - 11, 7})
			}
			i += run
			continue
		}
		if v != 0 && run >= 4 {
			outp = append(outp, clSym{v, 0, 0})
			rep := run - 1
			if rep > 6 {
				rep = 6
			}
			if s.r.Intn(4) == 0 {
				rep = 3 + s.r.Intn(rep-2)
			}
			outp = append(outp, clSym{16, rep - 3, 2})
			i += 1 + rep
			continue
		}
		if v == 0 && i > 0 && run >= 3 && lens[i-1] == 0 {
			// repeat-previous of a zero is legal too
			outp = append(outp, clSym{16, 0, 2})
			i += 3
			continue
		}
		outp = append(outp, clSym{v, 0, 0})
		i++
	}
	return outp
}

func (s *Synth) dynamic(final bool, toks []tok, o SynthOpts) {
	// used symbols
	usedL := map[int]bool{256: true}
	usedD := map[int]bool{}
	for _, t := range toks {
		if t.length == 0 {
			usedL[t.lit] = true
		} else {
			ls, _, _ := lenSym(t.length)
			ds, _, _ := distSym(t.dist)
			usedL[ls] = true
			usedD[ds] = true
		}
	}
	// extra unused-but-coded symbols
	if !o.Tight {
		for k := s.r.Intn(12); k > 0; k-- {
			usedL[s.r.Intn(286)] = true
		}
		if s.r.Intn(3) == 0 {
			usedL[285] = true
		}
		for k := s.r.Intn(4); k > 0; k-- {
			usedD[s.r.Intn(30)] = true
		}
		if s.r.Intn(4) == 0 {
			usedD[29] = true
		}
	}
	if o.ManyDist {
		for k := 12 + s.r.Intn(14); k > 0; k-- {
			usedD[s.r.Intn(30)] = true
		}
	}
	fault := ""
	if !s.done {
		fault = s.fault
	}
	keys := func(m map[int]bool) []int {
		var k []int
		for x := range m {
			k = append(k, x)
		}
		sort.Ints(k)
		return k
	}
	skew := s.r.Pick([]int{0, 20, 60, 95})
	if o.LongCodes {
		skew = 95
	}
	ul, ud := keys(usedL), keys(usedD)
	for len(ul) < 2 {
		usedL[s.r.Intn(256)] = true
		ul = keys(usedL)
	}
	ll := randLens(s.r, ul, 286, 15, skew)
	var dl []int
	switch {
	case len(ud) == 0:
		dl = make([]int, 30)
		if s.r.Bool() || o.StdCompat && false {
			dl[s.r.Intn(30)] = 1 // degenerate one-code distance tree, unused
		}
	default:
		dl = randLens(s.r, ud, 30, 15, skew)
	}
	if (fault == "stale-dist" || fault == "stale-lit") && s.prevLL != nil {
		// Same code as the previous dynamic block, minus its last longest codeword: every other codeword is
		// unchanged, the dropped one is now unassigned - and is exactly where the previous table had an entry.
		ll2, dl2 := append([]int{}, s.prevLL...), append([]int{}, s.prevDL...)
		target := dl2
		if fault == "stale-lit" {
			target = ll2
		}
		maxl, victim := 0, -1
		for i, l := range target {
			if l >= maxl && l > 0 && !(fault == "stale-lit" && i >= 256) {
				maxl, victim = l, i
			}
		}
		if victim >= 0 && maxl > 1 {
			oldLC, oldDC := canonCodes(s.prevLL), canonCodes(s.prevDL)
			target[victim] = 0
			var body []tok
			for _, t := range toks {
				if t.length == 0 {
					if ll2[t.lit] != 0 {
						body = append(body, t)
					}
					continue
				}
				ls, _, _ := lenSym(t.length)
				ds, _, _ := distSym(t.dist)
				if ll2[ls] != 0 && dl2[ds] != 0 {
					body = append(body, t)
				}
			}
			hl, hd := 286, 30
			for hl > 257 && ll2[hl-1] == 0 {
				hl--
			}
			for hd > 1 && dl2[hd-1] == 0 {
				hd--
			}
			all := append(append([]int{}, ll2[:hl]...), dl2[:hd]...)
			rl := s.rle(all, 100)
			usedCL := map[int]bool{}
			for _, c := range rl {
				usedCL[c.sym] = true
			}
			var ucl []int
			for x := range usedCL {
				ucl = append(ucl, x)
			}
			sort.Ints(ucl)
			cl := randLens(s.r, ucl, 19, 7, 0)
			hclen := 19
			for hclen > 4 && cl[refClOrder[hclen-1]] == 0 {
				hclen--
			}
			clc := canonCodes(cl)
			s.w.bits(b2i(final), 1)
			s.w.bits(2, 2)
			s.w.bits(hl-257, 5)
			s.w.bits(hd-1, 5)
			s.w.bits(hclen-4, 4)
			for i := 0; i < hclen; i++ {
				s.w.bits(cl[refClOrder[i]], 3)
			}
			for _, c := range rl {
				s.w.code(clc[c.sym], cl[c.sym])
				s.w.bits(c.extra, c.ebits)
			}
			// all remaining codewords are those of the previous block
			s.emitNoEOB(body, s.prevLL, s.prevDL)
			s.apply(body)
			if fault == "stale-lit" {
				s.w.code(oldLC[victim], s.prevLL[victim])
			} else {
				// a length symbol, then the dropped distance codeword
				for q := 257; q < 286; q++ {
					if ll2[q] != 0 {
						if len(s.out) == 0 {
							for x := 0; x < 256; x++ {
								if ll2[x] != 0 {
									s.w.code(oldLC[x], ll2[x])
									s.out = append(s.out, byte(x))
									break
								}
							}
						}
						s.w.code(oldLC[q], ll2[q])
						s.w.bits(0, refLenExtra[q-257])
						s.w.code(oldDC[victim], s.prevDL[victim])
						break
					}
				}
			}
			s.w.bits(int(s.r.U64()&0xffffff), 24)
			s.done = true
			s.desc = append(s.desc, "dyn+"+fault)
			return
		}
	}
	var bad tok
	injected := false
	switch fault {
	case "unassigned-code":
		// make the literal code incomplete: drop one symbol that is NOT used by the tokens, then hit it
		victim := -1
		for _, x := range ul {
			if x < 256 {
				victim = x
			}
		}
		if victim >= 0 {
			injected = true
			bad = tok{lit: victim}
		}
	case "unassigned-dist", "unassigned-dist-long":
		if len(ud) >= 2 {
			injected = true
		}
	case "missing-eob":
		injected = true
	case "oversubscribed":
		injected = true
	case "no-dist-code-used":
		injected = true
	}
	hlit := 286
	for hlit > 257 && ll[hlit-1] == 0 {
		hlit--
	}
	if s.r.Intn(4) == 0 {
		hlit = 257 + s.r.Intn(286-hlit+1) + (hlit - 257)
		if hlit > 286 {
			hlit = 286
		}
	}
	hdist := 30
	for hdist > 1 && dl[hdist-1] == 0 {
		hdist--
	}
	if s.r.Intn(4) == 0 && hdist < 30 {
		hdist += s.r.Intn(30 - hdist + 1)
	}
	encLL := append([]int{}, ll...)
	encDL := append([]int{}, dl...)
	var extraTok *tok
	switch {
	case fault == "unassigned-code" && injected:
		// header declares the victim with length 0 (incomplete code); the body then uses the
		// code the complete assignment would have given it
		ll2 := append([]int{}, ll...)
		ll2[bad.lit] = 0
		ll = ll2
		s.done = true
	case (fault == "unassigned-dist" || fault == "unassigned-dist-long") && injected:
		dl2 := append([]int{}, dl...)
		victim := ud[len(ud)-1]
		if fault == "unassigned-dist-long" {
			// prefer a victim whose code is longer than the 10-bit short table
			for _, x := range ud {
				if dl[x] > 10 {
					victim = x
				}
			}
		}
		dl2[victim] = 0
		dl = dl2
		extraTok = &tok{length: 3, dist: refDistBase[victim]}
		s.done = true
	case fault == "missing-eob":
		ll2 := append([]int{}, ll...)
		ll2[256] = 0
		ll = ll2
		s.done = true
	case fault == "oversubscribed" && s.r.Intn(2) == 0:
		// over-subscribed ONLY through a 15-bit code: the complete distance code {1, 1} plus one code of length 15
		// (the Kraft sum exceeds 1 by 2^-15; a check that stops one length short accepts it)
		dl2 := make([]int, 30)
		dl2[0], dl2[1], dl2[2+s.r.Intn(3)] = 1, 1, 15
		dl = dl2
		hdist = 5 + s.r.Intn(4)
		s.done = true
	case fault == "oversubscribed":
		ll2 := append([]int{}, ll...)
		// shorten one code: Kraft sum > 1
		for tries := 0; tries < 100; tries++ {
			x := ul[s.r.Intn(len(ul))]
			if ll2[x] > 1 {
				ll2[x]--
				break
			}
		}
		ll = ll2
		s.done = true
	case fault == "no-dist-code-used":
		dl = make([]int, 30)
		hdist = 1 + s.r.Intn(3)
		extraTok = &tok{length: 3 + s.r.Intn(5), dist: 1}
		encDL = make([]int, 30)
		encDL[0] = 1
		s.done = true
	case fault == "hlit-range":
		s.done = true
	}
	all := append(append([]int{}, ll[:hlit]...), dl[:hdist]...)
	rl := s.rle(all, s.r.Pick([]int{0, 50, 100}))
	switch fault {
	case "repeat-nothing":
		rl = append([]clSym{{16, s.r.Intn(4), 2}}, rl...)
		s.done = true
	case "run-past-count":
		k := s.r.Intn(3)
		switch k {
		case 0:
			rl = append(rl, clSym{18, s.r.Intn(128), 7})
		case 1:
			rl = append(rl, clSym{17, s.r.Intn(8), 3})
		default:
			rl = append(rl, clSym{16, s.r.Intn(4), 2})
		}
		// the excess run must be the one that crosses the end: replace the last regular symbol
		if len(rl) >= 2 {
			rl[len(rl)-2], rl[len(rl)-1] = rl[len(rl)-1], rl[len(rl)-2]
			rl = rl[:len(rl)-1]
			// make sure it really overshoots: use max run
			last := &rl[len(rl)-1]
			switch last.sym {
			case 18:
				last.extra = 127
			case 17:
				last.extra = 7
			case 16:
				last.extra = 3
			}
		}
		s.done = true
	}
	usedCL := map[int]bool{}
	for _, c := range rl {
		usedCL[c.sym] = true
	}
	if s.r.Intn(3) == 0 {
		usedCL[s.r.Intn(19)] = true
	}
	ucl := keys(usedCL)
	cl := randLens(s.r, ucl, 19, 7, s.r.Pick([]int{0, 50, 95}))
	if fault == "oversub-cl" && len(ucl) >= 2 {
		for tries := 0; tries < 100; tries++ {
			x := ucl[s.r.Intn(len(ucl))]
			if cl[x] > 1 {
				cl[x]--
				s.done = true
				break
			}
		}
	}
	hclen := 19
	for hclen > 4 && cl[refClOrder[hclen-1]] == 0 {
		hclen--
	}
	if s.r.Intn(4) == 0 {
		hclen += s.r.Intn(19 - hclen + 1)
	}
	clc := canonCodes(cl)
	s.w.bits(b2i(final), 1)
	s.w.bits(2, 2)
	if fault == "hlit-range" {
		s.w.bits(30+s.r.Intn(2), 5)
	} else {
		s.w.bits(hlit-257, 5)
	}
	s.w.bits(hdist-1, 5)
	s.w.bits(hclen-4, 4)
	for i := 0; i < hclen; i++ {
		s.w.bits(cl[refClOrder[i]], 3)
	}
	for _, c := range rl {
		s.w.code(clc[c.sym], cl[c.sym])
		s.w.bits(c.extra, c.ebits)
	}
	// body: encoded with the complete assignment (encLL/encDL)
	switch {
	case fault == "unassigned-code" && injected:
		// the header's code is incomplete (victim dropped): encode the tokens with THAT code, then emit a bit
		// pattern it leaves unassigned
		body := toks[:0:0]
		for _, t := range toks {
			if !(t.length == 0 && t.lit == bad.lit) {
				body = append(body, t)
			}
		}
		s.emitNoEOB(body, ll, encDL)
		s.apply(body)
		if c, n, ok := firstUnassigned(ll[:hlit]); ok {
			s.w.code(c, n)
		}
		s.w.bits(int(s.r.U64()&0xffffff), 24)
	case extraTok != nil && (fault == "unassigned-dist" || fault == "unassigned-dist-long"):
		victimSym, _, _ := distSym(extraTok.dist)
		body := toks[:0:0]
		for _, t := range toks {
			if t.length != 0 {
				if ds, _, _ := distSym(t.dist); ds == victimSym {
					continue
				}
			}
			body = append(body, t)
		}
		s.emitNoEOB(body, encLL, dl)
		s.apply(body)
		lc := canonCodes(encLL)
		ls := -1
		for q := 257; q < 286; q++ {
			if encLL[q] != 0 {
				ls = q
				break
			}
		}
		if ls >= 0 {
			if len(s.out) == 0 {
				x := ul[0]
				s.w.code(lc[x], encLL[x])
				s.out = append(s.out, byte(x))
			}
			s.w.code(lc[ls], encLL[ls])
			s.w.bits(0, refLenExtra[ls-257])
			if c, n, ok := firstUnassigned(dl[:hdist]); ok {
				s.w.code(c, n)
			}
		}
		s.w.bits(int(s.r.U64()&0xffffff), 24)
	case fault == "missing-eob":
		s.emitNoEOB(toks, encLL, encDL)
		s.apply(toks)
		s.w.bits(int(s.r.U64()&0xffffff), 24)
	default:
		s.emitTokens(toks, encLL, encDL)
		s.apply(toks)
		s.prevLL, s.prevDL = append([]int{}, encLL...), append([]int{}, encDL...)
	}
	s.desc = append(s.desc, "dyn")
}

// Synthesize builds one stream. Returns the bytes, the output the synthesiser believes it encodes and a description.
func Synthesize(r *Rng, o SynthOpts) ([]byte, []byte, string) {
	s := &Synth{r: r, fault: o.Fault, small: o.SmallAlpha}
	nb := 1 + r.Intn(max(1, o.MaxBlocks))
	if o.ManyTiny {
		nb = 200 + r.Intn(800)
	}
	faultBlock := r.Intn(nb)
	if o.Fault == "stale-dist" || o.Fault == "stale-lit" {
		// a valid dynamic block with long codes first, the faulty one right after it
		if nb < 2 {
			nb = 2
		}
		faultBlock = nb - 1
		o.ManyDist, o.LongCodes = true, true
		if o.MaxTokens < 600 {
			o.MaxTokens = 600
		}
	}
	if o.Fault == "unassigned-dist-long" && nb >= 2 {
		faultBlock = 1 + r.Intn(nb-1) // stale entries need an earlier block
		o.ManyDist, o.LongCodes = true, true
	}
	for b := 0; b < nb; b++ {
		final := b == nb-1
		kind := r.Intn(5) // 0 stored 1 fixed 2,3,4 dynamic
		switch o.ForceKind {
		case 1:
			kind = 1
		case 2:
			kind = 2
		}
		if o.LastStored && final {
			kind = 0
		}
		if (o.Fault == "stale-dist" || o.Fault == "stale-lit") && b == faultBlock-1 {
			kind = 2
		}
		if o.Fault != "" && b == faultBlock && !s.done {
			switch o.Fault {
			case "bad-nlen":
				kind = 0
			case "len-286", "dist-30":
				kind = 1
			case "btype3":
				s.w.bits(b2i(final), 1)
				s.w.bits(3, 2)
				s.w.bits(int(r.U64()&0xffff), 16)
				s.done = true
				s.desc = append(s.desc, "btype3")
				goto finish
			case "dist-beyond":
				// handled below through a token
			default:
				kind = 2
			}
		}
		{
			ntok := r.Intn(max(1, o.MaxTokens))
			if o.ManyTiny {
				ntok = r.Intn(4)
			}
			if r.Intn(8) == 0 {
				ntok = 0 // empty block
			}
			switch kind {
			case 0:
				n := r.Intn(200)
				if o.BigStored && r.Intn(2) == 0 {
					n = r.Pick([]int{0, 1, 65535, 65534, 40000})
				}
				if r.Intn(6) == 0 {
					n = 0
				}
				s.stored(final, n)
			case 1:
				toks := s.randTokens(ntok, o.FarDist, true)
				if o.Fault == "dist-beyond" && b == faultBlock && !s.done {
					toks = s.injectDistBeyond(toks)
				}
				s.fixed(final, toks)
			default:
				toks := s.randTokens(ntok, o.FarDist, true)
				if o.Fault == "dist-beyond" && b == faultBlock && !s.done {
					toks = s.injectDistBeyond(toks)
				}
				s.dynamic(final, toks, o)
			}
		}
		if s.done && o.Fault != "" {
			// a fault ends the meaningful part; add some trailing garbage sometimes
			if r.Bool() {
				s.w.align()
				s.w.b = append(s.w.b, r.Bytes(r.Intn(40))...)
			}
			break
		}
	}
finish:
	d := ""
	for i, x := range s.desc {
		if i > 12 {
			d += "…"
			break
		}
		if i > 0 {
			d += ","
		}
		d += x
	}
	return s.w.b, s.out, d
}

func (s *Synth) injectDistBeyond(toks []tok) []tok {
	// keep a prefix, then a reference reaching before the start of the output
	k := s.r.Intn(len(toks) + 1)
	toks = toks[:k]
	cur := len(s.out)
	for _, t := range toks {
		if t.length == 0 {
			cur++
		} else {
			cur += t.length
		}
	}
	over := s.r.Pick([]int{1, 2, 3, 4, 5, 8, 100, 1000})
	d := cur + over
	if d > 32768 {
		// cannot exceed: shrink to a still-invalid case is impossible; make a fresh small one
		return toks
	}
	s.done = true
	return append(toks, tok{length: 3 + s.r.Intn(20), dist: d})
}

// SynthBoundary builds a valid stream in which a block ends (or a match / literal group straddles) exactly
// where the Reader's 64 KiB output window fills up: total output 65536 + 32768*j, plus or minus a few bytes.
// SynthOneBlockEdge: ONE final Huffman block of literals whose output ends within a few bytes of the 64 KiB
// window (a long final block keeps the multi-symbol table mode on, so the end-of-block code can share a packed
// table entry with the last literals at the moment the window is full).
func SynthOneBlockEdge(r *Rng) ([]byte, []byte, string) {
	s := &Synth{r: r, small: r.Pick([]int{1, 2, 3, 4, 8, 20})}
	n := 65536 + r.Pick([]int{-1, 0, 1, 1, 2, 2, 3})
	toks := s.randTokens(n, false, false)
	if r.Intn(3) == 0 {
		s.fixed(true, toks)
		return s.w.b, s.out, fmt.Sprintf("oneblock-fixed%+d", n-65536)
	}
	s.dynamic(true, toks, SynthOpts{Tight: true})
	return s.w.b, s.out, fmt.Sprintf("oneblock%+d", n-65536)
}

func SynthBoundary(r *Rng) ([]byte, []byte, string) {
	if r.Intn(5) == 0 {
		return SynthOneBlockEdge(r)
	}
	s := &Synth{r: r, small: r.Pick([]int{1, 2, 3, 4, 8})}
	boundary := 65536 + 32768*r.Intn(3)
	m := r.Intn(500)
	delta := r.Pick([]int{-2, -1, 0, 0, 1, 2, 3})
	if m+delta < 0 {
		delta = 0
	}
	// bulk of the output: stored blocks and a cheap periodic Huffman block
	need := boundary - m
	for need > 0 {
		n := need
		if n > 65535 {
			n = 60000 + r.Intn(5000)
		}
		if r.Intn(3) == 0 && len(s.out) > 0 && n > 600 {
			// a fixed block of long matches
			var toks []tok
			got := 0
			for got+258 <= n {
				toks = append(toks, tok{length: 258, dist: 1 + r.Intn(min(len(s.out), 300))})
				got += 258
			}
			for got < n {
				toks = append(toks, tok{lit: 'x'})
				got++
			}
			s.fixed(false, toks)
		} else {
			s.stored(false, n)
		}
		need -= n
	}
	o := SynthOpts{Tight: true}
	// the block that ends at the boundary
	toks := s.randTokens(m+delta, false, false)
	pat := r.Intn(6)
	if pat >= 4 {
		// literals filling the window exactly, then one or two more literals and a match right behind them:
		// a packed [literal.., length] table entry meets the window edge
		extra := 1 + r.Intn(2)
		toks = s.randTokens(m+extra, false, false)
		toks = append(toks, tok{length: r.Pick([]int{3, 4, 5, 10, 258}), dist: 1 + r.Intn(min(len(s.out)+m, 300))})
		toks = append(toks, s.randTokens(r.Intn(20), false, false)...)
		delta = extra
	}
	switch pat {
	case 0: // end with a match that crosses the boundary
		if len(toks) > 6 {
			toks = toks[:len(toks)-5]
			toks = append(toks, tok{length: r.Pick([]int{3, 10, 258}), dist: 1 + r.Intn(200)})
		}
	case 1: // literals then a match landing exactly on it
		if len(toks) > 12 {
			toks = toks[:len(toks)-10]
			toks = append(toks, tok{length: 10 - delta, dist: 1 + r.Intn(200)})
		}
	}
	if r.Intn(3) == 0 {
		// the block at the window edge is the FINAL block: its end-of-block code sits in the same (packed) table
		// entry as the last literal(s), decoded when the window is exactly full
		if r.Bool() {
			s.dynamic(true, toks, o)
		} else {
			s.fixed(true, toks)
		}
		return s.w.b, s.out, fmt.Sprintf("boundary%d%+d:final", boundary, delta)
	}
	if r.Bool() {
		s.dynamic(false, toks, o)
	} else {
		s.fixed(false, toks)
	}
	// what follows
	tail := s.randTokens(r.Pick([]int{0, 1, 2, 50, 3000}), false, true)
	s.small = 0
	if r.Bool() {
		s.dynamic(false, tail, o)
		s.dynamic(true, s.randTokens(r.Intn(2000), false, true), SynthOpts{})
	} else {
		s.dynamic(true, tail, o)
	}
	return s.w.b, s.out, fmt.Sprintf("boundary%d%+d", boundary, delta)
}
