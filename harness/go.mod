module fgharness

go 1.21

require github.com/intel/fastgo v0.0.0

replace github.com/intel/fastgo => /repo
