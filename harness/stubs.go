package main

import (
	"errors"
	"runtime"
)

func emitModelCases(kind string, r *Rng, tier string, n int) {}

var errSrcInjected = errors.New("injected source failure A")
var errSrcInjected2 = errors.New("injected source failure B")

func setProcs(n int) int { return runtime.GOMAXPROCS(n) }
