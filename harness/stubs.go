package main

import (
	"errors"
	"fmt"
	"io"
	"runtime"
)

func emitModelCases(kind string, r *Rng, tier string, n int) {}

var errSrcInjected = errors.New("injected source failure A")
var errSrcInjected2 = errors.New("injected source failure B")
var errSrcWrapsEOF = fmt.Errorf("transport closed: %w", io.EOF)

func setProcs(n int) int { return runtime.GOMAXPROCS(n) }
