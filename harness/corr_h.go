package main

import (
	"fmt"
	"strings"

	fflate "github.com/intel/fastgo/compress/flate"
)

// H correspondence: the Lean control model of the Huffman-only compressor (Writer/HuffControl.lean) in
// lock-step with the implementation at level -2. The block encoder's answers (how many destination writes each
// block made and of what sizes) are replayed from what the harness's destination saw, grouped by the block
// counter of the verif hook; per-op results, the buffer fill and the number of destination calls must agree,
// and the model must consume the recorded blocks exactly.

type hDst struct {
	w      *fflate.Writer
	calls  int
	fails  map[int]bool
	blocks map[int][]int // block id -> sizes of its destination writes
	order  []int
}

func (d *hDst) Write(p []byte) (int, error) {
	k := d.calls
	d.calls++
	st := d.w.VerifState()
	if st.Offset > 0 { // inside encodeBlock's loop: offset is cleared only after the last chunk
		if _, seen := d.blocks[st.Blocks]; !seen {
			d.order = append(d.order, st.Blocks)
		}
		d.blocks[st.Blocks] = append(d.blocks[st.Blocks], len(p))
	}
	if d.fails[k] {
		return 0, errInjected
	}
	return len(p), nil
}

func init() {
	corrGens["H"] = genHCases
}

func genHCases(r *Rng, tier string, n int) []corrCase {
	var cs []corrCase
	for i := 0; i < n; i++ {
		var ops []string
		var data [][]byte
		mx := r.Pick([]int{300, 9000, 70000, 140000, 300000})
		nops := 1 + r.Intn(10)
		for j := 0; j < nops; j++ {
			switch r.Intn(10) {
			case 0, 1:
				ops = append(ops, "f")
				data = append(data, nil)
			case 2:
				ops = append(ops, "c")
				data = append(data, nil)
			case 3:
				ops = append(ops, "r")
				data = append(data, nil)
			default:
				_, d := RandPayload(r, mx)
				switch r.Intn(8) {
				case 0:
					d = d[:0]
				case 1: // exactly fill the 64 KiB buffer, or one byte either side
					d = Payload(r, "text", 65536+r.Intn(3)-1)
				}
				ops = append(ops, fmt.Sprintf("w%d", len(d)))
				data = append(data, d)
			}
		}
		if r.Intn(3) != 0 {
			ops = append(ops, "c")
			data = append(data, nil)
		}
		fails := map[int]bool{}
		var failList []string
		if r.Intn(3) == 0 {
			k := r.Intn(12)
			fails[k] = true
			failList = append(failList, fmt.Sprint(k))
			if r.Bool() {
				for q := k + 1; q < k+80; q++ {
					fails[q] = true
					failList = append(failList, fmt.Sprint(q))
				}
			}
		}
		dst := &hDst{fails: fails, blocks: map[int][]int{}}
		w, _ := fflate.NewWriter(dst, -2)
		dst.w = w
		var blocks []string
		flushBlocks := func(d *hDst) {
			for _, id := range d.order {
				var ss []string
				for _, s := range d.blocks[id] {
					ss = append(ss, fmt.Sprint(s))
				}
				blocks = append(blocks, strings.Join(ss, "."))
			}
		}
		var lines []string
		for j, op := range ops {
			var nn int
			var err error
			switch op[0] {
			case 'w':
				nn, err = w.Write(data[j])
			case 'f':
				err = w.Flush()
			case 'c':
				err = w.Close()
			case 'r':
				flushBlocks(dst)
				dst = &hDst{w: w, fails: map[int]bool{}, blocks: map[int][]int{}}
				w.Reset(dst)
			}
			st := w.VerifState()
			e := "ok"
			if err != nil {
				if err == errInjected {
					e = "injected"
				} else {
					e = "closed"
				}
			}
			lines = append(lines, fmt.Sprintf("%d,%s,%d,%d", nn, e, st.Offset, dst.calls))
		}
		flushBlocks(dst)
		expect := strings.Join(lines, ";") + " left=0 bad=-"
		fl := "-"
		if len(failList) > 0 {
			fl = strings.Join(failList, ",")
		}
		bl := "-"
		if len(blocks) > 0 {
			bl = strings.Join(blocks, ";")
		}
		line := fmt.Sprintf("H %d %s %s %s", 65536, fl, strings.Join(ops, ","), bl)
		cs = append(cs, corrCase{line: line, expect: expect, desc: fmt.Sprintf("L-2 ops=%s fails=%s", strings.Join(ops, ","), fl)})
	}
	return cs
}
